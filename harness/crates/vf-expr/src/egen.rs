//! Type-directed proptest generators (construction, never rejection) for the AST of `ast.rs`.
//!
//! Column layout is fixed: for every type of `ALL_TYS` there are two columns (indices `2k`, `2k+1`); the
//! expression and the per-column value domains are generated independently, so each shrinks on its own.
//! Strategies are memoised per (type, depth) so building the generator is cheap.
use crate::ast::*;
use crate::df::ColSpec;
use crate::rexpr::cast_supported;
use proptest::prelude::*;
use proptest::strategy::Union;
use std::cell::RefCell;
use std::collections::HashMap;
use std::rc::Rc;

pub const COLS_PER_TY: usize = 2;

pub fn col_ty(i: u8) -> Ty {
    ALL_TYS[(i as usize / COLS_PER_TY) % ALL_TYS.len()]
}

pub fn cols_of(ty: Ty) -> Vec<u8> {
    let k = ALL_TYS.iter().position(|t| *t == ty).unwrap();
    (0..COLS_PER_TY).map(|j| (k * COLS_PER_TY + j) as u8).collect()
}

pub fn n_cols() -> usize {
    ALL_TYS.len() * COLS_PER_TY
}

/// interesting values per type (boundaries, neighbours of strategy / cast thresholds, pattern-ish strings)
pub fn pool(ty: Ty) -> Vec<V> {
    let ints = |v: &[i128]| v.iter().map(|i| V::I(*i)).collect::<Vec<_>>();
    let fl = |v: &[f64]| v.iter().map(|f| V::F(*f)).collect::<Vec<_>>();
    match ty {
        Ty::Bool => vec![V::B(true), V::B(false)],
        Ty::I8 => ints(&[-128, -127, -2, -1, 0, 1, 2, 3, 5, 7, 10, 100, 126, 127]),
        Ty::I16 => ints(&[-32768, -32767, -129, -128, -1, 0, 1, 2, 3, 127, 128, 255, 256, 1000, 32766, 32767]),
        Ty::I32 => ints(&[i32::MIN as i128, i32::MIN as i128 + 1, -32769, -129, -1, 0, 1, 2, 3, 10, 100, 127, 128, 255, 256, 32768, 65536, i32::MAX as i128 - 1, i32::MAX as i128]),
        Ty::I64 => ints(&[
            i64::MIN as i128,
            i64::MIN as i128 + 1,
            -2147483649,
            -2147483648,
            -129,
            -1,
            0,
            1,
            2,
            3,
            10,
            127,
            128,
            255,
            256,
            2147483647,
            2147483648,
            9007199254740992,
            9007199254740993,
            i64::MAX as i128 - 1,
            i64::MAX as i128,
        ]),
        Ty::U8 => ints(&[0, 1, 2, 3, 10, 127, 128, 254, 255]),
        Ty::U64 => ints(&[0, 1, 2, 3, 255, 256, 4294967296, 9007199254740993, i64::MAX as i128, i64::MAX as i128 + 1, u64::MAX as i128 - 1, u64::MAX as i128]),
        Ty::F32 => fl(&[0.0, 1.0, -1.0, 0.5, -2.5, 1.5, 3.0, 100.25, 127.0, 128.0, 255.0, 256.0, 16777216.0, 3e9, -3e9, 1e10]),
        Ty::F64 => fl(&[0.0, 1.0, -1.0, 0.5, -2.5, 1.5, 0.25, 3.0, 100.25, 127.0, 128.0, 255.0, 256.0, 2147483647.0, 2147483648.0, -2147483649.0, 9007199254740992.0, 1e19, -1e19]),
        Ty::Utf8 | Ty::Utf8View => [
            "", "a", "b", "c", "ab", "abc", "abcc", "ac", "aXc", "aBc", "ABC", "A", "a%", "a%c", "a_c", "%", "_", "a.c", "a\nb", "é", "aé", "éa", "1", "-1", "0", "12", "127", "128", "300", "-129", "2147483648", "99999999999",
            "xyz", "hello", "true", "false", "2020-02-29", "1970-01-01", "2021-01-01", "1.5", "0.25", "-2.5", "a longer string beyond twelve bytes", "a longer string beyond twelve bytez",
        ]
        .iter()
        .map(|s| V::S(s.to_string()))
        .collect(),
        Ty::Date32 => ints(&[-719162, -1, 0, 1, 10957, 18261, 18262, 18321, 18322, 18627, 18628, 18992, 18993, 2932896]),
        Ty::Dec => ints(&[0, 1, -1, 25, 100, -100, 150, -250, 12345, 12700, 12800, 25500, 25600, 30000, 3276700, 3276800, 214748364700, 214748364800, 9999999999, -9999999999]),
    }
}

/// values of `Dec` must have |unscaled| < 10^10
fn fix_dec(v: V) -> V {
    match v {
        V::I(i) if i.abs() >= 10_000_000_000 => V::I(i % 10_000_000_000),
        o => o,
    }
}

fn value_nonnull(ty: Ty) -> BoxedStrategy<V> {
    let from_pool = prop::sample::select(pool(ty)).prop_map(move |v| if ty == Ty::Dec { fix_dec(v) } else { v });
    let small: BoxedStrategy<V> = match ty {
        Ty::Bool => any::<bool>().prop_map(V::B).boxed(),
        Ty::U8 | Ty::U64 => (0i128..=12).prop_map(V::I).boxed(),
        t if t.is_int() => (-6i128..=6).prop_map(V::I).boxed(),
        Ty::Date32 => (18250i128..=18300).prop_map(V::I).boxed(),
        Ty::Dec => (-600i128..=600).prop_map(V::I).boxed(),
        Ty::F32 | Ty::F64 => (-40i32..=40).prop_map(|n| V::F(n as f64 / 4.0)).boxed(),
        _ => "[abcAé%_]{0,4}".prop_map(V::S).boxed(),
    };
    prop_oneof![3 => from_pool, 1 => small].boxed()
}

pub fn value(ty: Ty, null_weight: u32) -> BoxedStrategy<V> {
    if null_weight == 0 {
        return value_nonnull(ty);
    }
    prop_oneof![null_weight => Just(V::Null), 10 => value_nonnull(ty)].boxed()
}

/// domain of one column: 2..=9 values, NULL-heavy
pub fn col_spec(ty: Ty) -> BoxedStrategy<ColSpec> {
    (prop::collection::vec(value(ty, 3), 2..=9), prop::bool::weighted(0.8)).prop_map(move |(vals, nullable)| ColSpec { ty, nullable, vals }).boxed()
}

pub fn all_cols() -> BoxedStrategy<Vec<ColSpec>> {
    let v: Vec<BoxedStrategy<ColSpec>> = (0..n_cols()).map(|i| col_spec(col_ty(i as u8))).collect();
    v.boxed()
}

/// drop the domains of unreferenced columns (smaller replay files; they are never materialised)
pub fn prune_cols(cols: &mut [ColSpec], used: &[u8]) {
    for (i, c) in cols.iter_mut().enumerate() {
        if !used.contains(&(i as u8)) {
            c.vals.clear();
        }
    }
}

#[derive(Clone, Debug)]
pub struct GenCfg {
    /// scalar functions and regex operators (C04); the reference evaluator does not implement them
    pub funcs: bool,
    pub max_depth: u32,
    /// IN-list sizes to choose from
    pub inlist_sizes: Vec<usize>,
}

const LIKE_PATTERNS: &[&str] = &["%", "a%", "%c", "a_c", "_", "__", "%b%", "a\\%c", "a\\_c", "", "abc", "A%", "%%", "a%%c", "é%", "_é", "a\\\\%", "%a", "a%c", "_b_", "ab%", "%B%", "a\nb", "a_b", "%\n%", "a longer string beyond twelve byte_"];
const SIMILAR_PATTERNS: &[&str] = &["a%", "(ab|x)c", "a*", "a+b?", "[a-c]%", "[^a]_", "a.c", "%(b|c)", "abc", "", "(a|b)*c", "_*", "a|b|c", "[abc]+", "%", "_", "ab|a%", "a_c", "(a|é)%", "A%", "[a-c][a-c]", "a(b|c)+", "a\nb", "%\n%"];

fn like_pattern() -> BoxedStrategy<String> {
    let tok = prop::sample::select(vec!["a", "b", "c", "A", "%", "_", "\\%", "\\_", "\\\\", "é", "X"]);
    let built = prop::collection::vec(tok, 0..5).prop_map(|v| v.concat());
    prop_oneof![3 => prop::sample::select(LIKE_PATTERNS.to_vec()).prop_map(|s| s.to_string()), 2 => built].boxed()
}

fn similar_pattern() -> BoxedStrategy<String> {
    let atom = prop::sample::select(vec!["a", "b", "c", "_", "%", "[ab]", "[^a]", "[a-c]", "(a|b)", "(ab|c)", "X", "."]);
    let quant = prop::sample::select(vec!["", "", "", "*", "+", "?"]);
    let item = (atom, quant).prop_map(|(a, q)| if a == "%" { a.to_string() } else { format!("{a}{q}") });
    let seq = prop::collection::vec(item, 1..4).prop_map(|v| v.concat());
    let built = prop::collection::vec(seq, 1..3).prop_map(|v| v.join("|"));
    prop_oneof![3 => prop::sample::select(SIMILAR_PATTERNS.to_vec()).prop_map(|s| s.to_string()), 2 => built].boxed()
}

type S = BoxedStrategy<E>;

pub struct G {
    pub cfg: GenCfg,
    memo: RefCell<HashMap<(Ty, u32, bool), S>>,
}

fn cmp_op() -> BoxedStrategy<Op> {
    prop::sample::select(vec![Op::Eq, Op::Eq, Op::Ne, Op::Lt, Op::Le, Op::Gt, Op::Ge]).boxed()
}

fn bx(e: E) -> Box<E> {
    Box::new(e)
}

impl G {
    pub fn new(cfg: GenCfg) -> Rc<G> {
        Rc::new(G { cfg, memo: RefCell::new(HashMap::new()) })
    }

    pub fn col(&self, ty: Ty) -> S {
        prop::sample::select(cols_of(ty)).prop_map(E::Col).boxed()
    }

    pub fn lit(&self, ty: Ty) -> S {
        value(ty, 1).prop_map(move |v| E::Lit(ty, v)).boxed()
    }

    pub fn lit_nonnull(&self, ty: Ty) -> S {
        value(ty, 0).prop_map(move |v| E::Lit(ty, v)).boxed()
    }

    pub fn leaf(&self, ty: Ty) -> S {
        prop_oneof![6 => self.col(ty), 3 => self.lit(ty)].boxed()
    }

    fn nonzero_lit(&self, ty: Ty) -> S {
        value(ty, 0)
            .prop_map(move |v| {
                let z = match &v {
                    V::I(0) => true,
                    V::F(f) => *f == 0.0,
                    _ => false,
                };
                E::Lit(ty, if z { if ty.is_float() { V::F(2.0) } else { V::I(2) } } else { v })
            })
            .boxed()
    }

    fn zero_lit(ty: Ty) -> E {
        E::Lit(ty, if ty.is_float() { V::F(0.0) } else { V::I(0) })
    }

    fn in_list(&self, ty: Ty, d: u32) -> S {
        let sizes = self.cfg.inlist_sizes.clone();
        let elem: S = prop_oneof![12 => self.lit_nonnull(ty), 1 => Just(E::null(ty))].boxed();
        let lit_nonnull = self.lit_nonnull(ty);
        let list = prop::sample::select(sizes).prop_flat_map(move |n| prop::collection::vec(elem.clone(), n..=n));
        // occasionally one non-literal element (forces the dynamic, non-static-filter path) or a CAST of a literal
        let extra: BoxedStrategy<Option<(prop::sample::Index, E)>> = prop_oneof![
            8 => Just(None),
            1 => (any::<prop::sample::Index>(), self.col(ty)).prop_map(Some),
            1 => (any::<prop::sample::Index>(), lit_nonnull.prop_map(move |l| E::Cast { try_: false, e: bx(l), to: ty })).prop_map(Some),
        ]
        .boxed();
        let needle: S = prop_oneof![5 => self.col(ty), 1 => self.lit(ty), 2 => self.expr(ty, d.saturating_sub(1))].boxed();
        (needle, list, extra, any::<bool>())
            .prop_map(move |(e, mut list, extra, neg)| {
                if let Some((ix, x)) = extra {
                    // `CAST(lit AS same type)` would be elided; keep the element only when it is a column
                    let x = match x {
                        E::Cast { e, .. } => *e,
                        o => o,
                    };
                    let at = if list.is_empty() { 0 } else { ix.index(list.len() + 1) };
                    list.insert(at.min(list.len()), x);
                }
                // `<constant> IN ()` is not generated (the needle may fold to a NULL literal): the planner answers NULL for a literal Utf8 NULL needle but FALSE for
                // every other NULL needle (and the simplifier folds `x IN ()` to FALSE); SQL has no empty IN list.
                if list.is_empty() && e.columns().is_empty() {
                    list.push(E::Lit(ty, V::Null));
                }
                E::InList { neg, e: bx(e), list }
            })
            .boxed()
    }

    fn case_of(&self, ty: Ty, d: u32) -> S {
        let sub = d.saturating_sub(1);
        let cond = self.expr(Ty::Bool, sub);
        let val = self.expr(ty, sub);
        let mut alts: Vec<(u32, S)> = vec![];
        // (a) general searched CASE
        alts.push((
            3,
            (prop::collection::vec((cond.clone(), val.clone()), 1..=3), prop::option::weighted(0.6, val.clone()))
                .prop_map(|(whens, els)| E::Case { base: None, whens, els: els.map(bx) })
                .boxed(),
        ));
        // (b) WHEN c THEN column [no ELSE]
        alts.push((1, (cond.clone(), self.col(ty)).prop_map(|(c, t)| E::Case { base: None, whens: vec![(c, t)], els: None }).boxed()));
        // (c) WHEN c THEN literal ELSE literal
        alts.push((1, (cond.clone(), self.lit(ty), self.lit_nonnull(ty)).prop_map(|(c, t, e)| E::Case { base: None, whens: vec![(c, t)], els: Some(bx(e)) }).boxed()));
        // (d) simple CASE over literals (lookup table) and (e) over general WHEN values
        for k in [Ty::I32, Ty::I64, Ty::U8, Ty::Utf8, Ty::Utf8View, Ty::Bool, Ty::Date32, Ty::Dec, Ty::F64, Ty::I8] {
            let base: S = prop_oneof![4 => self.col(k), 1 => self.expr(k, sub)].boxed();
            alts.push((
                1,
                (base.clone(), prop::collection::vec((self.lit(k), self.lit(ty)), 1..=5), prop::option::weighted(0.6, self.lit(ty)))
                    .prop_map(|(b, whens, els)| E::Case { base: Some(bx(b)), whens, els: els.map(bx) })
                    .boxed(),
            ));
        }
        for k in [Ty::I32, Ty::Utf8, Ty::I64] {
            alts.push((
                1,
                (self.col(k), prop::collection::vec((self.expr(k, sub), val.clone()), 1..=3), prop::option::weighted(0.6, val.clone()))
                    .prop_map(|(b, whens, els)| E::Case { base: Some(bx(b)), whens, els: els.map(bx) })
                    .boxed(),
            ));
        }
        Union::new_weighted(alts).boxed()
    }

    fn casts_to(&self, ty: Ty, d: u32) -> Vec<(u32, S)> {
        let sub = d.saturating_sub(1);
        let mut alts = vec![];
        for src in ALL_TYS {
            if cast_supported(src, ty) {
                let inner: S = prop_oneof![3 => self.leaf(src), 1 => self.expr(src, sub)].boxed();
                alts.push((1, (inner, prop::bool::weighted(0.3)).prop_map(move |(e, try_)| E::Cast { try_, e: bx(e), to: ty }).boxed()));
            }
        }
        alts
    }

    /// expression of type `ty` with nesting depth at most `d`
    pub fn expr(&self, ty: Ty, d: u32) -> S {
        self.expr_opt(ty, d, true)
    }

    /// `with_leaf = false`: never a bare column / literal (used for roots)
    pub fn expr_opt(&self, ty: Ty, d: u32, with_leaf: bool) -> S {
        if d == 0 {
            return self.leaf(ty);
        }
        if let Some(s) = self.memo.borrow().get(&(ty, d, with_leaf)) {
            return s.clone();
        }
        let sub = d - 1;
        let mut alts: Vec<(u32, S)> = vec![];
        if with_leaf {
            alts.push((if ty == Ty::Bool { 20 } else { 8 }, self.leaf(ty)));
        }
        let same = self.expr(ty, sub);
        alts.push((4, self.case_of(ty, d)));
        let casts = self.casts_to(ty, d);
        let ncasts = casts.len().max(1) as u32;
        for (_, c) in casts {
            alts.push(((6 / ncasts).max(1), c));
        }
        match ty {
            Ty::Bool => {
                let b = self.expr(Ty::Bool, sub);
                alts.push((36, (b.clone(), b.clone(), any::<bool>()).prop_map(|(l, r, and)| E::bin(if and { Op::And } else { Op::Or }, l, r)).boxed()));
                alts.push((6, b.clone().prop_map(|e| E::Not(bx(e))).boxed()));
                alts.push((
                    6,
                    (b.clone(), prop::sample::select(vec![IsKind::True, IsKind::NotTrue, IsKind::False, IsKind::NotFalse, IsKind::Unknown, IsKind::NotUnknown, IsKind::Null, IsKind::NotNull]))
                        .prop_map(|(e, k)| E::Is(k, bx(e)))
                        .boxed(),
                ));
                for t in ALL_TYS {
                    let x = self.expr(t, sub);
                    // comparisons
                    alts.push((2, (x.clone(), x.clone(), cmp_op()).prop_map(|(l, r, op)| E::bin(op, l, r)).boxed()));
                    // expression against a literal (what cast-unwrapping and friends look for)
                    alts.push((1, (x.clone(), self.lit_nonnull(t), cmp_op(), any::<bool>()).prop_map(|(l, r, op, flip)| if flip { E::bin(op, r, l) } else { E::bin(op, l, r) }).boxed()));
                    alts.push((1, (x.clone(), x.clone(), any::<bool>()).prop_map(|(l, r, n)| E::bin(if n { Op::Distinct } else { Op::NotDistinct }, l, r)).boxed()));
                    alts.push((1, (x.clone(), any::<bool>()).prop_map(|(e, n)| E::Is(if n { IsKind::Null } else { IsKind::NotNull }, bx(e))).boxed()));
                    if t != Ty::Bool {
                        alts.push((1, (x.clone(), self.leaf(t), self.leaf(t), any::<bool>()).prop_map(|(e, lo, hi, neg)| E::Between { neg, e: bx(e), lo: bx(lo), hi: bx(hi) }).boxed()));
                    }
                    alts.push((2, self.in_list(t, d)));
                }
                for t in [Ty::Utf8, Ty::Utf8View] {
                    let subj: S = prop_oneof![4 => self.leaf(t), 1 => self.expr(t, sub)].boxed();
                    let like_pat: S = prop_oneof![6 => like_pattern().prop_map(move |p| E::Lit(t, V::S(p))), 1 => self.col(t), 1 => Just(E::null(t))].boxed();
                    alts.push((7, (subj.clone(), like_pat, any::<bool>(), any::<bool>()).prop_map(|(e, pat, neg, ci)| E::Like { neg, ci, e: bx(e), pat: bx(pat) }).boxed()));
                    let sim_pat: S = prop_oneof![6 => similar_pattern().prop_map(move |p| E::Lit(t, V::S(p))), 1 => self.col(t), 1 => Just(E::null(t))].boxed();
                    alts.push((5, (subj, sim_pat, any::<bool>(), prop::bool::weighted(0.25)).prop_map(|(e, pat, neg, ci)| E::Similar { neg, ci, e: bx(e), pat: bx(pat) }).boxed()));
                }
                if self.cfg.funcs {
                    let s = self.expr(Ty::Utf8, sub);
                    alts.push((2, (s.clone(), self.lit_nonnull(Ty::Utf8)).prop_map(|(a, b)| E::Func(Fun::StartsWith, vec![a, b])).boxed()));
                    let re = prop::sample::select(vec!["^a", "a$", "^abc$", "a.c", "^(a|b)", "b", "", "^$", ".*", "^a.*c$", "[ab]", "^[0-9]+$", "A"]).prop_map(|p| E::Lit(Ty::Utf8, V::S(p.to_string())));
                    alts.push((2, (s.clone(), re.clone()).prop_map(|(a, b)| E::Func(Fun::RegexpLike, vec![a, b])).boxed()));
                    alts.push((3, (s, re, prop::sample::select(vec![Op::RMatch, Op::RIMatch, Op::RNotMatch, Op::RNotIMatch])).prop_map(|(a, b, op)| E::bin(op, a, b)).boxed()));
                    // comparisons of date_part / floor with literals (preimage rewrites)
                    let d32 = self.expr(Ty::Date32, sub);
                    let years = prop::sample::select(vec![1970i128, 2000, 2019, 2020, 2021, 1, 9999, 2022]).prop_map(|y| E::Lit(Ty::I32, V::I(y)));
                    alts.push((3, (d32.clone(), years, cmp_op(), any::<bool>()).prop_map(|(d, y, op, m)| E::bin(op, E::Func(if m { Fun::DatePartMonth } else { Fun::DatePartYear }, vec![d]), y)).boxed()));
                    let f = self.expr(Ty::F64, sub);
                    alts.push((2, (f, self.lit_nonnull(Ty::F64), cmp_op()).prop_map(|(x, l, op)| E::bin(op, E::Func(Fun::Floor, vec![x]), l)).boxed()));
                }
            }
            t if t.is_int() || t.is_float() => {
                alts.push((4, (same.clone(), same.clone(), prop::sample::select(vec![Op::Add, Op::Sub, Op::Mul])).prop_map(|(l, r, op)| E::bin(op, l, r)).boxed()));
                let divop = prop::sample::select(vec![Op::Div, Op::Mod]);
                alts.push((3, (same.clone(), self.nonzero_lit(t), divop.clone()).prop_map(|(l, r, op)| E::bin(op, l, r)).boxed()));
                alts.push((1, (same.clone(), same.clone(), divop.clone()).prop_map(|(l, r, op)| E::bin(op, l, r)).boxed()));
                // guarded division: CASE WHEN den <> 0 THEN num / den [ELSE x] END
                alts.push((
                    2,
                    (same.clone(), self.leaf(t), divop, prop::option::weighted(0.5, self.leaf(t)))
                        .prop_map(move |(num, den, op, els)| E::Case { base: None, whens: vec![(E::bin(Op::Ne, den.clone(), G::zero_lit(t)), E::bin(op, num, den))], els: els.map(bx) })
                        .boxed(),
                ));
                if t.is_signed_int() || t.is_float() {
                    alts.push((1, same.clone().prop_map(|e| E::Neg(bx(e))).boxed()));
                }
                if t == Ty::I64 {
                    let dt = self.expr(Ty::Date32, sub);
                    alts.push((1, (dt.clone(), dt).prop_map(|(l, r)| E::bin(Op::Sub, l, r)).boxed()));
                }
                if self.cfg.funcs {
                    if t.is_signed_int() || t.is_float() {
                        alts.push((1, same.clone().prop_map(|e| E::Func(Fun::Abs, vec![e])).boxed()));
                    }
                    if t == Ty::F64 || t == Ty::I64 {
                        let small = prop::sample::select(vec![0i128, 1, 2, 3]).prop_map(move |i| E::Lit(t, if t == Ty::F64 { V::F(i as f64) } else { V::I(i) }));
                        alts.push((2, (same.clone(), small).prop_map(|(b, x)| E::Func(Fun::Power, vec![b, x])).boxed()));
                    }
                    if t == Ty::F64 {
                        let base = prop::sample::select(vec![2.0f64, 10.0, 4.0]).prop_map(|b| E::Lit(Ty::F64, V::F(b)));
                        alts.push((1, (base.clone(), same.clone()).prop_map(|(b, x)| E::Func(Fun::Log, vec![b, x])).boxed()));
                        alts.push((1, (base, same.clone()).prop_map(|(b, x)| E::Func(Fun::Power, vec![b.clone(), E::Func(Fun::Log, vec![b, x])])).boxed()));
                        alts.push((1, same.clone().prop_map(|e| E::Func(Fun::Floor, vec![e])).boxed()));
                    }
                    if t == Ty::I32 {
                        let d32 = self.expr(Ty::Date32, sub);
                        alts.push((2, (d32, any::<bool>()).prop_map(|(d, m)| E::Func(if m { Fun::DatePartMonth } else { Fun::DatePartYear }, vec![d])).boxed()));
                    }
                }
            }
            Ty::Dec => {
                alts.push((1, same.clone().prop_map(|e| E::Neg(bx(e))).boxed()));
            }
            Ty::Utf8 if self.cfg.funcs => {
                alts.push((2, prop::collection::vec(same.clone(), 1..=3).prop_map(|a| E::Func(Fun::Concat, a)).boxed()));
                alts.push((1, (same.clone(), any::<bool>()).prop_map(|(e, u)| E::Func(if u { Fun::Upper } else { Fun::Lower }, vec![e])).boxed()));
                let pos = prop::sample::select(vec![-1i128, 0, 1, 2, 3]).prop_map(|i| E::Lit(Ty::I64, V::I(i)));
                alts.push((1, (same.clone(), pos.clone(), prop::option::of(pos)).prop_map(|(s, a, b)| E::Func(Fun::Substr, std::iter::once(s).chain(std::iter::once(a)).chain(b).collect())).boxed()));
            }
            _ => {}
        }
        if self.cfg.funcs {
            alts.push((1, prop::collection::vec(same.clone(), 1..=3).prop_map(|a| E::Func(Fun::Coalesce, a)).boxed()));
            // nvl's signature lists booleans, integers, floats and strings only
            let nvl_ok = !matches!(ty, Ty::Date32 | Ty::Dec);
            alts.push((1, (same.clone(), same.clone(), any::<bool>()).prop_map(move |(a, b, n)| E::Func(if n || !nvl_ok { Fun::NullIf } else { Fun::Nvl }, vec![a, b])).boxed()));
        }
        let s: S = Union::new_weighted(alts).boxed();
        self.memo.borrow_mut().insert((ty, d, with_leaf), s.clone());
        s
    }

    /// Shapes the algebraic rewrite rules look for (repeated sub-terms, literal neighbourhoods, IN-list algebra,
    /// negations, boolean CASE): random trees almost never repeat a sub-term, so these are built from templates.
    pub fn templates(&self) -> S {
        let d = self.cfg.max_depth.saturating_sub(2).max(1);
        let b = self.expr(Ty::Bool, d);
        let and = |l: E, r: E| E::bin(Op::And, l, r);
        let or = |l: E, r: E| E::bin(Op::Or, l, r);
        let not = |x: E| E::Not(bx(x));
        let mut alts: Vec<(u32, S)> = vec![];
        // boolean algebra with shared sub-terms
        alts.push((
            6,
            (b.clone(), b.clone(), b.clone(), b.clone(), 0u8..14)
                .prop_map(move |(a, bb, c, dd, k)| match k {
                    0 => or(a.clone(), and(a, bb)),
                    1 => or(and(a.clone(), bb), a),
                    2 => and(a.clone(), or(a, bb)),
                    3 => and(or(a.clone(), bb), a),
                    4 => or(and(a.clone(), bb), and(a, c)),
                    5 => or(and(and(a.clone(), bb), dd), and(c, a)),
                    6 => and(a.clone(), not(a)),
                    7 => or(not(a.clone()), a),
                    8 => and(a.clone(), a),
                    9 => or(or(a.clone(), bb), a),
                    10 => and(and(bb, a.clone()), a),
                    11 => not(not(a)),
                    12 => not(and(a, or(bb, c))),
                    _ => E::bin(Op::Eq, a.clone(), a),
                })
                .boxed(),
        ));
        // comparisons of a boolean with boolean literals
        alts.push((
            2,
            (b.clone(), prop::sample::select(vec![V::B(true), V::B(false), V::Null]), prop::sample::select(vec![Op::Eq, Op::Ne, Op::Distinct, Op::NotDistinct]), any::<bool>())
                .prop_map(|(a, l, op, flip)| if flip { E::bin(op, E::Lit(Ty::Bool, l), a) } else { E::bin(op, a, E::Lit(Ty::Bool, l)) })
                .boxed(),
        ));
        for t in ALL_TYS {
            if t == Ty::Bool {
                continue;
            }
            let x: S = prop_oneof![5 => self.col(t), 1 => self.expr(t, 1)].boxed();
            let l = self.lit_nonnull(t);
            let lits = prop::collection::vec(prop_oneof![10 => self.lit_nonnull(t), 1 => Just(E::null(t))], 1..5);
            // x = x, x <> x, x = l1 OR x = l2 OR x = l3, x = l1 AND x <> l2, x >= l AND x <= l, range conjunctions
            alts.push((
                2,
                (x.clone(), l.clone(), l.clone(), l.clone(), 0u8..8)
                    .prop_map(move |(x, l1, l2, l3, k)| match k {
                        0 => E::bin(Op::Eq, x.clone(), x),
                        1 => E::bin(Op::Ne, x.clone(), x),
                        2 => or(or(E::bin(Op::Eq, x.clone(), l1), E::bin(Op::Eq, x.clone(), l2)), E::bin(Op::Eq, l3, x)),
                        3 => and(E::bin(Op::Eq, x.clone(), l1), E::bin(Op::Ne, x, l2)),
                        4 => and(E::bin(Op::Ne, x.clone(), l2), E::bin(Op::Eq, x, l1)),
                        5 => and(E::bin(Op::Ge, x.clone(), l1.clone()), E::bin(Op::Le, x, l1)),
                        6 => and(E::bin(Op::Ge, x.clone(), l1.clone()), E::bin(Op::Ge, l1, x)),
                        _ => or(E::bin(Op::Eq, x.clone(), l1), E::InList { neg: false, e: bx(x), list: vec![l2, l3] }),
                    })
                    .boxed(),
            ));
            // conjunctions of range predicates on one column (simplify_predicates)
            let cmp = prop::sample::select(vec![Op::Lt, Op::Le, Op::Gt, Op::Ge, Op::Eq]);
            let pred = (self.col(t), l.clone(), cmp, any::<bool>()).prop_map(|(c, l, op, flip)| if flip { E::bin(op, l, c) } else { E::bin(op, c, l) });
            alts.push((2, prop::collection::vec(pred, 2..5).prop_map(|v| v.into_iter().reduce(|a, b| E::bin(Op::And, a, b)).unwrap()).boxed()));
            // IN-list algebra
            alts.push((
                2,
                (x.clone(), lits.clone(), lits.clone(), any::<bool>(), any::<bool>(), any::<bool>())
                    .prop_map(move |(x, l1, l2, n1, n2, use_or)| {
                        let a = E::InList { neg: n1, e: bx(x.clone()), list: l1 };
                        let b = E::InList { neg: n2, e: bx(x), list: l2 };
                        if use_or { or(a, b) } else { and(a, b) }
                    })
                    .boxed(),
            ));
            // negations pushed through comparisons / BETWEEN / IN
            alts.push((
                1,
                (x.clone(), l.clone(), l.clone(), cmp_op(), 0u8..4)
                    .prop_map(move |(x, l1, l2, op, k)| match k {
                        0 => not(E::bin(op, x, l1)),
                        1 => not(E::Between { neg: false, e: bx(x), lo: bx(l1), hi: bx(l2) }),
                        2 => not(E::InList { neg: true, e: bx(x), list: vec![l1, l2] }),
                        _ => not(E::bin(Op::Distinct, x, l1)),
                    })
                    .boxed(),
            ));
            if t.is_int() || t.is_float() {
                let one = E::Lit(t, if t.is_float() { V::F(1.0) } else { V::I(1) });
                let zero = G::zero_lit(t);
                alts.push((
                    1,
                    (x.clone(), l.clone(), cmp_op(), 0u8..7)
                        .prop_map(move |(x, l1, op, k)| {
                            let lhs = match k {
                                0 => E::bin(Op::Mul, x, one.clone()),
                                1 => E::bin(Op::Mul, one.clone(), x),
                                2 => E::bin(Op::Mul, x, zero.clone()),
                                3 => E::bin(Op::Mul, zero.clone(), x),
                                4 => E::bin(Op::Div, x, one.clone()),
                                5 => E::bin(Op::Mod, x, one.clone()),
                                _ => E::bin(Op::Add, x, zero.clone()),
                            };
                            E::bin(op, lhs, l1)
                        })
                        .boxed(),
                ));
            }
            if t.is_signed_int() || t.is_float() {
                alts.push((1, (x.clone(), x.clone(), any::<bool>()).prop_map(|(a, b, sub)| E::Neg(bx(E::bin(if sub { Op::Sub } else { Op::Add }, a, E::Neg(bx(b)))))).boxed()));
            }
            // CASE over literals compared with a literal; boolean CASE
            alts.push((
                1,
                (b.clone(), b.clone(), l.clone(), l.clone(), prop::option::of(l.clone()), any::<bool>())
                    .prop_map(move |(c1, c2, l1, l2, els, ne)| {
                        let case = E::Case { base: None, whens: vec![(c1, l1.clone()), (c2, l2)], els: els.map(bx) };
                        E::bin(if ne { Op::Ne } else { Op::Eq }, case, l1)
                    })
                    .boxed(),
            ));
        }
        // nullability-sensitive wrappers (IS [NOT] NULL, A = A, A IS [NOT] DISTINCT FROM A, A OR NOT A, A * 0, …) around a
        // CASE whose branches are fallible-to-NULL (TRY_CAST that can fail, NULLIF, guarded division without ELSE) and whose
        // other branches are non-NULL literals: the rewrites gated on `!nullable(..)` depend on the nullability analysis
        for t in ALL_TYS {
            let mut to_null: Vec<(u32, S)> = vec![];
            for src in ALL_TYS {
                if src != t && cast_supported(src, t) {
                    let inner: S = prop_oneof![4 => self.col(src), 1 => self.expr(src, 1)].boxed();
                    to_null.push((2, (inner, 0u8..4).prop_map(move |(x, wrap)| {
                        let c = E::Cast { try_: true, e: bx(x), to: t };
                        match wrap {
                            1 if t.is_signed_int() || t.is_float() || t == Ty::Dec => E::Neg(bx(c)),
                            2 if t == Ty::Bool => E::Not(bx(c)),
                            _ => c,
                        }
                    }).boxed()));
                }
            }
            if self.cfg.funcs {
                to_null.push((3, (self.col(t), self.lit_nonnull(t)).prop_map(|(c, l)| E::Func(Fun::NullIf, vec![c, l])).boxed()));
            }
            if t.is_int() {
                to_null.push((2, (self.leaf(t), self.col(t)).prop_map(move |(n, d)| E::Case { base: None, whens: vec![(E::bin(Op::Ne, d.clone(), G::zero_lit(t)), E::bin(Op::Div, n, d))], els: None }).boxed()));
            }
            let to_null: S = Union::new_weighted(to_null).boxed();
            // guard: mostly a null-rejecting predicate on a column the branch mentions, sometimes anything
            let branch_and_guard = (to_null, b.clone(), self.lit_nonnull(Ty::Bool), 0u8..5, cmp_op()).prop_flat_map(move |(br, anyb, _, k, op)| {
                let col = br.columns().first().copied();
                let g: BoxedStrategy<E> = match (col, k) {
                    (Some(c), 0) => Just(E::Is(IsKind::NotNull, bx(E::Col(c)))).boxed(),
                    (Some(c), 1) | (Some(c), 2) => value(col_ty(c), 0).prop_map(move |v| E::bin(op, E::Col(c), E::Lit(col_ty(c), v))).boxed(),
                    (Some(c), 3) => prop::collection::vec(value(col_ty(c), 0), 1..4).prop_map(move |vs| E::InList { neg: false, e: bx(E::Col(c)), list: vs.into_iter().map(|v| E::Lit(col_ty(c), v)).collect() }).boxed(),
                    _ => Just(anyb.clone()).boxed(),
                };
                (Just(br), g)
            });
            let case_of = (branch_and_guard, prop::option::weighted(0.8, self.lit_nonnull(t)), prop::option::weighted(0.3, (b.clone(), self.lit_nonnull(t))))
                .prop_map(|((br, g), els, extra)| {
                    let mut whens = vec![(g, br)];
                    if let Some((c2, l2)) = extra {
                        whens.push((c2, l2));
                    }
                    E::Case { base: None, whens, els: els.map(bx) }
                });
            let zero = if t.is_int() || t.is_float() { Some(G::zero_lit(t)) } else { None };
            alts.push((
                2,
                (case_of, 0u8..9, self.lit_nonnull(t))
                    .prop_map(move |(a, k, l)| match k {
                        0 | 1 => E::Is(IsKind::Null, bx(a)),
                        2 | 3 => E::Is(IsKind::NotNull, bx(a)),
                        4 => E::bin(Op::Eq, a.clone(), a),
                        5 => E::bin(Op::NotDistinct, a.clone(), a),
                        6 => E::bin(Op::Distinct, a, l),
                        7 => match (&zero, t == Ty::Bool) {
                            (Some(z), _) => E::Is(IsKind::Null, bx(E::bin(Op::Mul, a, z.clone()))),
                            (None, true) => E::bin(Op::Or, a.clone(), E::Not(bx(a))),
                            _ => E::Is(IsKind::NotNull, bx(a)),
                        },
                        _ => {
                            if t == Ty::Bool { E::bin(Op::And, a.clone(), E::Not(bx(a))) } else { E::Is(IsKind::Null, bx(E::Case { base: None, whens: vec![(E::Is(IsKind::NotNull, bx(a.clone())), a)], els: Some(bx(l)) })) }
                        }
                    })
                    .boxed(),
            ));
        }
        let bl = prop::sample::select(vec![V::B(true), V::B(false), V::Null]).prop_map(|v| E::Lit(Ty::Bool, v));
        alts.push((
            4,
            (prop::collection::vec((b.clone(), prop_oneof![3 => bl.clone(), 1 => b.clone()]), 1..4), prop::option::of(prop_oneof![3 => bl, 1 => b.clone()]))
                .prop_map(|(whens, els)| E::Case { base: None, whens, els: els.map(bx) })
                .boxed(),
        ));
        Union::new_weighted(alts).boxed()
    }

    /// a non-leaf root: boolean half of the time
    pub fn root(&self) -> S {
        let d = self.cfg.max_depth;
        let mut alts: Vec<(u32, S)> = vec![(12, self.expr_opt(Ty::Bool, d, false))];
        if self.cfg.funcs {
            alts.push((12, self.templates()));
        }
        for t in ALL_TYS {
            if t != Ty::Bool {
                alts.push((1, self.expr_opt(t, d, false)));
            }
        }
        Union::new_weighted(alts).boxed()
    }
}
