mod c09;

fn main() {
    vf_kit::dispatch! {
        "c09" => c09::C09,
    }
}
