//! C09 — window functions match their frame definitions under every executor (operator level).
//!
//! **What runs.** Every case is a small table (rows carry a unique `id`), 0–2 PARTITION BY columns,
//! 0–3 ORDER BY keys and 1–3 window expressions (function + frame) that share the window spec.
//! The window expressions are built with `datafusion_physical_plan::windows::create_window_expr`
//! and executed through *every applicable* executor over a `TestMemoryExec` that is pre-sorted (and
//! declares exactly that ordering) the way the executor requires:
//!   * `WindowAggExec` (whole partition, always),
//!   * `BoundedWindowAggExec` in `Sorted`, `Linear` (≥ 1 partition column; two input layouts:
//!     `[order keys]` and `[o_1, partition cols, o_2..]`) and `PartiallySorted([i])` (2 partition
//!     columns) modes — only when every expression reports `uses_bounded_memory()`, which is the
//!     condition under which the planner / `get_best_fitting_window` build that operator,
//!   * the *reversed* expressions (`WindowExpr::get_reverse_expr`, what `get_best_fitting_window`
//!     substitutes when the input is ordered the other way round) over reverse-sorted input, through
//!     `WindowAggExec` and, when bounded, `BoundedWindowAggExec(Sorted)`.
//! Input batch sizes {1,2,3,5,7,8192}, optionally with empty batches interleaved.
//!
//! **Oracle.** `oracle()` below: rows are grouped by partition key (NULL = NULL), sorted by the
//! ORDER BY keys, and for every row the frame is computed *from the definition* (ROWS: positions;
//! GROUPS: peer-group arithmetic; RANGE: peers for CURRENT ROW, value ± offset for offsets with
//! the NULL-peer-group rule pinned in DESIGN Appendix A) by naive scans, then the function is
//! applied to the frame's rows. Results are matched by `id`; the pass-through columns of each
//! output row must equal the input row; every id must appear exactly once.
//!
//! **Determinism guards (soundness).** Only combinations whose result is a function of the
//! window definition are generated: row_number / ntile / lag / lead / first|last|nth_value and
//! aggregates over ROWS frames (other than UNBOUNDED..UNBOUNDED) force a total ORDER BY (`id`
//! appended, or `ORDER BY id` alone when a RANGE offset needs a single numeric key);
//! RANGE offsets only with exactly one numeric key (Int64 `o1`, Float64 `o2` or `id`); GROUPS needs
//! ≥ 1 key. `normalise()` enforces this *by construction*; `validate()` re-checks replayed cases.
//! The oracle is evaluated twice with opposite tie orders and the run aborts (harness error)
//! if the answers differ, so an unsound "determined" claim cannot turn into a false alarm.
//! Values: Int64 / Utf8 / dyadic Float64 (multiples of 1/4, |x| ≤ 5) so sums and averages are exact
//! in any order and under retraction; float results compare with `==` (so 0.0 == -0.0).
//! Construction errors are discards (histogrammed); execution errors on a successfully constructed
//! operator are violations (the property demands a value per row), `NotImplemented` a discard.
//!
//! **Deviations from DESIGN.md.** (1) vf-win has no `datafusion` (SessionContext) dependency, so the
//! SQL-level part (`enable_window_limits`, `enable_window_topn`, `WHERE rn <= k`) is not covered
//! here; it belongs to the SQL-level properties. (2) The oracle lives in this module, not in
//! `vf-kit::refsql`. (3) Added beyond the plan: reversed expressions, `IGNORE NULLS` for
//! lag/lead/first/last/nth_value, negative lag/lead offsets and negative nth_value indices, several
//! expressions per operator (exercises the "slowest expression" / shared pruning logic), declared
//! partition orderings that are a permutation of PARTITION BY, empty input batches, aggregate `FILTER (WHERE b)`,
//! an unsigned (`UInt64`) `id` key (unsigned RANGE arithmetic).
//!
//! **Genuine defects found** (all reproduced outside the harness with datafusion-cli / hand-made cases;
//! recorded in /verif/known_findings.json, minimal cases under /verif/regressions/C09/c09/, candidate
//! repairs under /verif/fixes/C09-*.diff; `known_signature` keeps the campaign running behind them and
//! `VF_C09_NO_EXCLUDE=1` switches the exclusions off to verify a repair):
//!  1. `lead-ignore-nulls-streaming`: `lead(x, k) IGNORE NULLS` (also `lag` once reversed) in
//!     BoundedWindowAggExec loses results once a NULL enters the look-ahead
//!     (`WindowShiftEvaluator::evaluate` never moves its horizon past a NULL at `range.end`).
//!     SQL: `lead(v,2) IGNORE NULLS OVER (ORDER BY id)` over v = 1,2,3,4,5,NULL,7 → NULL at id 4 (should be 7).
//!  2. `range-causal-end-on-null-key`: RANGE frames ending `k PRECEDING` (k>0) are flagged causal, but on a
//!     NULL key the frame ends at the end of the NULL peer group → BoundedWindowAggExec results depend on
//!     batch boundaries (avg over 3 NULL-key rows: 1,1.5,2.33 with batch_size=1; 2.33 ×3 with 8192).
//!  3. `range-following-unsigned-desc-linear`: Linear mode `is_end_bound_safe_for_range` uses wrapping
//!     `current - delta`; on an unsigned key smaller than the offset the bound is declared safe and the
//!     aggregate is emitted before the rest of the frame arrives.
//!
//! **Sensitivity probes** (patches kept in `crates/vf-win/probes/`; `mutrun <patch> -- ./check C09 quick`, seed 0):
//!  * P1 GROUPS end bound off by one (`expr/src/window_state.rs`: `current_group_idx >= delta` → `>`): VIOLATION.
//!  * P2 bounded executor prunes one buffered row too many (`bounded_window_agg_exec.rs`:
//!    `min(window_frame_range.start + 1, last_calculated_index)`): VIOLATION (arithmetic-underflow panic in
//!    `WindowAggState::prune_state`, reported as a panic in the code under test after 6 cases).
//!  * P3 ntile remainder distribution (`ntile.rs`: the old `i * n / num_rows` formula): VIOLATION (5th case).
//!  * P4 sliding aggregate does not retract when a RANGE frame becomes empty between two non-empty frames
//!    (`sliding_aggregate.rs`, empty-frame retraction disabled): VIOLATION.
//!  * P5 Linear mode "end bound is safe" test off by one (`window_expr.rs`: `most_recent_row_value > value`
//!    → `>=`): VIOLATION (Bounded/Linear only, after 401 cases).
//!  * P6 RANGE offsets ignore DESC (`window_state.rs`: `SEARCH_SIDE == is_descending` → `SEARCH_SIDE`): VIOLATION.
//!  * P7c first_value memoisation also finalises the result of an empty frame (`nth_value.rs`:
//!    `(n_range > 0 && size > 0, false)` → `(size > 0, false)`): VIOLATION (through the reversed last_value path).
//!  * P7 `nth_value` memoise `size > n` → `size >= n` and P7b negative-index buffer `reverse_index` →
//!    `reverse_index - 1`: both stayed green; both are equivalent mutants (the last evaluated frame already holds
//!    >= n rows, and the retained buffer is one row larger than needed), so no generator change was made.
//!  Candidate repairs: `mutrun (all three fixes) -- env VF_C09_NO_EXCLUDE=1 ./check C09 quick` exits 0
//!  (20 000 cases, exclusions off, the three regression cases pass).
use std::cmp::Ordering;
use std::collections::BTreeMap;
use std::sync::Arc;
use std::time::Duration;

use arrow::array::{Array, ArrayRef, BooleanArray, Float64Array, Int64Array, RecordBatch, StringArray, UInt64Array};
use arrow::compute::SortOptions;
use arrow::datatypes::{DataType, Field, Schema, SchemaRef};
use datafusion_common::{DataFusionError, ScalarValue};
use datafusion_execution::TaskContext;
use datafusion_execution::config::SessionConfig;
use datafusion_expr::{WindowFrame, WindowFrameBound, WindowFrameUnits, WindowFunctionDefinition};
use datafusion_physical_expr::expressions::{Column, Literal};
use datafusion_physical_expr::{LexOrdering, PhysicalExpr, PhysicalSortExpr};
use datafusion_physical_plan::test::TestMemoryExec;
use datafusion_physical_plan::windows::{BoundedWindowAggExec, WindowAggExec, create_window_expr};
use datafusion_physical_plan::{ExecutionPlan, InputOrderMode, WindowExpr};
use proptest::prelude::*;
use serde::{Deserialize, Serialize};
use vf_kit::engine::*;

pub struct C09;

// ---------------------------------------------------------------------------------------------
// case data

#[derive(Clone, Debug, Serialize, Deserialize)]
pub struct Row {
    /// gap to the previous id (ids are strictly increasing in generation order, with holes)
    pub gap: u8,
    pub p1: Option<i8>,
    pub p2: Option<u8>,
    pub o1: Option<i8>,
    /// half units: o2 = h * 0.5
    pub o2: Option<i8>,
    pub v: Option<i8>,
    /// quarter units: f = q * 0.25
    pub f: Option<i8>,
    pub s: Option<u8>,
    /// boolean column used by `FILTER (WHERE b)`
    #[serde(default)]
    pub b: Option<bool>,
    /// physical tie-break among rows that compare equal on the sort keys
    pub tb: u16,
}

#[derive(Clone, Copy, Debug, PartialEq, Eq, Serialize, Deserialize)]
pub enum OCol {
    O1,
    O2,
    Id,
}

#[derive(Clone, Debug, Serialize, Deserialize)]
pub struct OrdKey {
    pub col: OCol,
    pub desc: bool,
    pub nulls_first: bool,
}

#[derive(Clone, Copy, Debug, PartialEq, Eq, Serialize, Deserialize)]
pub enum Arg {
    V,
    F,
    S,
}

#[derive(Clone, Debug, Serialize, Deserialize)]
pub enum Func {
    RowNumber,
    Rank,
    DenseRank,
    PercentRank,
    CumeDist,
    Ntile { n: u8 },
    Lag { arg: Arg, offset: Option<i8>, default: Option<i8> },
    Lead { arg: Arg, offset: Option<i8>, default: Option<i8> },
    FirstValue { arg: Arg },
    LastValue { arg: Arg },
    NthValue { arg: Arg, n: i8 },
    Sum { arg: Arg },
    Count { arg: Arg },
    Avg,
    Min { arg: Arg },
    Max { arg: Arg },
}

#[derive(Clone, Copy, Debug, PartialEq, Eq, Serialize, Deserialize)]
pub enum Units {
    Rows,
    Range,
    Groups,
}

#[derive(Clone, Copy, Debug, PartialEq, Eq, Serialize, Deserialize)]
pub enum Bound {
    UnboundedPreceding,
    Preceding(u8),
    CurrentRow,
    Following(u8),
    UnboundedFollowing,
}

#[derive(Clone, Debug, Serialize, Deserialize)]
pub enum Frame {
    /// what the SQL planner supplies when no frame is written
    Default,
    Explicit { units: Units, start: Bound, end: Bound },
}

#[derive(Clone, Debug, Serialize, Deserialize)]
pub struct ExprSpec {
    pub func: Func,
    pub frame: Frame,
    pub ignore_nulls: bool,
    /// aggregate FILTER (WHERE b)
    #[serde(default)]
    pub filter: bool,
}

#[derive(Clone, Debug, Serialize, Deserialize)]
pub struct Case {
    pub rows: Vec<Row>,
    /// number of PARTITION BY columns (0..=2)
    pub nparts: u8,
    /// PARTITION BY p2, p1 instead of p1, p2
    pub part_swap: bool,
    /// (descending, nulls_first) of the *input ordering* of the two partition columns
    pub part_opts: [(bool, bool); 2],
    /// the input is sorted by the partition columns in the reverse of their PARTITION BY order
    pub part_perm: bool,
    pub order: Vec<OrdKey>,
    pub exprs: Vec<ExprSpec>,
    pub batch: u16,
    pub empty_batches: bool,
    /// which partition column is the sorted one in PartiallySorted mode
    pub partial_idx: u8,
}

// ---------------------------------------------------------------------------------------------
// generator

fn bound_key(b: Bound) -> (i32, i32) {
    match b {
        Bound::UnboundedPreceding => (i32::MIN, 0),
        Bound::Preceding(k) => (-(k as i32), 0),
        Bound::CurrentRow => (0, 1),
        Bound::Following(k) => (k as i32, 2),
        Bound::UnboundedFollowing => (i32::MAX, 0),
    }
}

/// mirror of `datafusion::physical_planner::is_window_frame_bound_valid` plus the two syntactic rules
fn frame_bounds_legal(start: Bound, end: Bound) -> bool {
    start != Bound::UnboundedFollowing && end != Bound::UnboundedPreceding && bound_key(start) <= bound_key(end)
}

fn bound_strategy(maxk: u8) -> BoxedStrategy<Bound> {
    prop_oneof![
        2 => Just(Bound::UnboundedPreceding),
        3 => (0u8..maxk).prop_map(Bound::Preceding),
        3 => Just(Bound::CurrentRow),
        3 => (0u8..maxk).prop_map(Bound::Following),
        2 => Just(Bound::UnboundedFollowing),
    ]
    .boxed()
}

fn frame_strategy(maxk: u8) -> BoxedStrategy<Frame> {
    let explicit = (prop_oneof![Just(Units::Rows), Just(Units::Range), Just(Units::Groups)], bound_strategy(maxk), bound_strategy(maxk)).prop_map(
        |(units, a, b)| {
            let (mut start, mut end) = if bound_key(a) <= bound_key(b) { (a, b) } else { (b, a) };
            if start == Bound::UnboundedFollowing {
                start = Bound::CurrentRow;
            }
            if end == Bound::UnboundedPreceding {
                end = Bound::CurrentRow;
            }
            Frame::Explicit { units, start, end }
        },
    );
    prop_oneof![1 => Just(Frame::Default), 7 => explicit].boxed()
}

fn arg_any() -> BoxedStrategy<Arg> {
    prop_oneof![3 => Just(Arg::V), 2 => Just(Arg::F), 1 => Just(Arg::S)].boxed()
}

fn arg_num() -> BoxedStrategy<Arg> {
    prop_oneof![Just(Arg::V), Just(Arg::F)].boxed()
}

/// functions whose value never depends on the order of peers
fn func_peer_safe() -> BoxedStrategy<Func> {
    prop_oneof![
        1 => Just(Func::Rank),
        1 => Just(Func::DenseRank),
        1 => Just(Func::PercentRank),
        1 => Just(Func::CumeDist),
        2 => arg_num().prop_map(|arg| Func::Sum { arg }),
        2 => arg_any().prop_map(|arg| Func::Count { arg }),
        2 => Just(Func::Avg),
        2 => arg_any().prop_map(|arg| Func::Min { arg }),
        2 => arg_any().prop_map(|arg| Func::Max { arg }),
    ]
    .boxed()
}

fn func_any() -> BoxedStrategy<Func> {
    let off = prop::option::weighted(0.8, prop_oneof![6 => 0i8..5, 1 => -3i8..0]);
    let off2 = prop::option::weighted(0.8, prop_oneof![6 => 0i8..5, 1 => -3i8..0]);
    let dflt = || prop::option::weighted(0.5, -3i8..4);
    prop_oneof![
        2 => Just(Func::RowNumber),
        2 => (1u8..7).prop_map(|n| Func::Ntile { n }),
        3 => (arg_any(), off, dflt()).prop_map(|(arg, offset, default)| Func::Lag { arg, offset, default }),
        3 => (arg_any(), off2, dflt()).prop_map(|(arg, offset, default)| Func::Lead { arg, offset, default }),
        3 => arg_any().prop_map(|arg| Func::FirstValue { arg }),
        3 => arg_any().prop_map(|arg| Func::LastValue { arg }),
        3 => (arg_any(), prop_oneof![4 => 1i8..5, 2 => -4i8..0]).prop_map(|(arg, n)| Func::NthValue { arg, n }),
        9 => func_peer_safe(),
    ]
    .boxed()
}

/// `bounded`: rewrite the expression so that it reports `uses_bounded_memory()` (otherwise about half of
/// the multi-expression cases would only ever reach `WindowAggExec`)
fn expr_strategy(peer_safe_only: bool, bounded: bool, maxk: u8) -> BoxedStrategy<ExprSpec> {
    let f = if peer_safe_only { func_peer_safe() } else { func_any() };
    (f, frame_strategy(maxk), prop::bool::weighted(0.2), 0u8..maxk, prop::bool::weighted(0.15))
        .prop_map(move |(mut func, mut frame, ignore_nulls, k, filter)| {
            if bounded {
                func = match func {
                    Func::PercentRank => Func::Rank,
                    Func::CumeDist => Func::DenseRank,
                    Func::Ntile { .. } => Func::RowNumber,
                    f => f,
                };
                if let Frame::Explicit { units, start, end: Bound::UnboundedFollowing } = frame {
                    frame = Frame::Explicit { units, start, end: Bound::Following(k.max(match start { Bound::Following(s) => s, _ => 0 })) };
                }
            }
            ExprSpec { func, frame, ignore_nulls, filter }
        })
        .boxed()
}

fn row_strategy() -> BoxedStrategy<Row> {
    (
        0u8..3,
        prop::option::weighted(0.9, 0i8..3),
        prop::option::weighted(0.9, 0u8..2),
        prop::option::weighted(0.85, -2i8..5),
        prop::option::weighted(0.85, -2i8..4),
        prop::option::weighted(0.8, -6i8..10),
        prop::option::weighted(0.8, -20i8..21),
        prop::option::weighted(0.8, 0u8..6),
        prop::option::weighted(0.85, prop::bool::weighted(0.65)),
        any::<u16>(),
    )
        .prop_map(|(gap, p1, p2, o1, o2, v, f, s, b, tb)| Row { gap, p1, p2, o1, o2, v, f, s, b, tb })
        .boxed()
}

fn ordkey_strategy() -> BoxedStrategy<OrdKey> {
    (prop_oneof![9 => Just(OCol::O1), 7 => Just(OCol::O2), 4 => Just(OCol::Id)], any::<bool>(), any::<bool>())
        .prop_map(|(col, desc, nulls_first)| OrdKey { col, desc, nulls_first })
        .boxed()
}

impl Func {
    fn name(&self) -> &'static str {
        match self {
            Func::RowNumber => "row_number",
            Func::Rank => "rank",
            Func::DenseRank => "dense_rank",
            Func::PercentRank => "percent_rank",
            Func::CumeDist => "cume_dist",
            Func::Ntile { .. } => "ntile",
            Func::Lag { .. } => "lag",
            Func::Lead { .. } => "lead",
            Func::FirstValue { .. } => "first_value",
            Func::LastValue { .. } => "last_value",
            Func::NthValue { .. } => "nth_value",
            Func::Sum { .. } => "sum",
            Func::Count { .. } => "count",
            Func::Avg => "avg",
            Func::Min { .. } => "min",
            Func::Max { .. } => "max",
        }
    }
    fn is_aggregate(&self) -> bool {
        matches!(self, Func::Sum { .. } | Func::Count { .. } | Func::Avg | Func::Min { .. } | Func::Max { .. })
    }
    /// does the function look at the frame at all
    fn uses_frame(&self) -> bool {
        self.is_aggregate() || matches!(self, Func::FirstValue { .. } | Func::LastValue { .. } | Func::NthValue { .. })
    }
    fn supports_ignore_nulls(&self) -> bool {
        matches!(self, Func::Lag { .. } | Func::Lead { .. } | Func::FirstValue { .. } | Func::LastValue { .. } | Func::NthValue { .. })
    }
}

impl ExprSpec {
    /// the value depends on the relative order of ORDER BY peers → needs a total ORDER BY
    fn needs_total(&self) -> bool {
        match &self.func {
            Func::Rank | Func::DenseRank | Func::PercentRank | Func::CumeDist => false,
            f if f.is_aggregate() => match &self.frame {
                Frame::Default => false,
                Frame::Explicit { units: Units::Rows, start, end } => !(*start == Bound::UnboundedPreceding && *end == Bound::UnboundedFollowing),
                Frame::Explicit { .. } => false,
            },
            _ => true,
        }
    }
    fn has_range_offset(&self) -> bool {
        match &self.frame {
            Frame::Explicit { units: Units::Range, start, end } => {
                matches!(start, Bound::Preceding(_) | Bound::Following(_)) || matches!(end, Bound::Preceding(_) | Bound::Following(_))
            }
            _ => false,
        }
    }
    fn is_groups(&self) -> bool {
        matches!(&self.frame, Frame::Explicit { units: Units::Groups, .. })
    }
}

impl ExprSpec {
    /// model of `WindowExpr::uses_bounded_memory` (cross-checked against the engine in `run`)
    fn model_bounded(&self, has_order: bool) -> bool {
        let end_unbounded = match &self.frame {
            Frame::Default => !has_order,
            Frame::Explicit { end, .. } => *end == Bound::UnboundedFollowing,
        };
        match &self.func {
            Func::PercentRank | Func::CumeDist | Func::Ntile { .. } => false,
            Func::RowNumber | Func::Rank | Func::DenseRank | Func::Lag { .. } | Func::Lead { .. } => true,
            _ => !end_unbounded,
        }
    }
    /// model of `get_reverse_expr().is_some()`
    fn model_reversible(&self) -> bool {
        !matches!(&self.func, Func::RowNumber | Func::Rank | Func::DenseRank | Func::PercentRank | Func::CumeDist | Func::Ntile { .. })
    }
    /// model of `get_reverse_expr().unwrap().uses_bounded_memory()` (the reversed frame ends where this one starts)
    fn model_reverse_bounded(&self) -> bool {
        let start_unbounded = match &self.frame {
            Frame::Default => true,
            Frame::Explicit { start, .. } => *start == Bound::UnboundedPreceding,
        };
        match &self.func {
            Func::Lag { .. } | Func::Lead { .. } => true,
            _ => !start_unbounded,
        }
    }
    /// signed displacement of a lag/lead with IGNORE NULLS (positive = towards later rows)
    fn ignore_nulls_shift(&self) -> Option<i64> {
        if !self.ignore_nulls {
            return None;
        }
        match &self.func {
            Func::Lead { offset, .. } => Some(offset.unwrap_or(1) as i64),
            Func::Lag { offset, .. } => Some(-(offset.unwrap_or(1) as i64)),
            _ => None,
        }
    }
}

fn model_all_bounded(c: &Case) -> bool {
    c.exprs.iter().all(|e| e.model_bounded(!c.order.is_empty()))
}

fn model_reversed_runs(c: &Case) -> bool {
    !c.order.is_empty() && c.exprs.iter().all(|e| e.model_reversible())
}

fn model_reversed_bounded(c: &Case) -> bool {
    model_reversed_runs(c) && c.exprs.iter().all(|e| e.model_reverse_bounded())
}

/// Make the ORDER BY list legal for (and sufficient to determine) every expression — by construction.
fn normalise(mut c: Case) -> Case {
    // no duplicate ORDER BY columns
    let mut seen: Vec<OCol> = vec![];
    c.order.retain(|k| {
        if seen.contains(&k.col) {
            false
        } else {
            seen.push(k.col);
            true
        }
    });
    for e in c.exprs.iter_mut() {
        if !e.func.supports_ignore_nulls() {
            e.ignore_nulls = false;
        }
        if !e.func.is_aggregate() {
            e.filter = false;
        }
        // lag/lead(x, 0) IGNORE NULLS has no agreed meaning
        if e.ignore_nulls {
            if let Func::Lag { offset, .. } | Func::Lead { offset, .. } = &mut e.func {
                if *offset == Some(0) {
                    *offset = Some(1);
                }
            }
        }
    }
    let needs_total = c.exprs.iter().any(|e| e.needs_total());
    let range_offset = c.exprs.iter().any(|e| e.has_range_offset());
    let groups = c.exprs.iter().any(|e| e.is_groups());
    let fallback = OrdKey { col: OCol::O1, desc: c.part_opts[0].0, nulls_first: c.part_opts[0].1 };
    if range_offset {
        let mut k = c.order.first().cloned().unwrap_or(fallback);
        if needs_total {
            k.col = OCol::Id;
        }
        c.order = vec![k];
    } else {
        if needs_total && !c.order.iter().any(|k| k.col == OCol::Id) {
            c.order.push(OrdKey { col: OCol::Id, desc: c.part_opts[1].0, nulls_first: c.part_opts[1].1 });
        }
        if groups && c.order.is_empty() {
            c.order.push(fallback);
        }
    }
    c.nparts = c.nparts.min(2);
    c.partial_idx = c.partial_idx.min(1);
    c
}

/// The same rules as `normalise`, as a check (replayed / shrunk cases).
fn validate(c: &Case) -> Result<(), String> {
    if c.exprs.is_empty() || c.exprs.len() > 4 {
        return Err("need 1..=4 window expressions".into());
    }
    if c.nparts > 2 || c.partial_idx > 1 || c.batch == 0 {
        return Err("bad nparts/partial_idx/batch".into());
    }
    for (i, k) in c.order.iter().enumerate() {
        if c.order[..i].iter().any(|j| j.col == k.col) {
            return Err("duplicate ORDER BY column".into());
        }
    }
    let total = c.order.iter().any(|k| k.col == OCol::Id);
    for e in &c.exprs {
        if e.ignore_nulls && !e.func.supports_ignore_nulls() {
            return Err("IGNORE NULLS on a function that does not take it".into());
        }
        if e.filter && !e.func.is_aggregate() {
            return Err("FILTER on a non-aggregate".into());
        }
        if e.ignore_nulls {
            if let Func::Lag { offset: Some(0), .. } | Func::Lead { offset: Some(0), .. } = &e.func {
                return Err("lag/lead offset 0 with IGNORE NULLS".into());
            }
        }
        if e.needs_total() && !total {
            return Err("peer-order dependent expression without a total ORDER BY".into());
        }
        if e.has_range_offset() && c.order.len() != 1 {
            return Err("RANGE offset needs exactly one ORDER BY key".into());
        }
        if e.is_groups() && c.order.is_empty() {
            return Err("GROUPS needs an ORDER BY".into());
        }
        if let Frame::Explicit { start, end, .. } = &e.frame {
            if !frame_bounds_legal(*start, *end) {
                return Err("illegal frame bounds".into());
            }
        }
        match &e.func {
            Func::Ntile { n } if *n == 0 => return Err("ntile(0)".into()),
            Func::NthValue { n, .. } if *n == 0 => return Err("nth_value(.., 0)".into()),
            Func::Sum { arg: Arg::S } => return Err("sum over a string".into()),
            _ => {}
        }
    }
    Ok(())
}

fn case_strategy(tier: Tier) -> BoxedStrategy<Case> {
    let max_rows = tier.pick(28usize, 70usize);
    let rows = prop_oneof![
        1 => prop::collection::vec(row_strategy(), 0..4),
        6 => prop::collection::vec(row_strategy(), 3..max_rows),
    ];
    // frame offsets 0..=3 (quick) / 0..=6 (thorough)
    let maxk = tier.pick(4u8, 7u8);
    let exprs = prop_oneof![
        3 => prop::collection::vec(expr_strategy(true, true, maxk), 1..4),
        2 => prop::collection::vec(expr_strategy(true, false, maxk), 1..4),
        3 => prop::collection::vec(expr_strategy(false, true, maxk), 1..4),
        2 => prop::collection::vec(expr_strategy(false, false, maxk), 1..4),
    ];
    let batch = match tier {
        Tier::Quick => prop_oneof![Just(1u16), Just(2), Just(3), Just(5), Just(7), Just(8192)].boxed(),
        Tier::Thorough => prop_oneof![Just(1u16), Just(2), Just(3), Just(5), Just(7), Just(11), Just(16), Just(8192)].boxed(),
    };
    (
        rows,
        (0u8..3, any::<bool>(), any::<[(bool, bool); 2]>(), any::<bool>()),
        prop::collection::vec(ordkey_strategy(), 0..3),
        exprs,
        batch,
        prop::bool::weighted(0.15),
        0u8..2,
    )
        .prop_map(|(rows, (nparts, part_swap, part_opts, part_perm), order, exprs, batch, empty_batches, partial_idx)| {
            normalise(Case { rows, nparts, part_swap, part_opts, part_perm, order, exprs, batch, empty_batches, partial_idx })
        })
        .boxed()
}

// ---------------------------------------------------------------------------------------------
// plain-row model shared by the oracle and the Arrow builder

#[derive(Clone, Debug, PartialEq)]
pub enum Val {
    Null,
    I(i64),
    F(f64),
    S(String),
    B(bool),
}

impl Val {
    fn is_null(&self) -> bool {
        matches!(self, Val::Null)
    }
}

fn val_eq(a: &Val, b: &Val) -> bool {
    match (a, b) {
        (Val::Null, Val::Null) => true,
        (Val::I(x), Val::I(y)) => x == y,
        (Val::F(x), Val::F(y)) => x == y || (x.is_nan() && y.is_nan()),
        (Val::S(x), Val::S(y)) => x == y,
        (Val::B(x), Val::B(y)) => x == y,
        _ => false,
    }
}

/// total order on non-null values of one type (no NaN in the domain)
fn val_cmp(a: &Val, b: &Val) -> Ordering {
    match (a, b) {
        (Val::I(x), Val::I(y)) => x.cmp(y),
        (Val::F(x), Val::F(y)) => x.partial_cmp(y).unwrap_or(Ordering::Equal),
        (Val::S(x), Val::S(y)) => x.as_bytes().cmp(y.as_bytes()),
        (Val::Null, Val::Null) => Ordering::Equal,
        _ => panic!("val_cmp on mixed types {a:?} {b:?}"),
    }
}

const S_ALPHABET: [&str; 6] = ["", "a", "ab", "b", "B", "ba"];
const P2_ALPHABET: [&str; 3] = ["x", "y", "z"];
const NCOLS: usize = 9;
const COL_NAMES: [&str; NCOLS] = ["id", "p1", "p2", "o1", "o2", "v", "f", "s", "b"];
const B_COL: usize = 8;

#[derive(Clone, Debug)]
struct PRow {
    /// id, p1, p2, o1, o2, v, f, s, b
    cols: [Val; NCOLS],
    tb: u16,
}

impl PRow {
    fn id(&self) -> i64 {
        match self.cols[0] {
            Val::I(i) => i,
            _ => unreachable!(),
        }
    }
}

fn plain_rows(c: &Case) -> Vec<PRow> {
    let mut id = 0i64;
    c.rows
        .iter()
        .map(|r| {
            id += 1 + r.gap as i64;
            let oi = |x: Option<i8>| x.map(|v| Val::I(v as i64)).unwrap_or(Val::Null);
            PRow {
                cols: [
                    Val::I(id),
                    oi(r.p1),
                    r.p2.map(|i| Val::S(P2_ALPHABET[(i as usize).min(2)].to_string())).unwrap_or(Val::Null),
                    oi(r.o1),
                    r.o2.map(|h| Val::F(h as f64 * 0.5)).unwrap_or(Val::Null),
                    oi(r.v),
                    r.f.map(|q| Val::F(q as f64 * 0.25)).unwrap_or(Val::Null),
                    r.s.map(|i| Val::S(S_ALPHABET[(i as usize).min(5)].to_string())).unwrap_or(Val::Null),
                    r.b.map(Val::B).unwrap_or(Val::Null),
                ],
                tb: r.tb,
            }
        })
        .collect()
}

fn ocol_index(c: OCol) -> usize {
    match c {
        OCol::Id => 0,
        OCol::O1 => 3,
        OCol::O2 => 4,
    }
}

fn arg_index(a: Arg) -> usize {
    match a {
        Arg::V => 5,
        Arg::F => 6,
        Arg::S => 7,
    }
}

fn part_cols(c: &Case) -> Vec<usize> {
    let all = if c.part_swap { [2usize, 1] } else { [1usize, 2] };
    all[..c.nparts as usize].to_vec()
}

/// A sort key: column index + options.
#[derive(Clone, Copy, Debug)]
struct SKey {
    col: usize,
    desc: bool,
    nulls_first: bool,
}

fn cmp_key(a: &Val, b: &Val, k: &SKey) -> Ordering {
    match (a.is_null(), b.is_null()) {
        (true, true) => Ordering::Equal,
        (true, false) => {
            if k.nulls_first {
                Ordering::Less
            } else {
                Ordering::Greater
            }
        }
        (false, true) => {
            if k.nulls_first {
                Ordering::Greater
            } else {
                Ordering::Less
            }
        }
        (false, false) => {
            let o = val_cmp(a, b);
            if k.desc { o.reverse() } else { o }
        }
    }
}

fn cmp_rows(a: &PRow, b: &PRow, keys: &[SKey]) -> Ordering {
    for k in keys {
        let o = cmp_key(&a.cols[k.col], &b.cols[k.col], k);
        if o != Ordering::Equal {
            return o;
        }
    }
    Ordering::Equal
}

fn order_skeys(c: &Case, reversed: bool) -> Vec<SKey> {
    c.order
        .iter()
        .map(|k| SKey { col: ocol_index(k.col), desc: k.desc != reversed, nulls_first: k.nulls_first != reversed })
        .collect()
}

// ---------------------------------------------------------------------------------------------
// oracle

struct PartitionView<'a> {
    rows: Vec<&'a PRow>,
    /// peer group index of every position
    group_of: Vec<usize>,
    /// [start, end) of every peer group
    groups: Vec<(usize, usize)>,
}

fn peers_equal(a: &PRow, b: &PRow, keys: &[SKey]) -> bool {
    keys.iter().all(|k| val_eq(&a.cols[k.col], &b.cols[k.col]))
}

fn partition_view<'a>(mut rows: Vec<&'a PRow>, keys: &[SKey], flip_ties: bool) -> PartitionView<'a> {
    rows.sort_by(|a, b| {
        cmp_rows(a, b, keys).then_with(|| {
            let t = (a.tb, a.id()).cmp(&(b.tb, b.id()));
            if flip_ties { t.reverse() } else { t }
        })
    });
    let mut group_of = Vec::with_capacity(rows.len());
    let mut groups: Vec<(usize, usize)> = vec![];
    for i in 0..rows.len() {
        if i > 0 && peers_equal(rows[i - 1], rows[i], keys) {
            groups.last_mut().unwrap().1 = i + 1;
        } else {
            groups.push((i, i + 1));
        }
        group_of.push(groups.len() - 1);
    }
    PartitionView { rows, group_of, groups }
}

/// RANGE offset target: value ∓ k in the key's own type
fn shift_val(v: &Val, k: u8, col: usize, add: bool) -> Val {
    match v {
        Val::I(x) => Val::I(if add { x + k as i64 } else { x - k as i64 }),
        Val::F(x) => {
            let d = range_delta_f64(k, col);
            Val::F(if add { x + d } else { x - d })
        }
        _ => panic!("RANGE offset on a non numeric key"),
    }
}

fn range_delta_f64(k: u8, _col: usize) -> f64 {
    k as f64 * 0.5
}

/// The frame [start, end) (positions inside the sorted partition) of position `i`, from the definition.
fn frame_of(pv: &PartitionView, keys: &[SKey], units: Units, start: Bound, end: Bound, i: usize) -> (usize, usize) {
    let n = pv.rows.len();
    let g = pv.group_of[i];
    let ng = pv.groups.len();
    let (s, e) = match units {
        Units::Rows => {
            let s = match start {
                Bound::UnboundedPreceding => 0,
                Bound::Preceding(k) => i.saturating_sub(k as usize),
                Bound::CurrentRow => i,
                Bound::Following(k) => (i + k as usize).min(n),
                Bound::UnboundedFollowing => unreachable!(),
            };
            let e = match end {
                Bound::UnboundedPreceding => unreachable!(),
                Bound::Preceding(k) => (i + 1).saturating_sub(k as usize),
                Bound::CurrentRow => i + 1,
                Bound::Following(k) => (i + k as usize + 1).min(n),
                Bound::UnboundedFollowing => n,
            };
            (s, e)
        }
        Units::Groups => {
            let s = match start {
                Bound::UnboundedPreceding => 0,
                Bound::Preceding(k) => pv.groups[g.saturating_sub(k as usize)].0,
                Bound::CurrentRow => pv.groups[g].0,
                Bound::Following(k) => {
                    if g + (k as usize) < ng {
                        pv.groups[g + k as usize].0
                    } else {
                        n
                    }
                }
                Bound::UnboundedFollowing => unreachable!(),
            };
            let e = match end {
                Bound::UnboundedPreceding => unreachable!(),
                Bound::Preceding(k) => {
                    if g >= k as usize {
                        pv.groups[g - k as usize].1
                    } else {
                        0
                    }
                }
                Bound::CurrentRow => pv.groups[g].1,
                Bound::Following(k) => pv.groups[(g + k as usize).min(ng - 1)].1,
                Bound::UnboundedFollowing => n,
            };
            (s, e)
        }
        Units::Range => {
            // offsets: exactly one key (validated)
            let offset_pos = |k: u8, preceding: bool, is_start: bool| -> usize {
                let key = &keys[0];
                let cur = &pv.rows[i].cols[key.col];
                if cur.is_null() {
                    // a NULL current key frames its NULL peer group
                    return if is_start { pv.groups[g].0 } else { pv.groups[g].1 };
                }
                // "k PRECEDING" moves against the sort direction, "k FOLLOWING" along it
                let add = preceding == key.desc;
                let target = shift_val(cur, k, key.col, add);
                // first position that is not strictly before (start) / not before-or-equal (end) the target
                let mut p = 0;
                while p < n {
                    let o = cmp_key(&pv.rows[p].cols[key.col], &target, key);
                    let still = if is_start { o == Ordering::Less } else { o != Ordering::Greater };
                    if !still {
                        break;
                    }
                    p += 1;
                }
                p
            };
            let s = match start {
                Bound::UnboundedPreceding => 0,
                Bound::Preceding(k) => offset_pos(k, true, true),
                Bound::CurrentRow => pv.groups[g].0,
                Bound::Following(k) => offset_pos(k, false, true),
                Bound::UnboundedFollowing => unreachable!(),
            };
            let e = match end {
                Bound::UnboundedPreceding => unreachable!(),
                Bound::Preceding(k) => offset_pos(k, true, false),
                Bound::CurrentRow => pv.groups[g].1,
                Bound::Following(k) => offset_pos(k, false, false),
                Bound::UnboundedFollowing => n,
            };
            (s, e)
        }
    };
    if s >= e { (s.min(n), s.min(n)) } else { (s, e) }
}

fn resolve_frame(frame: &Frame, has_order: bool) -> (Units, Bound, Bound) {
    match frame {
        Frame::Default => {
            if has_order {
                (Units::Range, Bound::UnboundedPreceding, Bound::CurrentRow)
            } else {
                (Units::Rows, Bound::UnboundedPreceding, Bound::UnboundedFollowing)
            }
        }
        Frame::Explicit { units, start, end } => (*units, *start, *end),
    }
}

fn default_val(arg: Arg, d: Option<i8>) -> Val {
    match d {
        None => Val::Null,
        Some(d) => match arg {
            Arg::V => Val::I(d as i64),
            Arg::F => Val::F(d as f64 * 0.25),
            Arg::S => Val::S(S_ALPHABET[(d.unsigned_abs() as usize).min(5)].to_string()),
        },
    }
}

struct OracleStats {
    empty_frames: u64,
    shrinking_starts: u64,
}

/// value of one expression for every position of one partition
fn eval_expr(pv: &PartitionView, keys: &[SKey], e: &ExprSpec, stats: &mut OracleStats) -> Vec<Val> {
    let n = pv.rows.len();
    let (units, start, end) = resolve_frame(&e.frame, !keys.is_empty());
    let argv = |a: Arg, p: usize| -> &Val { &pv.rows[p].cols[arg_index(a)] };
    let mut out = Vec::with_capacity(n);
    let mut last_start = 0usize;
    for i in 0..n {
        let g = pv.group_of[i];
        let v = match &e.func {
            Func::RowNumber => Val::I(i as i64 + 1),
            Func::Rank => Val::I(pv.groups[g].0 as i64 + 1),
            Func::DenseRank => Val::I(g as i64 + 1),
            Func::PercentRank => {
                let denom = (n as f64 - 1.0).max(1.0);
                Val::F(pv.groups[g].0 as f64 / denom)
            }
            Func::CumeDist => Val::F(pv.groups[g].1 as f64 / n as f64),
            Func::Ntile { n: b } => {
                // the first (n mod b) buckets get one extra row
                let b = *b as usize;
                let base = n / b;
                let rem = n % b;
                let big = rem * (base + 1);
                let bucket = if i < big { i / (base + 1) } else { rem + (i - big) / base };
                Val::I(bucket as i64 + 1)
            }
            Func::Lag { arg, offset, default } | Func::Lead { arg, offset, default } => {
                let off = offset.unwrap_or(1) as i64;
                // signed displacement: negative = towards the start of the partition
                let disp = if matches!(e.func, Func::Lag { .. }) { -off } else { off };
                let dv = default_val(*arg, *default);
                if !e.ignore_nulls {
                    let j = i as i64 + disp;
                    if j >= 0 && (j as usize) < n { argv(*arg, j as usize).clone() } else { dv }
                } else {
                    // the |disp|-th non-null value strictly before / after the current row
                    let need = disp.unsigned_abs() as usize;
                    let mut found = None;
                    let mut cnt = 0;
                    if disp < 0 {
                        for p in (0..i).rev() {
                            if !argv(*arg, p).is_null() {
                                cnt += 1;
                                if cnt == need {
                                    found = Some(p);
                                    break;
                                }
                            }
                        }
                    } else {
                        for p in i + 1..n {
                            if !argv(*arg, p).is_null() {
                                cnt += 1;
                                if cnt == need {
                                    found = Some(p);
                                    break;
                                }
                            }
                        }
                    }
                    found.map(|p| argv(*arg, p).clone()).unwrap_or(dv)
                }
            }
            f => {
                let (s, en) = frame_of(pv, keys, units, start, end, i);
                if s == en {
                    stats.empty_frames += 1;
                }
                if s > last_start {
                    stats.shrinking_starts += 1;
                }
                last_start = s;
                let arg = match f {
                    Func::FirstValue { arg } | Func::LastValue { arg } | Func::NthValue { arg, .. } => *arg,
                    Func::Sum { arg } | Func::Count { arg } | Func::Min { arg } | Func::Max { arg } => *arg,
                    Func::Avg => Arg::F,
                    _ => unreachable!(),
                };
                let mut positions: Vec<usize> = if e.ignore_nulls || f.is_aggregate() { (s..en).filter(|p| !argv(arg, *p).is_null()).collect() } else { (s..en).collect() };
                if e.filter {
                    // FILTER (WHERE b): only rows whose predicate is TRUE (NULL is not TRUE)
                    positions.retain(|p| pv.rows[*p].cols[B_COL] == Val::B(true));
                }
                match f {
                    Func::FirstValue { .. } => positions.first().map(|p| argv(arg, *p).clone()).unwrap_or(Val::Null),
                    Func::LastValue { .. } => positions.last().map(|p| argv(arg, *p).clone()).unwrap_or(Val::Null),
                    Func::NthValue { n: k, .. } => {
                        let len = positions.len();
                        let idx = if *k > 0 {
                            let k = *k as usize;
                            if k <= len { Some(k - 1) } else { None }
                        } else {
                            let k = k.unsigned_abs() as usize;
                            if k <= len { Some(len - k) } else { None }
                        };
                        idx.map(|x| argv(arg, positions[x]).clone()).unwrap_or(Val::Null)
                    }
                    Func::Count { .. } => Val::I(positions.len() as i64),
                    Func::Sum { .. } => {
                        if positions.is_empty() {
                            Val::Null
                        } else {
                            match arg {
                                Arg::V => Val::I(positions.iter().map(|p| if let Val::I(x) = argv(arg, *p) { *x } else { 0 }).sum()),
                                _ => Val::F(positions.iter().map(|p| if let Val::F(x) = argv(arg, *p) { *x } else { 0.0 }).sum()),
                            }
                        }
                    }
                    Func::Avg => {
                        if positions.is_empty() {
                            Val::Null
                        } else {
                            let s: f64 = positions.iter().map(|p| if let Val::F(x) = argv(arg, *p) { *x } else { 0.0 }).sum();
                            Val::F(s / positions.len() as f64)
                        }
                    }
                    Func::Min { .. } => positions.iter().map(|p| argv(arg, *p)).min_by(|a, b| val_cmp(a, b)).cloned().unwrap_or(Val::Null),
                    Func::Max { .. } => positions.iter().map(|p| argv(arg, *p)).max_by(|a, b| val_cmp(a, b)).cloned().unwrap_or(Val::Null),
                    _ => unreachable!(),
                }
            }
        };
        out.push(v);
    }
    out
}

struct OracleOut {
    /// id → one value per expression
    by_id: BTreeMap<i64, Vec<Val>>,
    partitions: usize,
    max_peer_group: usize,
    max_partition: usize,
    empty_frames: u64,
    shrinking_starts: u64,
}

fn oracle(c: &Case, rows: &[PRow], flip_ties: bool) -> OracleOut {
    let pcols = part_cols(c);
    let keys = order_skeys(c, false);
    // group by partition key (NULL = NULL), deterministic order of partitions
    let mut parts: Vec<(Vec<Val>, Vec<&PRow>)> = vec![];
    for r in rows {
        let key: Vec<Val> = pcols.iter().map(|i| r.cols[*i].clone()).collect();
        if let Some(p) = parts.iter_mut().find(|(k, _)| k.iter().zip(&key).all(|(a, b)| val_eq(a, b))) {
            p.1.push(r);
        } else {
            parts.push((key, vec![r]));
        }
    }
    let mut out = OracleOut { by_id: BTreeMap::new(), partitions: parts.len(), max_peer_group: 0, max_partition: 0, empty_frames: 0, shrinking_starts: 0 };
    let mut stats = OracleStats { empty_frames: 0, shrinking_starts: 0 };
    for (_, prow) in parts {
        let pv = partition_view(prow, &keys, flip_ties);
        out.max_partition = out.max_partition.max(pv.rows.len());
        out.max_peer_group = out.max_peer_group.max(pv.groups.iter().map(|(s, e)| e - s).max().unwrap_or(0));
        let cols: Vec<Vec<Val>> = c.exprs.iter().map(|e| eval_expr(&pv, &keys, e, &mut stats)).collect();
        for (i, r) in pv.rows.iter().enumerate() {
            out.by_id.insert(r.id(), cols.iter().map(|col| col[i].clone()).collect());
        }
    }
    out.empty_frames = stats.empty_frames;
    out.shrinking_starts = stats.shrinking_starts;
    out
}

// ---------------------------------------------------------------------------------------------
// DataFusion side

fn schema() -> SchemaRef {
    Arc::new(Schema::new(vec![
        Field::new("id", DataType::UInt64, false),
        Field::new("p1", DataType::Int64, true),
        Field::new("p2", DataType::Utf8, true),
        Field::new("o1", DataType::Int64, true),
        Field::new("o2", DataType::Float64, true),
        Field::new("v", DataType::Int64, true),
        Field::new("f", DataType::Float64, true),
        Field::new("s", DataType::Utf8, true),
        Field::new("b", DataType::Boolean, true),
    ]))
}

fn build_batch(schema: &SchemaRef, rows: &[&PRow]) -> Result<RecordBatch, String> {
    let mut cols: Vec<ArrayRef> = vec![];
    for (ci, f) in schema.fields().iter().enumerate() {
        let arr: ArrayRef = match f.data_type() {
            DataType::UInt64 => Arc::new(UInt64Array::from(rows.iter().map(|r| if let Val::I(x) = &r.cols[ci] { Some(*x as u64) } else { None }).collect::<Vec<_>>())),
            DataType::Int64 => Arc::new(Int64Array::from(rows.iter().map(|r| if let Val::I(x) = &r.cols[ci] { Some(*x) } else { None }).collect::<Vec<_>>())),
            DataType::Float64 => Arc::new(Float64Array::from(rows.iter().map(|r| if let Val::F(x) = &r.cols[ci] { Some(*x) } else { None }).collect::<Vec<_>>())),
            DataType::Utf8 => Arc::new(StringArray::from(rows.iter().map(|r| if let Val::S(x) = &r.cols[ci] { Some(x.clone()) } else { None }).collect::<Vec<_>>())),
            DataType::Boolean => Arc::new(BooleanArray::from(rows.iter().map(|r| if let Val::B(x) = &r.cols[ci] { Some(*x) } else { None }).collect::<Vec<_>>())),
            _ => return Err("unexpected column type".into()),
        };
        cols.push(arr);
    }
    RecordBatch::try_new(Arc::clone(schema), cols).map_err(|e| format!("harness: cannot build batch: {e}"))
}

fn val_at(arr: &ArrayRef, i: usize) -> Result<Val, String> {
    if arr.is_null(i) {
        return Ok(Val::Null);
    }
    Ok(match arr.data_type() {
        DataType::Int64 => Val::I(arr.as_any().downcast_ref::<Int64Array>().ok_or("downcast Int64")?.value(i)),
        DataType::UInt64 => {
            let v = arr.as_any().downcast_ref::<UInt64Array>().ok_or("downcast UInt64")?.value(i);
            Val::I(i64::try_from(v).map_err(|_| "UInt64 result out of i64 range".to_string())?)
        }
        DataType::Float64 => Val::F(arr.as_any().downcast_ref::<Float64Array>().ok_or("downcast Float64")?.value(i)),
        DataType::Utf8 => Val::S(arr.as_any().downcast_ref::<StringArray>().ok_or("downcast Utf8")?.value(i).to_string()),
        DataType::Boolean => Val::B(arr.as_any().downcast_ref::<BooleanArray>().ok_or("downcast Boolean")?.value(i)),
        other => return Err(format!("unexpected result type {other}")),
    })
}

fn col_expr(idx: usize) -> Arc<dyn PhysicalExpr> {
    Arc::new(Column::new(COL_NAMES[idx], idx))
}

fn lit(v: ScalarValue) -> Arc<dyn PhysicalExpr> {
    Arc::new(Literal::new(v))
}

fn sort_expr(k: &SKey) -> PhysicalSortExpr {
    PhysicalSortExpr::new(col_expr(k.col), SortOptions { descending: k.desc, nulls_first: k.nulls_first })
}

fn scalar_of(v: &Val, arg: Arg) -> ScalarValue {
    match (v, arg) {
        (Val::I(x), _) => ScalarValue::Int64(Some(*x)),
        (Val::F(x), _) => ScalarValue::Float64(Some(*x)),
        (Val::S(x), _) => ScalarValue::Utf8(Some(x.clone())),
        (Val::B(x), _) => ScalarValue::Boolean(Some(*x)),
        (Val::Null, Arg::V) => ScalarValue::Int64(None),
        (Val::Null, Arg::F) => ScalarValue::Float64(None),
        (Val::Null, Arg::S) => ScalarValue::Utf8(None),
    }
}

fn df_frame(frame: &Frame, order: &[OrdKey]) -> WindowFrame {
    match frame {
        Frame::Default => {
            if order.is_empty() {
                WindowFrame::new(None)
            } else {
                // the SQL planner passes `strict = true` only when the leading key is unique (a primary key)
                WindowFrame::new(Some(order[0].col == OCol::Id))
            }
        }
        Frame::Explicit { units, start, end } => {
            let (u, null, off): (WindowFrameUnits, ScalarValue, Box<dyn Fn(u8) -> ScalarValue>) = match units {
                Units::Rows => (WindowFrameUnits::Rows, ScalarValue::UInt64(None), Box::new(|k| ScalarValue::UInt64(Some(k as u64)))),
                Units::Groups => (WindowFrameUnits::Groups, ScalarValue::UInt64(None), Box::new(|k| ScalarValue::UInt64(Some(k as u64)))),
                Units::Range => match order.first().map(|k| k.col) {
                    // bounds are coerced to the type of the (first) ORDER BY key
                    Some(OCol::O2) => (WindowFrameUnits::Range, ScalarValue::Float64(None), Box::new(|k| ScalarValue::Float64(Some(range_delta_f64(k, 4))))),
                    Some(OCol::Id) => (WindowFrameUnits::Range, ScalarValue::UInt64(None), Box::new(|k| ScalarValue::UInt64(Some(k as u64)))),
                    Some(_) => (WindowFrameUnits::Range, ScalarValue::Int64(None), Box::new(|k| ScalarValue::Int64(Some(k as i64)))),
                    None => (WindowFrameUnits::Range, ScalarValue::UInt64(None), Box::new(|k| ScalarValue::UInt64(Some(k as u64)))),
                },
            };
            let conv = |b: &Bound| match b {
                Bound::UnboundedPreceding => WindowFrameBound::Preceding(null.clone()),
                Bound::Preceding(k) => WindowFrameBound::Preceding(off(*k)),
                Bound::CurrentRow => WindowFrameBound::CurrentRow,
                Bound::Following(k) => WindowFrameBound::Following(off(*k)),
                Bound::UnboundedFollowing => WindowFrameBound::Following(null.clone()),
            };
            WindowFrame::new_bounds(u, conv(start), conv(end))
        }
    }
}

fn build_window_exprs(c: &Case, schema: &SchemaRef) -> Result<Vec<Arc<dyn WindowExpr>>, DataFusionError> {
    use datafusion_functions_aggregate::{average::avg_udaf, count::count_udaf, min_max::max_udaf, min_max::min_udaf, sum::sum_udaf};
    use datafusion_functions_window::{
        cume_dist::cume_dist_udwf,
        lead_lag::{lag_udwf, lead_udwf},
        nth_value::{first_value_udwf, last_value_udwf, nth_value_udwf},
        ntile::ntile_udwf,
        rank::{dense_rank_udwf, percent_rank_udwf, rank_udwf},
        row_number::row_number_udwf,
    };
    let partition_by: Vec<Arc<dyn PhysicalExpr>> = part_cols(c).into_iter().map(col_expr).collect();
    let order_by: Vec<PhysicalSortExpr> = order_skeys(c, false).iter().map(sort_expr).collect();
    let mut out = vec![];
    for (i, e) in c.exprs.iter().enumerate() {
        let w = WindowFunctionDefinition::WindowUDF;
        let a = WindowFunctionDefinition::AggregateUDF;
        let (fun, args): (WindowFunctionDefinition, Vec<Arc<dyn PhysicalExpr>>) = match &e.func {
            Func::RowNumber => (w(row_number_udwf()), vec![]),
            Func::Rank => (w(rank_udwf()), vec![]),
            Func::DenseRank => (w(dense_rank_udwf()), vec![]),
            Func::PercentRank => (w(percent_rank_udwf()), vec![]),
            Func::CumeDist => (w(cume_dist_udwf()), vec![]),
            Func::Ntile { n } => (w(ntile_udwf()), vec![lit(ScalarValue::Int64(Some(*n as i64)))]),
            Func::Lag { arg, offset, default } | Func::Lead { arg, offset, default } => {
                let mut args = vec![col_expr(arg_index(*arg))];
                if offset.is_some() || default.is_some() {
                    args.push(lit(ScalarValue::Int64(Some(offset.unwrap_or(1) as i64))));
                }
                if default.is_some() {
                    args.push(lit(scalar_of(&default_val(*arg, *default), *arg)));
                }
                (w(if matches!(e.func, Func::Lag { .. }) { lag_udwf() } else { lead_udwf() }), args)
            }
            Func::FirstValue { arg } => (w(first_value_udwf()), vec![col_expr(arg_index(*arg))]),
            Func::LastValue { arg } => (w(last_value_udwf()), vec![col_expr(arg_index(*arg))]),
            Func::NthValue { arg, n } => (w(nth_value_udwf()), vec![col_expr(arg_index(*arg)), lit(ScalarValue::Int64(Some(*n as i64)))]),
            Func::Sum { arg } => (a(sum_udaf()), vec![col_expr(arg_index(*arg))]),
            Func::Count { arg } => (a(count_udaf()), vec![col_expr(arg_index(*arg))]),
            Func::Avg => (a(avg_udaf()), vec![col_expr(arg_index(Arg::F))]),
            Func::Min { arg } => (a(min_udaf()), vec![col_expr(arg_index(*arg))]),
            Func::Max { arg } => (a(max_udaf()), vec![col_expr(arg_index(*arg))]),
        };
        let frame = Arc::new(df_frame(&e.frame, &c.order));
        let filter = if e.filter { Some(col_expr(B_COL)) } else { None };
        out.push(create_window_expr(&fun, format!("w{i}"), &args, &partition_by, &order_by, frame, Arc::clone(schema), e.ignore_nulls, false, filter)?);
    }
    Ok(out)
}

#[derive(Clone, Copy, Debug, PartialEq, Eq)]
enum Mode {
    WindowAgg,
    BoundedSorted,
    BoundedLinear(u8),
    BoundedPartial,
}

impl Mode {
    fn label(&self) -> String {
        match self {
            Mode::WindowAgg => "exec=WindowAggExec".into(),
            Mode::BoundedSorted => "exec=Bounded/Sorted".into(),
            Mode::BoundedLinear(l) => format!("exec=Bounded/Linear/layout{l}"),
            Mode::BoundedPartial => "exec=Bounded/PartiallySorted".into(),
        }
    }
}

/// The physical input order a mode needs (which is also the ordering the source declares).
fn input_sort_keys(c: &Case, mode: Mode, reversed: bool) -> Vec<SKey> {
    let pcols = part_cols(c);
    let pkey = |slot: usize| SKey { col: pcols[slot], desc: c.part_opts[slot].0, nulls_first: c.part_opts[slot].1 };
    let okeys = order_skeys(c, reversed);
    let mut keys = vec![];
    match mode {
        Mode::WindowAgg | Mode::BoundedSorted => {
            let mut slots: Vec<usize> = (0..pcols.len()).collect();
            if c.part_perm {
                slots.reverse();
            }
            keys.extend(slots.into_iter().map(pkey));
            keys.extend(okeys);
        }
        Mode::BoundedPartial => {
            keys.push(pkey(c.partial_idx as usize));
            keys.extend(okeys);
        }
        Mode::BoundedLinear(0) => keys.extend(okeys),
        Mode::BoundedLinear(_) => {
            // [o_1, partition columns, o_2 ..]: legal for Linear mode because the partition columns are
            // constant inside a partition; only o_1 is ordered across partitions
            if let Some((first, rest)) = okeys.split_first() {
                keys.push(*first);
                keys.extend((0..pcols.len()).map(pkey));
                keys.extend(rest.iter().copied());
            }
        }
    }
    keys
}

struct RunOut {
    /// output rows in output order: (pass-through columns, window values)
    rows: Vec<(Vec<Val>, Vec<Val>)>,
    batches: usize,
}

enum RunErr {
    Construct(String),
    Execute(String),
    NotImplemented(String),
    Timeout,
    Harness(String),
}

fn run_mode(c: &Case, rows: &[PRow], exprs: &[Arc<dyn WindowExpr>], mode: Mode, reversed: bool) -> Result<RunOut, RunErr> {
    let schema = schema();
    let keys = input_sort_keys(c, mode, reversed);
    let mut sorted: Vec<&PRow> = rows.iter().collect();
    sorted.sort_by(|a, b| cmp_rows(a, b, &keys).then_with(|| (a.tb, a.id()).cmp(&(b.tb, b.id()))));
    let bs = c.batch.max(1) as usize;
    let mut batches = vec![];
    if c.empty_batches {
        batches.push(build_batch(&schema, &[]).map_err(RunErr::Harness)?);
    }
    for (i, chunk) in sorted.chunks(bs).enumerate() {
        batches.push(build_batch(&schema, chunk).map_err(RunErr::Harness)?);
        if c.empty_batches && i % 2 == 0 {
            batches.push(build_batch(&schema, &[]).map_err(RunErr::Harness)?);
        }
    }
    let mut source = TestMemoryExec::try_new(&[batches], Arc::clone(&schema), None).map_err(|e| RunErr::Harness(format!("TestMemoryExec: {e}")))?;
    if let Some(lex) = LexOrdering::new(keys.iter().map(sort_expr)) {
        source = source.try_with_sort_information(vec![lex]).map_err(|e| RunErr::Harness(format!("sort information: {e}")))?;
    }
    let input: Arc<dyn ExecutionPlan> = Arc::new(source);
    let plan: Arc<dyn ExecutionPlan> = match mode {
        Mode::WindowAgg => Arc::new(WindowAggExec::try_new(exprs.to_vec(), input, false).map_err(|e| RunErr::Construct(e.to_string()))?),
        Mode::BoundedSorted => Arc::new(BoundedWindowAggExec::try_new(exprs.to_vec(), input, InputOrderMode::Sorted, false).map_err(|e| RunErr::Construct(e.to_string()))?),
        Mode::BoundedLinear(_) => Arc::new(BoundedWindowAggExec::try_new(exprs.to_vec(), input, InputOrderMode::Linear, false).map_err(|e| RunErr::Construct(e.to_string()))?),
        Mode::BoundedPartial => Arc::new(
            BoundedWindowAggExec::try_new(exprs.to_vec(), input, InputOrderMode::PartiallySorted(vec![c.partial_idx as usize]), false).map_err(|e| RunErr::Construct(e.to_string()))?,
        ),
    };
    let ctx = Arc::new(TaskContext::default().with_session_config(SessionConfig::new().with_batch_size(bs)));
    let rt = tokio::runtime::Builder::new_current_thread().enable_all().build().map_err(|e| RunErr::Harness(format!("tokio: {e}")))?;
    let res = rt.block_on(async {
        tokio::time::timeout(Duration::from_secs(20), async {
            let stream = plan.execute(0, ctx)?;
            datafusion_physical_plan::common::collect(stream).await
        })
        .await
    });
    drop(rt);
    let out_batches = match res {
        Err(_) => return Err(RunErr::Timeout),
        Ok(Err(DataFusionError::NotImplemented(m))) => return Err(RunErr::NotImplemented(m)),
        Ok(Err(e)) => return Err(RunErr::Execute(e.to_string())),
        Ok(Ok(b)) => b,
    };
    let mut out = RunOut { rows: vec![], batches: out_batches.len() };
    for b in &out_batches {
        if b.num_columns() != NCOLS + exprs.len() {
            return Err(RunErr::Execute(format!("output has {} columns, expected {}", b.num_columns(), NCOLS + exprs.len())));
        }
        for i in 0..b.num_rows() {
            let mut pass = Vec::with_capacity(NCOLS);
            for cidx in 0..NCOLS {
                pass.push(val_at(b.column(cidx), i).map_err(RunErr::Harness)?);
            }
            let mut win = Vec::with_capacity(exprs.len());
            for cidx in NCOLS..b.num_columns() {
                win.push(val_at(b.column(cidx), i).map_err(RunErr::Harness)?);
            }
            out.rows.push((pass, win));
        }
    }
    Ok(out)
}

fn describe_frame(f: &Frame) -> String {
    let b = |b: &Bound| match b {
        Bound::UnboundedPreceding => "UNBOUNDED PRECEDING".to_string(),
        Bound::Preceding(k) => format!("{k} PRECEDING"),
        Bound::CurrentRow => "CURRENT ROW".to_string(),
        Bound::Following(k) => format!("{k} FOLLOWING"),
        Bound::UnboundedFollowing => "UNBOUNDED FOLLOWING".to_string(),
    };
    match f {
        Frame::Default => "<default frame>".into(),
        Frame::Explicit { units, start, end } => format!("{units:?} BETWEEN {} AND {}", b(start), b(end)),
    }
}

fn describe_spec(c: &Case) -> String {
    let pcols: Vec<&str> = part_cols(c).into_iter().map(|i| COL_NAMES[i]).collect();
    let ord: Vec<String> = c
        .order
        .iter()
        .map(|k| format!("{} {} NULLS {}", COL_NAMES[ocol_index(k.col)], if k.desc { "DESC" } else { "ASC" }, if k.nulls_first { "FIRST" } else { "LAST" }))
        .collect();
    format!("PARTITION BY [{}] ORDER BY [{}]", pcols.join(", "), ord.join(", "))
}

/// compare one executor's output with the oracle; Err = violation text
fn check_output(c: &Case, rows: &[PRow], exp: &OracleOut, got: &RunOut, what: &str) -> Result<(), String> {
    let by_id: BTreeMap<i64, &PRow> = rows.iter().map(|r| (r.id(), r)).collect();
    let mut seen: BTreeMap<i64, usize> = BTreeMap::new();
    for (pass, win) in &got.rows {
        let id = match &pass[0] {
            Val::I(i) => *i,
            other => return Err(format!("{what}: output row with id {other:?}")),
        };
        let Some(input) = by_id.get(&id) else {
            return Err(format!("{what}: output row with unknown id {id}"));
        };
        *seen.entry(id).or_default() += 1;
        for ci in 0..NCOLS {
            if !val_eq(&pass[ci], &input.cols[ci]) {
                return Err(format!("{what}: pass-through column {} of row id={id} is {:?}, input has {:?}", COL_NAMES[ci], pass[ci], input.cols[ci]));
            }
        }
        let want = &exp.by_id[&id];
        for (ei, (g, w)) in win.iter().zip(want).enumerate() {
            if !val_eq(g, w) {
                let e = &c.exprs[ei];
                return Err(format!(
                    "{what}: expression #{ei} {:?}{} OVER ({} {}) at row id={id} (p1={:?} p2={:?} o1={:?} o2={:?}): engine {:?}, definition {:?}",
                    e.func,
                    if e.ignore_nulls { " IGNORE NULLS" } else if e.filter { " FILTER (WHERE b)" } else { "" },
                    describe_spec(c),
                    describe_frame(&e.frame),
                    input.cols[1],
                    input.cols[2],
                    input.cols[3],
                    input.cols[4],
                    g,
                    w
                ));
            }
        }
    }
    if got.rows.len() != rows.len() || seen.len() != rows.len() || seen.values().any(|n| *n != 1) {
        let missing: Vec<i64> = by_id.keys().filter(|k| !seen.contains_key(k)).copied().collect();
        let dup: Vec<i64> = seen.iter().filter(|(_, n)| **n > 1).map(|(k, _)| *k).collect();
        return Err(format!("{what}: {} input rows but {} output rows; missing ids {missing:?}, duplicated ids {dup:?}", rows.len(), got.rows.len()));
    }
    Ok(())
}

impl Property for C09 {
    type Case = Case;
    fn id(&self) -> &'static str {
        "C09"
    }
    fn sub(&self) -> &'static str {
        "c09"
    }
    fn strategy(&self, tier: Tier) -> BoxedStrategy<Case> {
        case_strategy(tier)
    }
    fn budget(&self, tier: Tier) -> Budget {
        Budget::new(tier.pick(20_000, 2_000_000), tier.pick(8, 16)).min_nontrivial(tier.pick(5_000, 500_000)).case_timeout(300)
    }
    fn rule(&self) -> String {
        "0-27 (thorough 0-69) rows with a unique unsigned id (with holes), 2 partition cols (Int64, Utf8), 2 order cols (Int64, Float64; ties, NULLs), value cols \
         (Int64, dyadic Float64, Utf8, Boolean); 0-2 PARTITION BY columns, 0-3 ORDER BY keys (made total with `id` whenever an expression depends on peer order), \
         1-3 window expressions (16 functions x default/ROWS/RANGE/GROUPS frames, all legal bound pairs, offsets 0-3 (thorough 0-6), IGNORE NULLS, FILTER), input batch \
         size in {1,2,3,5,7,8192} (+11,16 thorough), optional empty batches; every applicable executor (WindowAggExec, BoundedWindowAggExec Sorted / Linear x2 layouts / \
         PartiallySorted, reversed expressions) is run and compared row-by-row (by id) with a definitional per-row frame evaluator. Non-trivial = (>= 2 partitions or a \
         peer group of >= 2 rows or a partition of >= 3 rows under a total order) and some expression whose frame is not the whole partition, and >= 2 executors compared; \
         distinct by case JSON."
            .into()
    }
    fn assumptions(&self) -> Vec<String> {
        vec![
            "TestMemoryExec delivers the batches it was given, in order, and its declared sort information is what the harness sorted by".into(),
            "BoundedWindowAggExec is only built when every expression reports uses_bounded_memory() (the planner's own condition)".into(),
            "RANGE offsets on a NULL current key frame its NULL peer group (DESIGN Appendix A, PostgreSQL behaviour)".into(),
            "lag/lead/first/last/nth_value IGNORE NULLS skip NULL arguments (k-th non-null value); offset 0 with IGNORE NULLS is not generated".into(),
            "FILTER (WHERE b) keeps the frame rows whose predicate is TRUE (NULL is not TRUE)".into(),
            "values are Int64 / Utf8 / dyadic Float64, so sums and averages are exact regardless of evaluation order or retraction".into(),
            "SQL-level window-limit / TopN rewrites are outside this operator-level check".into(),
        ]
    }
    fn known_signature(&self, case: &Case) -> Option<String> {
        // used only to verify candidate repairs (fixes/C09-*.diff): run the campaign without the exclusions
        if std::env::var_os("VF_C09_NO_EXCLUDE").is_some() {
            return None;
        }
        // the streaming evaluator's "lead" mode with IGNORE NULLS: reached by a forward shift in a bounded
        // executor, or by a backward shift once the expression is reversed
        if validate(case).is_ok() {
            let fwd = case.exprs.iter().any(|e| e.ignore_nulls_shift().is_some_and(|d| d > 0));
            let bwd = case.exprs.iter().any(|e| e.ignore_nulls_shift().is_some_and(|d| d < 0));
            if (fwd && model_all_bounded(case)) || (bwd && model_reversed_bounded(case)) {
                return Some("lead-ignore-nulls-streaming".into());
            }
            // RANGE frame ending `k PRECEDING` (k > 0) is flagged causal, but on a NULL order key it ends at
            // the end of the NULL peer group: the streaming executors emit results before the group is complete
            if case.order.len() == 1 && case.order[0].col != OCol::Id {
                let kc = ocol_index(case.order[0].col);
                let null_keys = case.rows.iter().filter(|r| if kc == 3 { r.o1.is_none() } else { r.o2.is_none() }).count();
                let hit = |e: &ExprSpec, reversed: bool| {
                    e.func.uses_frame()
                        && match &e.frame {
                            Frame::Explicit { units: Units::Range, start, end } => {
                                if reversed {
                                    matches!(start, Bound::Following(k) if *k > 0)
                                } else {
                                    matches!(end, Bound::Preceding(k) if *k > 0)
                                }
                            }
                            _ => false,
                        }
                };
                if null_keys >= 2
                    && ((model_all_bounded(case) && case.exprs.iter().any(|e| hit(e, false))) || (model_reversed_bounded(case) && case.exprs.iter().any(|e| hit(e, true))))
                {
                    return Some("range-causal-end-on-null-key".into());
                }
            }
            // Linear mode, unsigned key (id) DESC, RANGE .. k FOLLOWING with a key smaller than k: the
            // "end bound is safe" test wraps around
            if case.nparts >= 1 && model_all_bounded(case) && case.order.len() == 1 && case.order[0].col == OCol::Id && case.order[0].desc {
                let min_id = case.rows.first().map(|r| 1 + r.gap as u64);
                let hit = case.exprs.iter().any(|e| {
                    e.func.is_aggregate() && matches!(&e.frame, Frame::Explicit { units: Units::Range, end: Bound::Following(k), .. } if min_id.is_some_and(|m| m < *k as u64))
                });
                if hit {
                    return Some("range-following-unsigned-desc-linear".into());
                }
            }
        }
        None
    }
    fn run(&self, case: &Case) -> CaseResult {
        if let Err(why) = validate(case) {
            return CaseResult::discard(format!("outside domain: {why}"));
        }
        let rows = plain_rows(case);
        let exp = oracle(case, &rows, false);
        let exp2 = oracle(case, &rows, true);
        for (id, a) in &exp.by_id {
            let b = &exp2.by_id[id];
            if a.len() != b.len() || a.iter().zip(b).any(|(x, y)| !val_eq(x, y)) {
                panic!("harness: oracle result depends on the order of peers for id {id}: {a:?} vs {b:?} — determinism guard is wrong for {:?}", case.exprs);
            }
        }
        let schema = schema();
        let exprs = match build_window_exprs(case, &schema) {
            Ok(e) => e,
            Err(e) => return CaseResult::discard(format!("construction rejected: {}", truncate(&e.to_string(), 80))),
        };
        let mut labels: Vec<String> = vec![];
        let all_bounded = exprs.iter().all(|e| e.uses_bounded_memory());
        if all_bounded != model_all_bounded(case) {
            panic!("harness: model of uses_bounded_memory disagrees with the engine ({all_bounded}) for {:?}", case.exprs);
        }
        let mut plans: Vec<(Mode, bool, Vec<Arc<dyn WindowExpr>>)> = vec![(Mode::WindowAgg, false, exprs.clone())];
        if all_bounded {
            plans.push((Mode::BoundedSorted, false, exprs.clone()));
            if case.nparts >= 1 {
                plans.push((Mode::BoundedLinear(0), false, exprs.clone()));
                if !case.order.is_empty() {
                    plans.push((Mode::BoundedLinear(1), false, exprs.clone()));
                }
            }
            if case.nparts == 2 {
                plans.push((Mode::BoundedPartial, false, exprs.clone()));
            }
        } else {
            labels.push("not-bounded(WindowAggExec only)".into());
        }
        if !case.order.is_empty() {
            let rev = exprs.iter().map(|e| e.get_reverse_expr()).collect::<Option<Vec<_>>>();
            if rev.is_some() != model_reversed_runs(case) {
                panic!("harness: model of get_reverse_expr disagrees with the engine for {:?}", case.exprs);
            }
            if let Some(rev) = rev {
                let rev_bounded = rev.iter().all(|e| e.uses_bounded_memory());
                if rev_bounded != model_reversed_bounded(case) {
                    panic!("harness: model of reversed uses_bounded_memory disagrees with the engine ({rev_bounded}) for {:?}", case.exprs);
                }
                plans.push((Mode::WindowAgg, true, rev.clone()));
                if rev_bounded {
                    plans.push((Mode::BoundedSorted, true, rev));
                }
            }
        }
        let mut compared = 0;
        let mut max_out_batches = 0;
        for (mode, reversed, ex) in &plans {
            let what = format!("{}{}", mode.label(), if *reversed { "/reversed" } else { "" });
            match run_mode(case, &rows, ex, *mode, *reversed) {
                Ok(out) => {
                    if let Err(msg) = check_output(case, &rows, &exp, &out, &what) {
                        return CaseResult::violation(msg).labels(labels).label(what);
                    }
                    compared += 1;
                    max_out_batches = max_out_batches.max(out.batches);
                    labels.push(what);
                }
                Err(RunErr::Construct(m)) => return CaseResult::discard(format!("operator construction rejected ({what}): {}", truncate(&m, 60))),
                Err(RunErr::NotImplemented(m)) => return CaseResult::discard(format!("not implemented ({what}): {}", truncate(&m, 60))),
                Err(RunErr::Timeout) => return CaseResult::inconclusive(format!("timeout in {what}")),
                Err(RunErr::Harness(m)) => panic!("harness: {m}"),
                Err(RunErr::Execute(m)) => {
                    return CaseResult::violation(format!("{what}: execution failed for {} with frames {:?}: {m}", describe_spec(case), case.exprs.iter().map(|e| describe_frame(&e.frame)).collect::<Vec<_>>()))
                        .labels(labels)
                        .label("exec-error");
                }
            }
        }
        // classification
        let total = case.order.iter().any(|k| k.col == OCol::Id);
        let structure = exp.partitions >= 2 || exp.max_peer_group >= 2 || (total && exp.max_partition >= 3);
        let partial_frame = case.exprs.iter().any(|e| {
            !e.func.uses_frame()
                || match &e.frame {
                    Frame::Default => !case.order.is_empty(),
                    Frame::Explicit { start, end, .. } => !(*start == Bound::UnboundedPreceding && *end == Bound::UnboundedFollowing),
                }
        });
        let nt = structure && partial_frame && compared >= 2;
        for e in &case.exprs {
            labels.push(format!("fn={}", e.func.name()));
            if e.ignore_nulls {
                labels.push("ignore-nulls".into());
            }
            if e.filter {
                labels.push("filter".into());
            }
            match &e.frame {
                Frame::Default => labels.push("frame=default".into()),
                Frame::Explicit { units, start, end } => {
                    labels.push(format!("units={units:?}"));
                    let k = |b: &Bound| match b {
                        Bound::UnboundedPreceding => "UP",
                        Bound::Preceding(_) => "P",
                        Bound::CurrentRow => "CR",
                        Bound::Following(_) => "F",
                        Bound::UnboundedFollowing => "UF",
                    };
                    labels.push(format!("bounds={}..{}", k(start), k(end)));
                    if e.func.is_aggregate() && *start != Bound::UnboundedPreceding {
                        labels.push("sliding-aggregate".into());
                    }
                }
            }
            if e.has_range_offset() {
                labels.push(format!("range-offset-on-{:?}{}", case.order[0].col, if case.order[0].desc { "-desc" } else { "" }));
            }
        }
        labels.push(format!("parts={}", case.nparts));
        labels.push(format!("order-keys={}", case.order.len()));
        labels.push(format!("exprs={}", case.exprs.len()));
        labels.push(format!("batch={}", case.batch));
        if total {
            labels.push("total-order".into());
        }
        if exp.max_peer_group >= 2 {
            labels.push("ties".into());
        }
        if exp.partitions >= 2 {
            labels.push("multi-partition".into());
        }
        if exp.empty_frames > 0 {
            labels.push("empty-frame".into());
        }
        if exp.shrinking_starts > 0 {
            labels.push("frame-start-advances".into());
        }
        if case.empty_batches {
            labels.push("empty-batches".into());
        }
        if case.part_perm && case.nparts == 2 {
            labels.push("partition-order-permuted".into());
        }
        let nulls_in_order = case.order.iter().any(|k| rows.iter().any(|r| r.cols[ocol_index(k.col)].is_null()));
        if nulls_in_order {
            labels.push("null-order-key".into());
        }
        if rows.iter().any(|r| part_cols(case).iter().any(|i| r.cols[*i].is_null())) {
            labels.push("null-partition-key".into());
        }
        if max_out_batches >= 2 {
            labels.push("streamed-output(>=2 batches)".into());
        }
        labels.push(format!("executors={compared}"));
        if rows.is_empty() {
            labels.push("empty-input".into());
        }
        CaseResult::pass().nontrivial(nt).labels(labels)
    }
}
