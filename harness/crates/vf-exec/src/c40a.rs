//! C40 part (a) — file caches behave as LRU maps within their byte budget and honour validity rules.
//!
//! Four benches share one interpreter and one model:
//!   * `Generic`  — `DefaultCache<HKey, HVal>` with harness key/value types whose `size()` is chosen
//!     by the case (key sizes incl. 0, value sizes incl. 0 and oversized), injected `TimeProvider`;
//!   * `FileMeta` — the file-embedded-metadata cache (`Path -> CachedFileMetadataEntry`),
//!   * `Stats`    — the file-statistics cache (`TableScopedPath -> CachedFileMetadata`),
//!   * `ListFiles`— the list-files cache (`TableScopedPath -> CachedFileList`, TTL),
//!     the last three obtained from `CacheManager::try_new(&CacheManagerConfig)`, either created by the
//!     manager or supplied by the harness with a *different* initial limit / TTL (so the manager's
//!     "update limit / ttl of a supplied cache" path is covered) and an injected clock.
//! History: <= 40 (thorough 120) ops over 6 keys (two per table t0, t1, and two table-less):
//! put, get, contains_key, remove, clear, update_cache_limit, update_cache_ttl, advance clock,
//! drop_table_entries, `Touch` (the file behind a key changes: size / mtime forwards or backwards by
//! 1 ms..1 s / only its e_tag) and `Lookup` = the callers' pattern (`get`, then `is_valid_for(current
//! ObjectMeta [, schema fingerprint])`, on miss/invalid compute a fresh value and `put` it — as in
//! catalog-listing/src/table.rs, datasource-parquet/src/metadata.rs, datasource/src/url.rs).
//!
//! Oracle: ordered-LRU model with sizes, TTL stamps and hit counters (recency rules read from the
//! code: `get` and `put` refresh recency — `get` even when it then finds the entry expired —,
//! `contains_key` peeks; a zero-size value is rejected and leaves any previous entry in place; an
//! oversized value is rejected and removes the previous entry; TTL is stamped at insertion with the
//! TTL current at that time, expired means `now > stamp`, checked lazily by get/contains_key).
//! After EVERY op: return values equal (values carry a unique tag and the `ObjectMeta` they were
//! computed for); `len`, `is_empty`, `cache_limit`, `cache_ttl` equal; `list_entries()` = model (key
//! set, value tag, `size_bytes`, `hits`, `expires`); `memory_used()` = Σ (key size + value size) of
//! the listed entries = model and <= limit (where the concrete `DefaultCache` handle is available;
//! otherwise Σ over `list_entries()` <= `cache_limit()`); eviction victims are therefore exactly the
//! least-recently-used entries. Validity: on every `Lookup` hit `is_valid_for` must be true exactly
//! when size and last-modified (and, for statistics, the schema fingerprint — by value, not by `Arc`
//! identity) equal those the value was cached for — an e_tag-only change keeps it valid, any size or
//! mtime change (even 1 ms, even backwards) invalidates.
//!
//! Non-trivial: >= 1 LRU eviction, >= 1 overwrite of a live key with a different total size, and >= 1
//! limit change.
//!
//! Deviations from DESIGN.md: `hits` is compared as well (public field of `CacheEntryInfo`, pinned by
//! the crate's own tests: reset on overwrite, +1 per successful get); a manager-created list-files
//! cache has no injectable clock, so for it TTL ops are skipped (TTL stays `None`); the statistics
//! cache with limit 0 is checked to be disabled (`None`) and the case ends.
//!
//! Sensitivity probes (tools/mkpatch + tools/mutrun, `./check C40 quick`, all on datafusion/execution/src/cache/):
//!   1. default_cache.rs `put`: overwrite does not subtract the old value size (DESIGN probe)
//!      -> VIOLATION after 4 cases: "after Put{k:1,vs:1} (twice): memory_used() = 2, Σ of entries = 1".
//!   2. default_cache.rs `update_cache_limit` without `evict_entries()` (DESIGN probe)
//!      -> VIOLATION after 1 case: "after Limit{q:0}: len() = 1, model has 0 entries".
//!   3. cache_manager.rs `CachedFileMetadataEntry::is_valid_for` ignores `last_modified`
//!      -> VIOLATION after 13 cases: "is_valid_for accepted a value cached for (size 101, mtime 0) although the file now is (size 101, mtime 1000)".
//!   4. default_cache.rs `contains_key` uses `lru_queue.get` (refreshes recency) instead of `peek`
//!      -> VIOLATION after 21 cases: wrong eviction victim ("key 2 missing from list_entries(); model keys [2]").
//!   5. default_cache.rs `contains_key`: expiry test `now >= exp` instead of `now > exp`
//!      -> VIOLATION after 1296 cases: "after Advance{100}, Contains{k:0}: contains_key returned false, model true".
use chrono::{DateTime, TimeZone, Utc};
use datafusion_common::arrow::datatypes::{DataType, Field, Schema};
use datafusion_common::instant::Instant;
use datafusion_common::stats::Precision;
use datafusion_common::{HashMap, Statistics, TableReference};
use datafusion_execution::cache::cache_manager::{CacheManager, CacheManagerConfig, CachedFileList, CachedFileMetadata, CachedFileMetadataEntry, FileMetadata};
use datafusion_execution::cache::default_cache::{DefaultCache, TimeProvider};
use datafusion_execution::cache::{Cache, CacheKey, CacheValue, SchemaFingerprint, TableScopedPath};
use object_store::ObjectMeta;
use object_store::path::Path;
use proptest::prelude::*;
use serde::{Deserialize, Serialize};
use std::collections::BTreeSet;
use std::sync::Arc;
use std::sync::atomic::{AtomicU64, Ordering};
use std::time::Duration;
use vf_kit::engine::*;

pub struct C40a;

#[derive(Clone, Copy, Debug, Serialize, Deserialize, PartialEq, Eq)]
pub enum BenchKind {
    Generic,
    FileMeta,
    Stats,
    ListFiles,
}

#[derive(Clone, Debug, Serialize, Deserialize)]
pub enum Op {
    /// insert a value computed for the key's current file state; `vs` = value size spec
    Put { k: u8, vs: u16 },
    Get { k: u8 },
    Contains { k: u8 },
    Remove { k: u8 },
    Clear,
    /// update_cache_limit(unit * q / 4)
    Limit { q: u16 },
    Ttl { ms: Option<u32> },
    Advance { ms: u32 },
    DropTable { t: u8 },
    /// the file behind key k changes: 0 size+1, 1 mtime+1s, 2 mtime+1ms, 3 size and mtime, 4 e_tag only, 5 mtime-1s
    Touch { k: u8, how: u8 },
    /// caller pattern: get, validate against the current file state / fingerprint `fp`, else compute + put
    Lookup { k: u8, vs: u16, fp: u8 },
}

#[derive(Clone, Debug, Serialize, Deserialize)]
pub struct Case {
    pub bench: BenchKind,
    /// concrete caches: harness supplies its own DefaultCache (with injected clock) to the manager config
    pub supplied: bool,
    /// initial limit = unit * limit_q / 4
    pub limit_q: u16,
    pub ttl_ms: Option<u32>,
    /// TTL of a supplied list-files cache before the manager sees it
    pub own_ttl_ms: Option<u32>,
    /// Generic bench: size() of each of the 6 keys
    pub key_sizes: Vec<usize>,
    pub ops: Vec<Op>,
}

pub const NKEYS: u8 = 6;

// ---------------------------------------------------------------------------------------------
// clock

struct Clock {
    base: Instant,
    off_ms: AtomicU64,
}
impl Clock {
    fn new() -> Arc<Self> {
        // the base instant is opaque: only offsets from it (all from the case) reach the verdict
        Arc::new(Clock { base: Instant::now(), off_ms: AtomicU64::new(0) })
    }
    fn at(&self, ms: u64) -> Instant {
        self.base + Duration::from_millis(ms)
    }
}
impl TimeProvider for Clock {
    fn now(&self) -> Instant {
        self.at(self.off_ms.load(Ordering::SeqCst))
    }
}

// ---------------------------------------------------------------------------------------------
// file state and benches

#[derive(Clone, Debug, PartialEq, Eq)]
struct FileState {
    size: u64,
    mtime_ms: i64,
    etag: u32,
}

fn table_of(k: u8) -> Option<TableReference> {
    match k / 2 {
        0 => Some(TableReference::bare("t0")),
        1 => Some(TableReference::partial("s", "t1")),
        _ => None,
    }
}
fn table_ref(t: u8) -> TableReference {
    match t {
        0 => TableReference::bare("t0"),
        1 => TableReference::partial("s", "t1"),
        _ => TableReference::bare("t2"),
    }
}
fn path_of(k: u8) -> Path {
    // different lengths so that key sizes differ
    match k {
        0 => Path::from("a"),
        1 => Path::from("dir/b.parquet"),
        2 => Path::from("c"),
        3 => Path::from("some/longer/dir/d.parquet"),
        4 => Path::from("e.csv"),
        _ => Path::from("x/y/z/f"),
    }
}
fn mtime(ms: i64) -> DateTime<Utc> {
    Utc.timestamp_millis_opt(1_700_000_000_000 + ms).single().expect("valid timestamp")
}
fn object_meta(k: u8, f: &FileState) -> ObjectMeta {
    ObjectMeta { location: path_of(k), last_modified: mtime(f.mtime_ms), size: f.size, e_tag: if f.etag == 0 { None } else { Some(format!("e{}", f.etag)) }, version: None }
}

/// what a cached value says about itself: (tag, file size, file mtime, fingerprint id)
type Desc = (u32, u64, i64, u8);

trait Bench {
    type K: CacheKey;
    type V: CacheValue;
    fn key(&self, k: u8) -> Self::K;
    fn value(&self, k: u8, vs: u16, tag: u32, f: &FileState, fp: u8) -> Self::V;
    fn desc(&self, v: &Self::V) -> Desc;
    /// Some(is_valid_for(..)) for caches with a validity rule
    fn valid(&self, _v: &Self::V, _k: u8, _f: &FileState, _fp: u8) -> Option<bool> {
        None
    }
    fn has_fp(&self) -> bool {
        false
    }
}

// -- generic
#[derive(Clone, Debug, PartialEq, Eq, Hash)]
struct HKey {
    id: u8,
    size: usize,
    table: Option<TableReference>,
}
impl CacheKey for HKey {
    fn size(&self) -> usize {
        self.size
    }
    fn table_ref(&self) -> Option<&TableReference> {
        self.table.as_ref()
    }
}
#[derive(Clone, Debug, PartialEq, Eq)]
struct HVal {
    tag: u32,
    size: usize,
    fsize: u64,
    fmtime: i64,
}
impl CacheValue for HVal {
    fn size(&self) -> usize {
        self.size
    }
}
struct GenericBench {
    key_sizes: Vec<usize>,
}
impl Bench for GenericBench {
    type K = HKey;
    type V = HVal;
    fn key(&self, k: u8) -> HKey {
        HKey { id: k, size: self.key_sizes.get(k as usize).copied().unwrap_or(1), table: table_of(k) }
    }
    fn value(&self, _k: u8, vs: u16, tag: u32, f: &FileState, _fp: u8) -> HVal {
        HVal { tag, size: vs as usize, fsize: f.size, fmtime: f.mtime_ms }
    }
    fn desc(&self, v: &HVal) -> Desc {
        (v.tag, v.fsize, v.fmtime, 0)
    }
}

// -- file metadata cache
struct HMeta {
    tag: u32,
    size: usize,
}
impl FileMetadata for HMeta {
    fn as_any(&self) -> &dyn std::any::Any {
        self
    }
    fn memory_size(&self) -> usize {
        self.size
    }
    fn extra_info(&self) -> HashMap<String, String> {
        HashMap::new()
    }
}
struct FileMetaBench;
impl Bench for FileMetaBench {
    type K = Path;
    type V = CachedFileMetadataEntry;
    fn key(&self, k: u8) -> Path {
        path_of(k)
    }
    fn value(&self, k: u8, vs: u16, tag: u32, f: &FileState, _fp: u8) -> CachedFileMetadataEntry {
        CachedFileMetadataEntry::new(object_meta(k, f), Arc::new(HMeta { tag, size: vs as usize * 4 }))
    }
    fn desc(&self, v: &CachedFileMetadataEntry) -> Desc {
        let tag = v.file_metadata.as_any().downcast_ref::<HMeta>().map(|m| m.tag).unwrap_or(u32::MAX);
        (tag, v.meta.size, v.meta.last_modified.timestamp_millis() - 1_700_000_000_000, 0)
    }
    fn valid(&self, v: &CachedFileMetadataEntry, k: u8, f: &FileState, _fp: u8) -> Option<bool> {
        Some(v.is_valid_for(&object_meta(k, f)))
    }
}

// -- statistics cache
struct StatsBench {
    /// fp 0 and 1: equal fingerprints in different Arcs; fp 2: another schema
    fps: [Arc<SchemaFingerprint>; 3],
}
impl StatsBench {
    fn new() -> Self {
        let a = Schema::new(vec![Field::new("a", DataType::Int32, false)]);
        let b = Schema::new(vec![Field::new("a", DataType::Int32, true)]);
        StatsBench { fps: [Arc::new(SchemaFingerprint::from_schema(&a)), Arc::new(SchemaFingerprint::from_schema(&a)), Arc::new(SchemaFingerprint::from_schema(&b))] }
    }
    fn fp_id(&self, f: &Arc<SchemaFingerprint>) -> u8 {
        // identify by Arc identity (each value was built from one of ours)
        for (i, x) in self.fps.iter().enumerate() {
            if Arc::ptr_eq(x, f) {
                return i as u8;
            }
        }
        u8::MAX
    }
}
fn fp_class(fp: u8) -> u8 {
    if fp >= 2 { 1 } else { 0 }
}
impl Bench for StatsBench {
    type K = TableScopedPath;
    type V = CachedFileMetadata;
    fn key(&self, k: u8) -> TableScopedPath {
        TableScopedPath { table: table_of(k), path: path_of(k) }
    }
    fn value(&self, k: u8, vs: u16, tag: u32, f: &FileState, fp: u8) -> CachedFileMetadata {
        let ncols = (vs as usize).min(6);
        let schema = Schema::new((0..ncols).map(|i| Field::new(format!("c{i}"), DataType::Int64, true)).collect::<Vec<_>>());
        let mut st = Statistics::new_unknown(&schema);
        st.num_rows = Precision::Exact(tag as usize);
        CachedFileMetadata::new(object_meta(k, f), Arc::clone(&self.fps[(fp as usize).min(2)]), Arc::new(st), None)
    }
    fn desc(&self, v: &CachedFileMetadata) -> Desc {
        let tag = match v.statistics.num_rows {
            Precision::Exact(n) => n as u32,
            _ => u32::MAX,
        };
        (tag, v.meta.size, v.meta.last_modified.timestamp_millis() - 1_700_000_000_000, self.fp_id(&v.schema_fingerprint))
    }
    fn valid(&self, v: &CachedFileMetadata, k: u8, f: &FileState, fp: u8) -> Option<bool> {
        Some(v.is_valid_for(&object_meta(k, f), &self.fps[(fp as usize).min(2)]))
    }
    fn has_fp(&self) -> bool {
        true
    }
}

// -- list files cache
struct ListBench;
impl Bench for ListBench {
    type K = TableScopedPath;
    type V = CachedFileList;
    fn key(&self, k: u8) -> TableScopedPath {
        TableScopedPath { table: table_of(k), path: path_of(k) }
    }
    fn value(&self, k: u8, vs: u16, tag: u32, f: &FileState, _fp: u8) -> CachedFileList {
        let n = (vs as usize).min(5);
        let mut files = Vec::with_capacity(n);
        for i in 0..n {
            let mut m = object_meta(k, f);
            m.location = Path::from(format!("{}/part-{i}", path_of(k)));
            if i == 0 {
                m.version = Some(tag.to_string());
            }
            files.push(m);
        }
        CachedFileList::new(files)
    }
    fn desc(&self, v: &CachedFileList) -> Desc {
        match v.files.first() {
            Some(m) => (m.version.as_deref().and_then(|s| s.parse().ok()).unwrap_or(u32::MAX), m.size, m.last_modified.timestamp_millis() - 1_700_000_000_000, 0),
            None => (u32::MAX, 0, 0, 0),
        }
    }
}

// ---------------------------------------------------------------------------------------------
// model

#[derive(Clone, Debug)]
struct Ent {
    k: u8,
    desc: Desc,
    ksize: usize,
    vsize: usize,
    expires: Option<u64>,
    hits: usize,
}

struct Model {
    /// LRU first, MRU last
    ents: Vec<Ent>,
    limit: usize,
    ttl: Option<u64>,
    now: u64,
    evictions: usize,
    overwrites_diff: usize,
    limit_changes: usize,
    expirations: usize,
}

impl Model {
    fn used(&self) -> usize {
        self.ents.iter().map(|e| e.ksize + e.vsize).sum()
    }
    fn pos(&self, k: u8) -> Option<usize> {
        self.ents.iter().position(|e| e.k == k)
    }
    fn remove(&mut self, k: u8) -> Option<Ent> {
        self.pos(k).map(|i| self.ents.remove(i))
    }
    fn evict(&mut self) {
        while self.used() > self.limit && !self.ents.is_empty() {
            self.ents.remove(0);
            self.evictions += 1;
        }
    }
    fn expired(&self, e: &Ent) -> bool {
        matches!(e.expires, Some(x) if self.now > x)
    }
    fn get(&mut self, k: u8) -> Option<Desc> {
        let i = self.pos(k)?;
        let e = self.ents.remove(i);
        if self.expired(&e) {
            self.expirations += 1;
            return None;
        }
        let mut e = e;
        e.hits += 1;
        let d = e.desc;
        self.ents.push(e);
        Some(d)
    }
    fn contains(&mut self, k: u8) -> bool {
        let Some(i) = self.pos(k) else { return false };
        if self.expired(&self.ents[i]) {
            self.ents.remove(i);
            self.expirations += 1;
            false
        } else {
            true
        }
    }
    fn put(&mut self, k: u8, desc: Desc, ksize: usize, vsize: usize) -> Option<Desc> {
        if vsize == 0 {
            return None;
        }
        if ksize + vsize > self.limit {
            return self.remove(k).map(|e| e.desc);
        }
        let old = self.remove(k);
        if let Some(o) = &old {
            if o.vsize != vsize {
                self.overwrites_diff += 1;
            }
        }
        self.ents.push(Ent { k, desc, ksize, vsize, expires: self.ttl.map(|t| self.now + t), hits: 0 });
        self.evict();
        old.map(|e| e.desc)
    }
}

struct Rig<B: Bench> {
    bench: B,
    cache: Arc<dyn Cache<B::K, B::V>>,
    mem_used: Option<Box<dyn Fn() -> usize>>,
    clock: Option<Arc<Clock>>,
    unit: usize,
}

fn compare<B: Bench>(rig: &Rig<B>, m: &Model) -> Result<(), String> {
    let c = &rig.cache;
    let len = c.len();
    if len != m.ents.len() {
        return Err(format!("len() = {len}, model has {} entries {:?}", m.ents.len(), m.ents.iter().map(|e| e.k).collect::<Vec<_>>()));
    }
    if c.is_empty() != m.ents.is_empty() {
        return Err(format!("is_empty() = {} with len {len}", c.is_empty()));
    }
    if c.cache_limit() != m.limit {
        return Err(format!("cache_limit() = {}, model {}", c.cache_limit(), m.limit));
    }
    let ttl = m.ttl.map(Duration::from_millis);
    if c.cache_ttl() != ttl {
        return Err(format!("cache_ttl() = {:?}, model {ttl:?}", c.cache_ttl()));
    }
    let listed = c.list_entries();
    if listed.len() != m.ents.len() {
        return Err(format!("list_entries() has {} entries, model {}", listed.len(), m.ents.len()));
    }
    let mut listed_sum = 0usize;
    for e in &m.ents {
        let key = rig.bench.key(e.k);
        let Some(info) = listed.get(&key) else {
            return Err(format!("key {} missing from list_entries(); model keys (LRU first) {:?}", e.k, m.ents.iter().map(|e| e.k).collect::<Vec<_>>()));
        };
        let d = rig.bench.desc(&info.value);
        if d != e.desc {
            return Err(format!("key {}: cached value (tag,size,mtime,fp) = {d:?}, model {:?}", e.k, e.desc));
        }
        if info.size_bytes != e.vsize || info.value.size() != e.vsize {
            return Err(format!("key {}: size_bytes = {}, value.size() = {}, model {}", e.k, info.size_bytes, info.value.size(), e.vsize));
        }
        if info.hits != e.hits {
            return Err(format!("key {}: hits = {}, model {}", e.k, info.hits, e.hits));
        }
        match (&rig.clock, info.expires, e.expires) {
            (_, None, None) => {}
            (Some(clock), Some(got), Some(want)) if got == clock.at(want) => {}
            (None, Some(_), Some(_)) => {}
            (_, got, want) => return Err(format!("key {}: expires = {got:?}, model = base + {want:?} ms", e.k)),
        }
        listed_sum += key.size() + info.size_bytes;
    }
    let used = m.used();
    if listed_sum != used {
        return Err(format!("Σ(key size + size_bytes) over list_entries() = {listed_sum}, model {used}"));
    }
    if listed_sum > c.cache_limit() {
        return Err(format!("accounted size {listed_sum} exceeds the limit {}", c.cache_limit()));
    }
    if let Some(mu) = &rig.mem_used {
        let got = mu();
        if got != used {
            return Err(format!("memory_used() = {got}, Σ of entries = {used}"));
        }
    }
    Ok(())
}

fn lim(unit: usize, q: u16) -> usize {
    unit * q as usize / 4
}

fn run_history<B: Bench>(rig: Rig<B>, case: &Case, init_limit: usize, init_ttl: Option<u64>, mut labels: BTreeSet<String>) -> CaseResult {
    let mut m = Model { ents: vec![], limit: init_limit, ttl: init_ttl, now: 0, evictions: 0, overwrites_diff: 0, limit_changes: 0, expirations: 0 };
    let mut files: Vec<FileState> = (0..NKEYS).map(|k| FileState { size: 100 + k as u64, mtime_ms: 0, etag: 0 }).collect();
    let mut tag = 0u32;
    let mut stale_rejected = 0usize;
    let mut hits_valid = 0usize;
    macro_rules! fail {
        ($step:expr, $op:expr, $msg:expr) => {
            return CaseResult::violation(format!("{:?}{} limit={} ttl={:?}: after step {} {:?}: {}", case.bench, if case.supplied { "(supplied)" } else { "" }, init_limit, init_ttl, $step, $op, $msg)).labels(labels)
        };
    }
    if let Err(e) = compare(&rig, &m) {
        fail!("init", "-", e);
    }
    for (step, op) in case.ops.iter().enumerate() {
        match op {
            Op::Put { k, vs } => {
                let k = (*k).min(NKEYS - 1);
                tag += 1;
                let f = &files[k as usize];
                let key = rig.bench.key(k);
                let v = rig.bench.value(k, *vs, tag, f, 0);
                let (ks, vsz) = (key.size(), v.size());
                let d = rig.bench.desc(&v);
                let before = (m.evictions, m.ents.len());
                let want = m.put(k, d, ks, vsz);
                let got = rig.cache.put(&key, v).map(|o| rig.bench.desc(&o));
                if got != want {
                    fail!(step, op, format!("put returned {got:?}, model {want:?}"));
                }
                if vsz == 0 {
                    labels.insert("put:zero-size".into());
                } else if ks + vsz > m.limit {
                    labels.insert(if want.is_some() { "put:oversize-removes-old" } else { "put:oversize" }.into());
                } else if want.is_some() {
                    labels.insert("put:overwrite".into());
                } else {
                    labels.insert("put:new".into());
                }
                if m.evictions > before.0 {
                    labels.insert(if m.evictions - before.0 > 1 { "evict:multi" } else { "evict:one" }.into());
                }
            }
            Op::Get { k } => {
                let k = (*k).min(NKEYS - 1);
                let exp0 = m.expirations;
                let want = m.get(k);
                let got = rig.cache.get(&rig.bench.key(k)).map(|o| rig.bench.desc(&o));
                if got != want {
                    fail!(step, op, format!("get returned {got:?}, model {want:?}"));
                }
                labels.insert(if want.is_some() { "get:hit" } else if m.expirations > exp0 { "get:expired" } else { "get:miss" }.into());
            }
            Op::Contains { k } => {
                let k = (*k).min(NKEYS - 1);
                let exp0 = m.expirations;
                let want = m.contains(k);
                let got = rig.cache.contains_key(&rig.bench.key(k));
                if got != want {
                    fail!(step, op, format!("contains_key returned {got}, model {want}"));
                }
                labels.insert(if want { "contains:yes" } else if m.expirations > exp0 { "contains:expired" } else { "contains:no" }.into());
            }
            Op::Remove { k } => {
                let k = (*k).min(NKEYS - 1);
                let want = m.remove(k).map(|e| e.desc);
                let got = rig.cache.remove(&rig.bench.key(k)).map(|o| rig.bench.desc(&o));
                if got != want {
                    fail!(step, op, format!("remove returned {got:?}, model {want:?}"));
                }
                labels.insert(if want.is_some() { "remove:hit" } else { "remove:miss" }.into());
            }
            Op::Clear => {
                m.ents.clear();
                rig.cache.clear();
                labels.insert("clear".into());
            }
            Op::Limit { q } => {
                let l = lim(rig.unit, *q);
                let before = m.evictions;
                if l != m.limit {
                    m.limit_changes += 1;
                }
                m.limit = l;
                m.evict();
                rig.cache.update_cache_limit(l);
                labels.insert(if m.evictions > before { "limit:evicts" } else { "limit:no-evict" }.into());
            }
            Op::Ttl { ms } => {
                if rig.clock.is_none() {
                    labels.insert("skip:ttl-without-clock".into());
                    continue;
                }
                m.ttl = ms.map(|x| x as u64);
                rig.cache.update_cache_ttl(ms.map(|x| Duration::from_millis(x as u64)));
                labels.insert(if ms.is_some() { "ttl:set" } else { "ttl:unset" }.into());
            }
            Op::Advance { ms } => {
                let Some(clock) = &rig.clock else {
                    labels.insert("skip:advance-without-clock".into());
                    continue;
                };
                m.now += *ms as u64;
                clock.off_ms.store(m.now, Ordering::SeqCst);
                labels.insert("advance".into());
            }
            Op::DropTable { t } => {
                let tr = table_ref(*t);
                let before = m.ents.len();
                m.ents.retain(|e| table_of(e.k).as_ref() != Some(&tr) || rig.bench.key(e.k).table_ref().is_none());
                if let Err(e) = rig.cache.drop_table_entries(&tr) {
                    fail!(step, op, format!("drop_table_entries failed: {e}"));
                }
                labels.insert(if m.ents.len() < before { "drop_table:removes" } else { "drop_table:none" }.into());
            }
            Op::Touch { k, how } => {
                let k = (*k).min(NKEYS - 1);
                let f = &mut files[k as usize];
                match how {
                    0 => f.size += 1,
                    1 => f.mtime_ms += 1000,
                    2 => f.mtime_ms += 1,
                    3 => {
                        f.size += 7;
                        f.mtime_ms += 2500;
                    }
                    4 => f.etag += 1,
                    _ => f.mtime_ms -= 1000,
                }
                labels.insert(format!("touch:{}", (*how).min(5)));
                continue; // nothing to compare: the cache was not touched
            }
            Op::Lookup { k, vs, fp } => {
                let k = (*k).min(NKEYS - 1);
                let fp = if rig.bench.has_fp() { (*fp).min(2) } else { 0 };
                let f = files[k as usize].clone();
                let key = rig.bench.key(k);
                let want = m.get(k);
                let got_v = rig.cache.get(&key);
                let got = got_v.as_ref().map(|o| rig.bench.desc(o));
                if got != want {
                    fail!(step, op, format!("lookup: get returned {got:?}, model {want:?}"));
                }
                let mut usable = false;
                if let (Some(v), Some(d)) = (&got_v, want) {
                    match rig.bench.valid(v, k, &f, fp) {
                        None => usable = true,
                        Some(real) => {
                            let unchanged = d.1 == f.size && d.2 == f.mtime_ms && fp_class(d.3) == fp_class(fp);
                            if real && !unchanged {
                                fail!(step, op, format!("is_valid_for accepted a value cached for (size {}, mtime {}, fp {}) although the file now is (size {}, mtime {}, fp {})", d.1, d.2, d.3, f.size, f.mtime_ms, fp));
                            }
                            if !real && unchanged {
                                fail!(step, op, format!("is_valid_for rejected a value cached for (size {}, mtime {}, fp {}) although size, last-modified and schema are unchanged (file etag {})", d.1, d.2, d.3, f.etag));
                            }
                            usable = real;
                            if real {
                                hits_valid += 1;
                                if d.3 != fp {
                                    labels.insert("lookup:valid-other-arc-fingerprint".into());
                                }
                            } else {
                                stale_rejected += 1;
                                labels.insert(if fp_class(d.3) != fp_class(fp) { "lookup:stale-schema" } else if d.1 != f.size { "lookup:stale-size" } else { "lookup:stale-mtime" }.into());
                            }
                        }
                    }
                }
                if usable {
                    labels.insert("lookup:hit".into());
                } else {
                    tag += 1;
                    let v = rig.bench.value(k, *vs, tag, &f, fp);
                    let (ks, vsz) = (key.size(), v.size());
                    let d = rig.bench.desc(&v);
                    let want = m.put(k, d, ks, vsz);
                    let got = rig.cache.put(&key, v).map(|o| rig.bench.desc(&o));
                    if got != want {
                        fail!(step, op, format!("lookup: put returned {got:?}, model {want:?}"));
                    }
                    labels.insert("lookup:fill".into());
                }
            }
        }
        if let Err(e) = compare(&rig, &m) {
            fail!(step, op, e);
        }
    }
    if m.evictions > 0 {
        labels.insert("has-eviction".into());
    }
    if m.overwrites_diff > 0 {
        labels.insert("has-overwrite-diff-size".into());
    }
    if m.limit_changes > 0 {
        labels.insert("has-limit-change".into());
    }
    if m.expirations > 0 {
        labels.insert("has-expiration".into());
    }
    if stale_rejected > 0 {
        labels.insert("has-stale-rejected".into());
    }
    if hits_valid > 0 {
        labels.insert("has-valid-hit".into());
    }
    CaseResult::pass().nontrivial(m.evictions > 0 && m.overwrites_diff > 0 && m.limit_changes > 0).labels(labels)
}

// ---------------------------------------------------------------------------------------------
// strategies

fn op_strategy(bench: BenchKind) -> BoxedStrategy<Op> {
    // a few hot keys so that hits, overwrites and stale lookups are common
    let k = prop::sample::select(vec![0u8, 0, 0, 1, 1, 2, 2, 3, 4, 4, 5]);
    let vs: BoxedStrategy<u16> = match bench {
        BenchKind::Generic => prop_oneof![3 => prop::sample::select(vec![0u16, 1, 2, 3, 4, 6, 8, 12, 16, 24, 49]), 3 => 0u16..=12].boxed(),
        BenchKind::FileMeta => prop_oneof![3 => prop::sample::select(vec![0u16, 1, 2, 5, 10, 20, 40]), 3 => 0u16..=10].boxed(),
        BenchKind::Stats => prop_oneof![3 => 0u16..=2, 1 => 0u16..=6].boxed(),
        BenchKind::ListFiles => prop_oneof![3 => 0u16..=2, 1 => 0u16..=5].boxed(),
    };
    let ms = prop::sample::select(vec![0u32, 1, 2, 9, 10, 11, 50, 99, 100, 101, 500, 1000]);
    let ttl = prop::option::weighted(0.8, prop::sample::select(vec![1u32, 10, 100, 1000]));
    prop_oneof![
        20 => (k.clone(), vs.clone()).prop_map(|(k, vs)| Op::Put { k, vs }),
        12 => k.clone().prop_map(|k| Op::Get { k }),
        6 => k.clone().prop_map(|k| Op::Contains { k }),
        4 => k.clone().prop_map(|k| Op::Remove { k }),
        1 => Just(Op::Clear),
        5 => (0u16..=24).prop_map(|q| Op::Limit { q }),
        2 => ttl.prop_map(|ms| Op::Ttl { ms }),
        8 => ms.prop_map(|ms| Op::Advance { ms }),
        2 => (0u8..3).prop_map(|t| Op::DropTable { t }),
        6 => (k.clone(), 0u8..6).prop_map(|(k, how)| Op::Touch { k, how }),
        14 => (k, vs, prop_oneof![3 => Just(0u8), 1 => Just(1u8), 1 => Just(2u8)]).prop_map(|(k, vs, fp)| Op::Lookup { k, vs, fp }),
    ]
    .boxed()
}

fn case_strategy(max_ops: usize) -> BoxedStrategy<Case> {
    let bench = prop_oneof![4 => Just(BenchKind::Generic), 2 => Just(BenchKind::FileMeta), 2 => Just(BenchKind::Stats), 2 => Just(BenchKind::ListFiles)];
    let ttl = || prop::option::weighted(0.5, prop::sample::select(vec![1u32, 10, 100, 1000]));
    let key_sizes = prop::collection::vec(prop::sample::select(vec![0usize, 1, 2, 4, 8]), NKEYS as usize);
    (bench, any::<bool>(), prop_oneof![1 => Just(0u16), 12 => 1u16..=24], ttl(), ttl(), key_sizes)
        .prop_flat_map(move |(bench, supplied, limit_q, ttl_ms, own_ttl_ms, key_sizes)| {
            prop::collection::vec(op_strategy(bench), 1..=max_ops).prop_map(move |ops| Case { bench, supplied, limit_q, ttl_ms, own_ttl_ms, key_sizes: key_sizes.clone(), ops })
        })
        .boxed()
}

fn fs0() -> FileState {
    FileState { size: 100, mtime_ms: 0, etag: 0 }
}

impl Property for C40a {
    type Case = Case;
    fn id(&self) -> &'static str {
        "C40"
    }
    fn sub(&self) -> &'static str {
        "c40a"
    }
    fn strategy(&self, tier: Tier) -> BoxedStrategy<Case> {
        case_strategy(tier.pick(40, 120))
    }
    fn budget(&self, tier: Tier) -> Budget {
        Budget::new(tier.pick(300_000, 5_000_000), tier.pick(8, 16)).min_nontrivial(tier.pick(20_000, 300_000))
    }
    fn rule(&self) -> String {
        "history of 1..=40 (thorough 120) put/get/contains_key/remove/clear/update_cache_limit/update_cache_ttl/advance-clock/drop_table_entries/touch-file/lookup ops over 6 keys on \
         DefaultCache with harness key/value types, or on the file-metadata / file-statistics / list-files caches obtained from CacheManager (manager-created or harness-supplied); \
         ordered-LRU model with sizes, TTL stamps and hits compared after every op; non-trivial = at least one LRU eviction, one overwrite with a different size and one limit change; distinct by case JSON"
            .into()
    }
    fn assumptions(&self) -> Vec<String> {
        vec![
            "recency/expiry details follow default_cache.rs and lru_queue.rs rustdoc: get and put refresh, contains_key peeks, zero-size values are rejected without touching the old entry".into(),
            "hit counters (CacheEntryInfo::hits) are part of the compared state".into(),
            "equal keys report equal sizes (the CacheKey contract the accounting relies on)".into(),
            "the clock base is Instant::now(); only case-determined offsets from it are compared".into(),
        ]
    }
    fn run(&self, case: &Case) -> CaseResult {
        let mut labels: BTreeSet<String> = BTreeSet::new();
        labels.insert(format!("bench={:?}", case.bench));
        let clock = Clock::new();
        let tp = || Arc::clone(&clock) as Arc<dyn TimeProvider>;
        let ttl_d = |ms: Option<u32>| ms.map(|x| Duration::from_millis(x as u64));
        match case.bench {
            BenchKind::Generic => {
                let unit = 8usize;
                let limit = lim(unit, case.limit_q);
                let cache = Arc::new(DefaultCache::<HKey, HVal>::new_with_ttl(limit, ttl_d(case.ttl_ms)).with_time_provider(tp()));
                let c2 = Arc::clone(&cache);
                let rig = Rig { bench: GenericBench { key_sizes: case.key_sizes.clone() }, cache, mem_used: Some(Box::new(move || c2.memory_used())), clock: Some(clock), unit };
                run_history(rig, case, limit, case.ttl_ms.map(|x| x as u64), labels)
            }
            BenchKind::FileMeta => {
                let bench = FileMetaBench;
                let unit = bench.key(1).size() + bench.value(1, 5, 0, &fs0(), 0).size();
                let limit = lim(unit, case.limit_q);
                let mut cfg = CacheManagerConfig::default().with_metadata_cache_limit(limit);
                let mut mem_used: Option<Box<dyn Fn() -> usize>> = None;
                let mut clk = None;
                if case.supplied {
                    labels.insert("supplied".into());
                    let own = Arc::new(DefaultCache::<Path, CachedFileMetadataEntry>::new(limit + 17).with_time_provider(tp()));
                    let o2 = Arc::clone(&own);
                    mem_used = Some(Box::new(move || o2.memory_used()));
                    clk = Some(clock);
                    cfg = cfg.with_file_metadata_cache(Some(own));
                } else {
                    labels.insert("manager-created".into());
                }
                let cm = match CacheManager::try_new(&cfg) {
                    Ok(cm) => cm,
                    Err(e) => return CaseResult::violation(format!("CacheManager::try_new failed: {e}")).labels(labels),
                };
                if cm.get_metadata_cache_limit() != limit {
                    return CaseResult::violation(format!("get_metadata_cache_limit() = {}, configured {limit}", cm.get_metadata_cache_limit())).labels(labels);
                }
                let rig = Rig { bench, cache: cm.get_file_metadata_cache(), mem_used, clock: clk, unit };
                run_history(rig, case, limit, None, labels)
            }
            BenchKind::Stats => {
                let bench = StatsBench::new();
                let unit = bench.key(1).size() + bench.value(1, 1, 0, &fs0(), 0).size();
                let limit = lim(unit, case.limit_q);
                let mut cfg = CacheManagerConfig::default().with_file_statistics_cache_limit(limit);
                let mut mem_used: Option<Box<dyn Fn() -> usize>> = None;
                let mut clk = None;
                if case.supplied {
                    labels.insert("supplied".into());
                    let own = Arc::new(DefaultCache::<TableScopedPath, CachedFileMetadata>::new(limit + 17).with_time_provider(tp()));
                    let o2 = Arc::clone(&own);
                    mem_used = Some(Box::new(move || o2.memory_used()));
                    clk = Some(clock);
                    cfg = cfg.with_file_statistics_cache(Some(own));
                } else {
                    labels.insert("manager-created".into());
                }
                let cm = match CacheManager::try_new(&cfg) {
                    Ok(cm) => cm,
                    Err(e) => return CaseResult::violation(format!("CacheManager::try_new failed: {e}")).labels(labels),
                };
                let Some(cache) = cm.get_file_statistic_cache() else {
                    if limit == 0 {
                        return CaseResult::pass().labels(labels).label("disabled-by-zero-limit");
                    }
                    return CaseResult::violation(format!("file statistics cache disabled although the configured limit is {limit}")).labels(labels);
                };
                if limit == 0 {
                    return CaseResult::violation("file statistics cache enabled although the configured limit is 0").labels(labels);
                }
                if cm.get_file_statistic_cache_limit() != limit {
                    return CaseResult::violation(format!("get_file_statistic_cache_limit() = {}, configured {limit}", cm.get_file_statistic_cache_limit())).labels(labels);
                }
                let rig = Rig { bench, cache, mem_used, clock: clk, unit };
                run_history(rig, case, limit, None, labels)
            }
            BenchKind::ListFiles => {
                let bench = ListBench;
                let unit = bench.key(1).size() + bench.value(1, 1, 0, &fs0(), 0).size();
                let limit = lim(unit, case.limit_q);
                let mut cfg = CacheManagerConfig::default().with_list_files_cache_limit(limit);
                let mut mem_used: Option<Box<dyn Fn() -> usize>> = None;
                let mut clk = None;
                let init_ttl;
                if case.supplied {
                    labels.insert("supplied".into());
                    cfg = cfg.with_list_files_cache_ttl(ttl_d(case.ttl_ms));
                    let own = Arc::new(DefaultCache::<TableScopedPath, CachedFileList>::new_with_ttl(limit + 17, ttl_d(case.own_ttl_ms)).with_time_provider(tp()));
                    let o2 = Arc::clone(&own);
                    mem_used = Some(Box::new(move || o2.memory_used()));
                    clk = Some(clock);
                    cfg = cfg.with_list_files_cache(Some(own));
                    // a TTL set in the config overrides, an unset one preserves the supplied cache's TTL
                    init_ttl = case.ttl_ms.or(case.own_ttl_ms).map(|x| x as u64);
                    labels.insert(match (case.ttl_ms, case.own_ttl_ms) {
                        (Some(_), _) => "list-ttl:from-config",
                        (None, Some(_)) => "list-ttl:preserved",
                        _ => "list-ttl:none",
                    }
                    .into());
                } else {
                    labels.insert("manager-created".into());
                    init_ttl = None; // no injectable clock: keep the manager-created cache TTL-free
                }
                let cm = match CacheManager::try_new(&cfg) {
                    Ok(cm) => cm,
                    Err(e) => return CaseResult::violation(format!("CacheManager::try_new failed: {e}")).labels(labels),
                };
                let Some(cache) = cm.get_list_files_cache() else {
                    if limit == 0 {
                        return CaseResult::pass().labels(labels).label("disabled-by-zero-limit");
                    }
                    return CaseResult::violation(format!("list-files cache disabled although the configured limit is {limit}")).labels(labels);
                };
                if limit == 0 {
                    return CaseResult::violation("list-files cache enabled although the configured limit is 0").labels(labels);
                }
                if cm.get_list_files_cache_limit() != limit || cm.get_list_files_cache_ttl() != ttl_d(init_ttl.map(|x| x as u32)) {
                    return CaseResult::violation(format!(
                        "list-files cache limit/ttl = {}/{:?}, expected {limit}/{:?}",
                        cm.get_list_files_cache_limit(),
                        cm.get_list_files_cache_ttl(),
                        init_ttl
                    ))
                    .labels(labels);
                }
                let rig = Rig { bench, cache, mem_used, clock: clk, unit };
                run_history(rig, case, limit, init_ttl, labels)
            }
        }
    }
}
