//! vf-exec: checks that only need `datafusion-execution` (C17 memory pools, C40a file caches).
mod c17;
mod c17c;
mod c40a;

fn main() {
    vf_kit::dispatch! {
        "c17" => c17::C17,
        "c17c" => c17c::C17c,
        "c40a" => c40a::C40a,
    }
}
