//! C17 (concurrent part) — memory pool accounting under interleavings of 2–3 threads sharing
//! `Arc`-ed reservations and the pool, driven by the harness-owned baton scheduler
//! (`vf_kit::sched`; hook H5 makes every atomic / mutex access of memory_pool/{mod,pool,
//! peak_recording}.rs a yield point).
//!
//! Domain: pool as in `c17` (base x wrapper, limit L); 1–3 consumers (spillable or not) with 1–3
//! shared reservations (a consumer may own several, created with `new_empty`), initial sizes
//! obtained with `try_grow` on the un-instrumented set-up thread; 2–3 actors, each a script of 1–4
//! ops out of the *fallible / saturating* API: `try_grow`, `grow`, `try_shrink`, `free`,
//! `try_resize` on a shared reservation, `Own` = register a fresh consumer, (try_)grow it, keep it to
//! the end of the script, drop it there (free + unregister under the baton), and `Fork` = `new_empty()`
//! / `split(0)` off a shared reservation, (try_)grow the private piece, drop it at the end. Never generated:
//! `shrink`/`split(n > 0)`/`resize` (documented to panic when the size moved underneath), `take` (`&mut`),
//! `reset_peak` (documented to be called between queries, not during one). The interleaving is a
//! `sched::Schedule` (<= 3 preemptions (thorough 4) placed by (gap, pick), forced choices).
//!
//! Oracle (at quiescence; every actor finished):
//!   * no actor panicked, the run did not deadlock (the pools only use short critical sections);
//!   * `pool.reserved()` = Σ `size()` of the live reservations; 0 after the set-up thread dropped them;
//!   * conservation per shared reservation without `try_resize` traffic: final size = initial
//!     + granted growth − successful `try_shrink`s − bytes returned by `free()`; hence a failed
//!     `try_*` changed nothing and nothing was granted or released twice;
//!   * a `try_shrink` that succeeded returned a size consistent with some serial order (<= initial +
//!     everything ever granted to that reservation);
//!   * limit rules that hold under every serial order of the granted operations:
//!     Greedy, only fallible growth anywhere: total <= L; Fair, no spillable consumer and only
//!     fallible growth: total <= L; Fair, spillable reservation grown only fallibly: its final size
//!     <= L / (number of spillable consumers registered during set-up), because every grant leaves
//!     the reservation <= (L − unspillable)/num_spill <= that bound and later ops only shrink it;
//!   * `TrackConsumersPool::metrics()`: `reserved` = Σ of the consumer's live reservations,
//!     `reserved <= peak <= initial + granted growth` of that consumer, no entry for dropped consumers;
//!   * `PeakRecordingPool`: `peak_reserved = max_reserved` (no reset), `max(total at set-up, final
//!     total) <= max_reserved <= initial + all granted growth`.
//! `StepLimit` is inconclusive. Besides the generated search, `extra` enumerates *all* schedules with
//! <= 3 preemptions (thorough 4) of five fixed two/three-actor scenarios (`sched::explore`).
//!
//! Non-trivial: >= 1 preemption landed on a yield point inside memory_pool/ (label
//! `preempt:pool-vs-reservation` when it separates a pool update from the reservation's own atomic).
//!
//! GENUINE FINDING (open, known_findings.json `fair-shared-spillable-concurrent-try-grow`; minimal case
//! regressions/C17/c17c/fair-shared-spillable-concurrent-try-grow.json; candidate repair
//! fixes/C17-fair-shared-reservation-grow-race.diff, verified with mutrun + VERIF_C17C_NO_EXCLUDE=1: 100 000
//! cases + all exhaustive scenarios pass): FairSpillPool(10), one spillable consumer, one shared empty
//! reservation, two threads `try_grow(6)`: thread A passes the pool check (size 0 + 6 <= 10) and is
//! preempted before `MemoryReservation::try_grow` adds to `size`; thread B is checked against the same
//! stale size; both are granted, the reservation ends with 12 > 10. RepartitionExec shares one spillable
//! reservation per output partition among all its input tasks, so this is reachable. The shape (Fair, >= 2
//! actors with a non-zero try_grow/try_resize on one spillable shared reservation) is excluded by
//! construction (`known_signature`, counted in `known_excluded`) while the finding is open.
//!
//! Sensitivity probes (tools/mkpatch + tools/mutrun, `./check C17 quick`; all pass the sequential part c17
//! and are caught here):
//!   1. mod.rs `free`: `load` + `store(0)` instead of `swap(0)` (DESIGN probe)
//!      -> VIOLATION after 253 cases: "at quiescence pool.reserved() = 2 but the live reservations hold [0, 1]" (1 preemption).
//!   2. pool.rs GreedyMemoryPool::try_grow: `load`, compare, `store` instead of `fetch_update`
//!      -> VIOLATION after 40 cases: "pool.reserved() = 0 but the live reservations hold [1]" (1 preemption).
//!   3. peak_recording.rs `record`: running total updated with `load` + `store` instead of `fetch_add`
//!      -> VIOLATION after 369 cases: "max_reserved 2 outside [max(set-up total 0, final total 3), ...]" (1 preemption).
//! Not in the domain, noticed while reading: `PeakRecordingPool::reset_peak` (load total, store peak) racing with
//! `record` can leave `peak_reserved` below the current total; its rustdoc places the call between queries.
use crate::c17::{Base, Pools, Wrap, build_pools, limit_strategy, size_strategy};
use datafusion_execution::memory_pool::{MemoryConsumer, MemoryReservation};
use proptest::prelude::*;
use serde::{Deserialize, Serialize};
use serde_json::json;
use std::collections::BTreeSet;
use std::sync::{Arc, Mutex};
use vf_kit::engine::*;
use vf_kit::sched::{self, Actor, ActorCtx, Bounds, Options, Report, Schedule, Verdict};

vf_kit::df_sched_adapter!();

pub struct C17c;

#[derive(Clone, Debug, Serialize, Deserialize)]
pub struct SharedRes {
    /// consumer choice, mapped monotonically onto `consumers`
    pub cons: u16,
    pub init: usize,
}

#[derive(Clone, Debug, Serialize, Deserialize)]
pub enum COp {
    TryGrow { r: u16, n: usize },
    Grow { r: u16, n: usize },
    TryShrink { r: u16, n: usize },
    Free { r: u16 },
    TryResize { r: u16, n: usize },
    /// register a fresh consumer, grow it by n (fallibly or not), drop it at the end of the script
    Own { spill: bool, n: usize, fallible: bool },
    /// `new_empty()` (even `via_split`: `split(0)`) off shared reservation r: a private reservation of the
    /// same consumer, grown by n, dropped at the end of the script
    Fork { r: u16, n: usize, fallible: bool, via_split: bool },
}

#[derive(Clone, Debug, Serialize, Deserialize)]
pub struct Case {
    pub base: Base,
    pub wrap: Wrap,
    pub limit: usize,
    /// spill flags of the set-up consumers
    pub consumers: Vec<bool>,
    pub shared: Vec<SharedRes>,
    pub scripts: Vec<Vec<COp>>,
    pub schedule: Schedule,
}

#[derive(Clone, Debug)]
enum Log {
    /// growth of shared reservation r by n: granted?
    Grow { r: usize, n: usize, granted: bool, fallible: bool },
    TryShrink { r: usize, n: usize, result: Option<usize> },
    Free { r: usize, freed: usize },
    TryResize { r: usize, ok: bool },
    Own { n: usize, granted: bool, fallible: bool, spill: bool },
    Fork { r: usize, n: usize, granted: bool, fallible: bool },
}

struct Outcome {
    report: Report,
    verdict: Result<(), String>,
    labels: BTreeSet<String>,
    nontrivial: bool,
}

fn run_case(case: &Case, schedule: &Schedule) -> Outcome {
    let mut labels: BTreeSet<String> = BTreeSet::new();
    labels.insert(format!("base={:?}", case.base));
    labels.insert(format!("wrap={:?}", case.wrap));
    labels.insert(format!("actors={}", case.scripts.len()));
    let p: Pools = build_pools(case.base, case.wrap, case.limit);
    // ---- set-up (un-instrumented thread: no scheduler installed here)
    let ncons = case.consumers.len().max(1);
    let spill_of = |c: usize| case.consumers.get(c).copied().unwrap_or(false);
    let mut first_of: Vec<Option<usize>> = vec![None; ncons];
    let mut shared: Vec<Arc<MemoryReservation>> = vec![];
    let mut cons_of: Vec<usize> = vec![];
    let mut init: Vec<usize> = vec![];
    for s in &case.shared {
        let c = pick_index(s.cons, ncons);
        let h = match first_of[c] {
            None => {
                first_of[c] = Some(shared.len());
                MemoryConsumer::new(format!("c{c}")).with_can_spill(spill_of(c)).register(&p.pool)
            }
            Some(i) => shared[i].new_empty(),
        };
        cons_of.push(c);
        shared.push(Arc::new(h));
    }
    // initial sizes only after every set-up consumer is registered (the fair-share bound below
    // relies on the number of spillable consumers never being smaller than during any grant)
    for (h, s) in shared.iter().zip(&case.shared) {
        let granted = h.try_grow(s.init).is_ok();
        init.push(if granted { s.init } else { 0 });
    }
    let nshared = shared.len();
    let setup_total: usize = init.iter().sum();
    let ns_setup = (0..ncons).filter(|c| first_of[*c].is_some() && spill_of(*c)).count();
    if nshared == 0 || case.scripts.is_empty() {
        return Outcome { report: sched::run(schedule, &Options::default(), &verif_install, vec![]), verdict: Ok(()), labels, nontrivial: false };
    }
    // ---- actors
    let logs: Vec<Mutex<Vec<Log>>> = case.scripts.iter().map(|_| Mutex::new(vec![])).collect();
    let mut actors = vec![];
    for (a, script) in case.scripts.iter().enumerate() {
        let shared = shared.clone();
        let pool = Arc::clone(&p.pool);
        let log = &logs[a];
        actors.push(Actor::new(format!("a{a}"), move |ctx: &ActorCtx| {
            let mut owned: Vec<MemoryReservation> = vec![];
            for (k, op) in script.iter().enumerate() {
                ctx.yield_now(format!("op{k}"));
                let entry = match op {
                    COp::TryGrow { r, n } => {
                        let r = pick_index(*r, shared.len());
                        Log::Grow { r, n: *n, granted: shared[r].try_grow(*n).is_ok(), fallible: true }
                    }
                    COp::Grow { r, n } => {
                        let r = pick_index(*r, shared.len());
                        shared[r].grow(*n);
                        Log::Grow { r, n: *n, granted: true, fallible: false }
                    }
                    COp::TryShrink { r, n } => {
                        let r = pick_index(*r, shared.len());
                        Log::TryShrink { r, n: *n, result: shared[r].try_shrink(*n).ok() }
                    }
                    COp::Free { r } => {
                        let r = pick_index(*r, shared.len());
                        Log::Free { r, freed: shared[r].free() }
                    }
                    COp::TryResize { r, n } => {
                        let r = pick_index(*r, shared.len());
                        Log::TryResize { r, ok: shared[r].try_resize(*n).is_ok() }
                    }
                    COp::Own { spill, n, fallible } => {
                        let h = MemoryConsumer::new(format!("own-a{a}-{k}")).with_can_spill(*spill).register(&pool);
                        let granted = if *fallible {
                            h.try_grow(*n).is_ok()
                        } else {
                            h.grow(*n);
                            true
                        };
                        owned.push(h);
                        Log::Own { n: *n, granted, fallible: *fallible, spill: *spill }
                    }
                    COp::Fork { r, n, fallible, via_split } => {
                        let r = pick_index(*r, shared.len());
                        let h = if *via_split { shared[r].split(0) } else { shared[r].new_empty() };
                        let granted = if *fallible {
                            h.try_grow(*n).is_ok()
                        } else {
                            h.grow(*n);
                            true
                        };
                        owned.push(h);
                        Log::Fork { r, n: *n, granted, fallible: *fallible }
                    }
                };
                log.lock().unwrap().push(entry);
            }
            ctx.yield_now("drop-owned");
            drop(owned); // free + unregister under the baton
            drop(shared);
            drop(pool);
        }));
    }
    let report = sched::run(schedule, &Options { step_limit: 20_000 }, &verif_install, actors);
    let logs: Vec<Vec<Log>> = logs.into_iter().map(|m| m.into_inner().unwrap_or_default()).collect();

    // ---- classification of the schedule
    let mut code_preempt = false;
    for &i in &report.preemptions {
        let e = &report.trace[i];
        if e.file.contains("memory_pool/") {
            code_preempt = true;
            // the reservation's own update in grow/try_grow comes after the pool call; in
            // free/try_shrink the pool call comes after the reservation's swap / fetch_update
            if (e.file.ends_with("memory_pool/mod.rs") && e.op.contains("fetch_add")) || (!e.file.ends_with("memory_pool/mod.rs") && (e.op.contains("fetch_sub") || e.op.contains("mutex.lock"))) {
                labels.insert("preempt:pool-vs-reservation".into());
            }
            labels.insert(format!("preempt@{}", e.file.rsplit('/').next().unwrap_or("?")));
        }
    }
    labels.insert(format!("preemptions={}", report.preemptions.len().min(4)));

    let verdict = (|| -> Result<(), String> {
        if let Some(pn) = report.panics.first() {
            return Err(format!("actor {} panicked at {}: {}", report.actor_names[pn.actor], pn.location, pn.message));
        }
        match &report.verdict {
            Verdict::Completed => {}
            Verdict::Deadlock { .. } => return Err("deadlock among memory-pool operations".into()),
            Verdict::StepLimit => return Ok(()),
        }
        // ---- quiescent state vs logs
        let sizes: Vec<usize> = shared.iter().map(|h| h.size()).collect();
        let total: usize = sizes.iter().sum();
        let got = p.pool.reserved();
        if got != total {
            return Err(format!("at quiescence pool.reserved() = {got} but the live reservations hold {sizes:?} (Σ = {total})"));
        }
        let mut granted = vec![0usize; nshared];
        let mut released = vec![0usize; nshared];
        let mut resized = vec![false; nshared];
        let mut infallible = vec![false; nshared];
        let mut any_infallible = false;
        let mut own_granted = 0usize;
        let mut fork_granted = vec![0usize; ncons];
        let mut own_spill = false;
        let mut denied = 0usize;
        for l in logs.iter().flatten() {
            match l {
                Log::Grow { r, n, granted: g, fallible } => {
                    if *g {
                        granted[*r] += n;
                    } else {
                        denied += 1;
                    }
                    if !fallible {
                        infallible[*r] = true;
                        any_infallible = true;
                    }
                }
                Log::TryShrink { r, n, result } => {
                    if result.is_some() {
                        released[*r] += n;
                    }
                }
                Log::Free { r, freed } => released[*r] += freed,
                Log::TryResize { r, ok } => {
                    resized[*r] = true;
                    if !ok {
                        denied += 1;
                    }
                }
                Log::Own { n, granted: g, fallible, spill } => {
                    if *g {
                        own_granted += n;
                    } else {
                        denied += 1;
                    }
                    if !fallible {
                        any_infallible = true;
                    }
                    own_spill |= *spill;
                }
                Log::Fork { r, n, granted: g, fallible } => {
                    if *g {
                        own_granted += n;
                        fork_granted[cons_of[*r]] += n;
                    } else {
                        denied += 1;
                    }
                    if !fallible {
                        any_infallible = true;
                    }
                }
            }
        }
        if denied > 0 {
            labels.insert("has-denied".into());
        }
        for r in 0..nshared {
            if resized[r] {
                continue;
            }
            let want = (init[r] + granted[r]).checked_sub(released[r]);
            if want != Some(sizes[r]) {
                return Err(format!(
                    "reservation #{r}: initial {} + granted {} − released {} ≠ final size {} (a failed try_* changed something, or bytes were granted/released twice)",
                    init[r], granted[r], released[r], sizes[r]
                ));
            }
        }
        for l in logs.iter().flatten() {
            if let Log::TryShrink { r, n, result: Some(new) } = l {
                if !resized[*r] && new + n > init[*r] + granted[*r] {
                    return Err(format!("try_shrink({n}) on reservation #{r} returned {new}: more than was ever granted ({} + {})", init[*r], granted[*r]));
                }
            }
        }
        let any_resize = resized.iter().any(|x| *x);
        let _ = any_resize;
        // ---- limit rules valid under every serial order
        match case.base {
            Base::Unbounded => {}
            Base::Greedy => {
                if !any_infallible && total > case.limit {
                    return Err(format!("Greedy({}) with only fallible growth ends with {total} reserved", case.limit));
                }
            }
            Base::Fair => {
                let any_spill = ns_setup > 0 || own_spill;
                if !any_infallible && !any_spill && total > case.limit {
                    return Err(format!("FairSpill({}) with only unspillable consumers and only fallible growth ends with {total} reserved", case.limit));
                }
                if ns_setup > 0 {
                    let bound = case.limit / ns_setup;
                    for r in 0..nshared {
                        if spill_of(cons_of[r]) && !infallible[r] {
                            labels.insert("fair-share-checked".into());
                            if sizes[r] > bound {
                                return Err(format!(
                                    "FairSpill({}): spillable reservation #{r}, grown only through try_grow/try_resize, ends with {} bytes > fair share bound {bound} ({ns_setup} spillable consumers registered throughout)",
                                    case.limit, sizes[r]
                                ));
                            }
                        }
                    }
                }
            }
        }
        // ---- wrappers
        if let Some(metrics) = &p.metrics {
            let mut got: Vec<(String, bool, usize, usize)> = metrics().into_iter().map(|m| (m.name, m.can_spill, m.reserved, m.peak)).collect();
            got.sort();
            let mut want: Vec<(String, bool, usize)> = vec![];
            for c in 0..ncons {
                if first_of[c].is_some() {
                    let sum: usize = (0..nshared).filter(|r| cons_of[*r] == c).map(|r| sizes[r]).sum();
                    want.push((format!("c{c}"), spill_of(c), sum));
                }
            }
            want.sort();
            let got3: Vec<(String, bool, usize)> = got.iter().map(|g| (g.0.clone(), g.1, g.2)).collect();
            if got3 != want {
                return Err(format!("TrackConsumersPool::metrics() (name, can_spill, reserved) = {got3:?}, live reservations say {want:?}"));
            }
            for (name, _, reserved, peak) in &got {
                let c: usize = name[1..].parse().unwrap_or(0);
                let ever: usize = (0..nshared).filter(|r| cons_of[*r] == c).map(|r| init[r] + granted[r]).sum::<usize>() + fork_granted.get(c).copied().unwrap_or(0);
                let res = (0..nshared).any(|r| cons_of[r] == c && resized[r]);
                if peak < reserved || (!res && *peak > ever) {
                    return Err(format!("consumer {name}: reserved {reserved}, peak {peak}, ever granted {ever}"));
                }
            }
        }
        if let Some(peaks) = &p.peaks {
            let (pk, mx) = peaks();
            let ever: usize = setup_total + granted.iter().sum::<usize>() + own_granted;
            if pk != mx {
                return Err(format!("PeakRecordingPool without reset: peak_reserved {pk} ≠ max_reserved {mx}"));
            }
            if mx < setup_total.max(total) || (!any_resize && mx > ever) {
                return Err(format!("PeakRecordingPool: max_reserved {mx} outside [max(set-up total {setup_total}, final total {total}), ever granted {ever}]"));
            }
        }
        Ok(())
    })();
    let completed = report.completed();
    // ---- wind down on this thread
    let verdict = verdict.and_then(|()| {
        if !completed {
            return Ok(());
        }
        drop(shared);
        let end = p.pool.reserved();
        if end != 0 {
            return Err(format!("pool.reserved() = {end} after every reservation was dropped"));
        }
        if let Some(metrics) = &p.metrics {
            let left = metrics();
            if !left.is_empty() {
                return Err(format!("{} consumers still tracked after every reservation was dropped", left.len()));
            }
        }
        Ok(())
    });
    Outcome { report, verdict, labels, nontrivial: code_preempt }
}

fn cop_strategy(l: usize) -> BoxedStrategy<COp> {
    let r = any::<u16>();
    let n = size_strategy(l);
    prop_oneof![
        8 => (r, n.clone()).prop_map(|(r, n)| COp::TryGrow { r, n }),
        2 => (r, n.clone()).prop_map(|(r, n)| COp::Grow { r, n }),
        4 => (r, n.clone()).prop_map(|(r, n)| COp::TryShrink { r, n }),
        3 => r.prop_map(|r| COp::Free { r }),
        2 => (r, n.clone()).prop_map(|(r, n)| COp::TryResize { r, n }),
        2 => (any::<bool>(), n.clone(), prop::bool::weighted(0.8)).prop_map(|(spill, n, fallible)| COp::Own { spill, n, fallible }),
        2 => (r, n, prop::bool::weighted(0.8), any::<bool>()).prop_map(|(r, n, fallible, via_split)| COp::Fork { r, n, fallible, via_split }),
    ]
    .boxed()
}

fn case_strategy(tier: Tier) -> BoxedStrategy<Case> {
    let base = prop_oneof![1 => Just(Base::Unbounded), 3 => Just(Base::Greedy), 5 => Just(Base::Fair)];
    let wrap = prop_oneof![3 => Just(Wrap::None), 2 => Just(Wrap::Track), 2 => Just(Wrap::Peak), 1 => Just(Wrap::PeakOverTrack), 1 => Just(Wrap::TrackOverPeak)];
    let max_pre = tier.pick(3, 4);
    (base, wrap, limit_strategy())
        .prop_flat_map(move |(base, wrap, limit)| {
            let shared = prop::collection::vec((any::<u16>(), size_strategy(limit)).prop_map(|(cons, init)| SharedRes { cons, init }), 1..=3);
            let scripts = prop::collection::vec(prop::collection::vec(cop_strategy(limit), 1..=4), 2..=3);
            (prop::collection::vec(prop::bool::weighted(0.6), 1..=3), shared, scripts, Schedule::strategy(max_pre, 20, 8))
                .prop_map(move |(consumers, shared, scripts, schedule)| Case { base, wrap, limit, consumers, shared, scripts, schedule })
        })
        .boxed()
}

/// fixed small scenarios for exhaustive schedule enumeration
fn scenarios() -> Vec<(&'static str, Case)> {
    let s = |cons: u16, init: usize| SharedRes { cons, init };
    let mk = |base, wrap, limit, consumers: Vec<bool>, shared: Vec<SharedRes>, scripts: Vec<Vec<COp>>| Case { base, wrap, limit, consumers, shared, scripts, schedule: Schedule::default() };
    vec![
        ("greedy-two-growers", mk(Base::Greedy, Wrap::PeakOverTrack, 10, vec![false], vec![s(0, 2)], vec![vec![COp::TryGrow { r: 0, n: 6 }, COp::Free { r: 0 }], vec![COp::TryGrow { r: 0, n: 6 }, COp::TryShrink { r: 0, n: 3 }]])),
        ("fair-two-growers-one-reservation", mk(Base::Fair, Wrap::None, 10, vec![true], vec![s(0, 0)], vec![vec![COp::TryGrow { r: 0, n: 6 }], vec![COp::TryGrow { r: 0, n: 6 }]])),
        ("fair-register-vs-grow", mk(Base::Fair, Wrap::Track, 12, vec![true, false], vec![s(0, 2), s(65535, 3)], vec![vec![COp::Own { spill: true, n: 4, fallible: true }, COp::TryGrow { r: 0, n: 3 }], vec![COp::TryGrow { r: 65535, n: 5 }, COp::Free { r: 0 }]])),
        ("unbounded-grow-free-shrink", mk(Base::Unbounded, Wrap::TrackOverPeak, 0, vec![false], vec![s(0, 5)], vec![vec![COp::Grow { r: 0, n: 4 }, COp::TryShrink { r: 0, n: 7 }], vec![COp::Free { r: 0 }, COp::TryGrow { r: 0, n: 1 }]])),
        ("three-actors-greedy", mk(Base::Greedy, Wrap::Peak, 8, vec![false, false], vec![s(0, 1), s(65535, 1)], vec![vec![COp::TryGrow { r: 0, n: 4 }], vec![COp::TryGrow { r: 65535, n: 4 }], vec![COp::Free { r: 0 }, COp::TryResize { r: 65535, n: 3 }]])),
    ]
}

impl Property for C17c {
    type Case = Case;
    fn id(&self) -> &'static str {
        "C17"
    }
    fn sub(&self) -> &'static str {
        "c17c"
    }
    fn strategy(&self, tier: Tier) -> BoxedStrategy<Case> {
        case_strategy(tier)
    }
    fn budget(&self, tier: Tier) -> Budget {
        Budget::new(tier.pick(100_000, 6_000_000), tier.pick(8, 16)).min_nontrivial(tier.pick(10_000, 500_000)).case_timeout(60)
    }
    fn rule(&self) -> String {
        "pool (base x wrapper, L) + 1-3 shared Arc'ed reservations of 1-3 consumers + 2-3 actor scripts of 1-4 ops {try_grow, grow, try_shrink, free, try_resize, own-consumer, fork(new_empty/split(0))} + a schedule with <= 3 (thorough 4) \
         preemptions over the yield points of hook H5; oracle at quiescence; non-trivial = at least one preemption landed on a yield point inside memory_pool/*.rs; distinct by case JSON; \
         extra: all schedules with <= 3 (thorough 4) preemptions of 5 fixed scenarios"
            .into()
    }
    fn assumptions(&self) -> Vec<String> {
        vec![
            "sequentially consistent interleavings at atomic/lock granularity (no weak-memory reordering of Relaxed operations)".into(),
            "shrink/split/resize/take and reset_peak are outside the concurrent domain (documented panics on moved sizes; reset is called between queries)".into(),
            "set-up and final drops run un-instrumented on the calling thread".into(),
        ]
    }
    fn known_signature(&self, case: &Case) -> Option<String> {
        known_sig(case)
    }
    fn run(&self, case: &Case) -> CaseResult {
        let out = run_case(case, &case.schedule);
        if out.report.verdict == Verdict::StepLimit {
            return CaseResult::inconclusive("scheduler step limit").labels(out.labels);
        }
        match out.verdict {
            Ok(()) => CaseResult::pass().nontrivial(out.nontrivial).labels(out.labels),
            Err(m) => CaseResult::violation(format!("{:?}({}) wrap={:?}: {m}\n{}", case.base, case.limit, case.wrap, out.report.describe(40))).labels(out.labels),
        }
    }
    fn extra(&self, tier: Tier, _seed: u64) -> Result<serde_json::Value, (String, Case)> {
        let mut summary = serde_json::Map::new();
        for (name, case) in scenarios() {
            if known_sig(&case).is_some() && known_open() {
                summary.insert(name.to_string(), json!("skipped: matches an open known finding"));
                continue;
            }
            let bounds = Bounds { max_preemptions: tier.pick(3, 4), max_forced_deviations: tier.pick(1, 2), max_runs: tier.pick(60_000, 3_000_000) };
            let res = sched::explore(&bounds, |s| {
                let out = run_case(&case, s);
                match out.verdict {
                    Ok(()) => Ok(out.report),
                    Err(m) => Err(format!("{m}\n{}", out.report.describe(40))),
                }
            });
            match res {
                Ok(stats) => {
                    summary.insert(name.to_string(), json!({"runs": stats.runs, "complete": stats.complete, "deadlocks": stats.deadlocks, "step_limits": stats.step_limits, "max_decisions": stats.max_decisions}));
                }
                Err((schedule, m)) => {
                    let mut c = case.clone();
                    c.schedule = schedule;
                    return Err((format!("exhaustive scenario {name}: {m}"), c));
                }
            }
        }
        Ok(json!({ "exhaustive": summary }))
    }
}

/// Signature of the known concurrent finding `fair-shared-spillable-concurrent-try-grow`
/// (known_findings.json): FairSpillPool checks `reservation.size() + additional` under its lock, but
/// `MemoryReservation::try_grow` adds to `size` only after the pool call returned, so two threads
/// growing the *same* spillable reservation (RepartitionExec shares one per output partition among
/// all input tasks) are both checked against the stale size and together exceed the fair share.
/// Shape: Fair pool and >= 2 actors issue a non-zero `try_grow`/`try_resize` on one spillable shared
/// reservation. `VERIF_C17C_NO_EXCLUDE=1` disables the exclusion (used to verify the repair patch).
pub const KNOWN_SIG: &str = "fair-shared-spillable-concurrent-try-grow";

fn known_sig(case: &Case) -> Option<String> {
    if case.base != Base::Fair || std::env::var_os("VERIF_C17C_NO_EXCLUDE").is_some() {
        return None;
    }
    let ncons = case.consumers.len().max(1);
    let nshared = case.shared.len();
    for r in 0..nshared {
        let c = pick_index(case.shared[r].cons, ncons);
        if !case.consumers.get(c).copied().unwrap_or(false) {
            continue;
        }
        let growers = case
            .scripts
            .iter()
            .filter(|script| {
                script.iter().any(|op| match op {
                    COp::TryGrow { r: x, n } | COp::TryResize { r: x, n } => *n > 0 && pick_index(*x, nshared) == r,
                    _ => false,
                })
            })
            .count();
        if growers >= 2 {
            return Some(KNOWN_SIG.to_string());
        }
    }
    None
}

/// is the finding still listed as open? (read once per `extra`; never written)
fn known_open() -> bool {
    let Ok(text) = std::fs::read_to_string(verif_root().join("known_findings.json")) else { return false };
    let Ok(v) = serde_json::from_str::<serde_json::Value>(&text) else { return false };
    v.get("findings").and_then(|f| f.as_array()).map(|a| a.iter().any(|e| e.get("property").and_then(|x| x.as_str()) == Some("C17") && e.get("signature").and_then(|x| x.as_str()) == Some(KNOWN_SIG) && e.get("status").and_then(|x| x.as_str()) == Some("open"))).unwrap_or(false)
}
