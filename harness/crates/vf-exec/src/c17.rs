//! C17 (sequential part) — memory pool accounting is exact and limits are enforced.
//!
//! Domain: pool = base {Unbounded, Greedy(L), FairSpill(L)} under a wrapper {none, TrackConsumers,
//! PeakRecording, PeakRecording(TrackConsumers(base)), TrackConsumers(PeakRecording(base))};
//! L from a small palette (0..=64 mostly, so that the fair pool's integer division matters);
//! a history of <= 40 (quick) / <= 120 (thorough) operations over the public `MemoryConsumer` /
//! `MemoryReservation` API: register (spillable or not), grow, try_grow, shrink, try_shrink,
//! resize, try_resize, split, take, new_empty, free, drop, reset_peak. Reservation indices are
//! mapped monotonically onto the live set. At most 8 live reservations / 4 live consumers.
//!
//! Oracle: a model (reservation -> size, consumer -> (sum, peak), fair-pool spill bookkeeping,
//! running total / window peak / all-time peak). After EVERY step:
//!   * `pool.reserved()` = sum of live reservation sizes, every `MemoryReservation::size()` = model;
//!   * return values: `free()` = bytes freed, `try_shrink` = new size or Err with nothing changed,
//!     `try_grow`/`try_resize` Ok/Err exactly as the limit rule predicts, Err leaves everything
//!     unchanged and is `ResourcesExhausted` (what spilling operators match on);
//!   * limit rules (statement + rustdoc of pool.rs): Greedy grants iff used + n <= L ("can allocate up
//!     to `pool_size` bytes"); Fair, spillable consumer: grants iff reservation.size + n <=
//!     (L - unspillable) / num_spill_consumers (saturating; rustdoc formula), unspillable: iff
//!     n <= L - (spillable + unspillable) (saturating); Unbounded always grants; infallible `grow`
//!     always succeeds and may exceed L (by contract);
//!   * `TrackConsumersPool::metrics()` (sorted by the unique consumer name): one entry per registered
//!     consumer with `reserved` = sum of its reservations, `peak` = running maximum, gone once the
//!     consumer's last reservation is dropped;
//!   * `PeakRecordingPool`: `peak_reserved` = max total since the last `reset_peak` (reset sets it to
//!     the current total), `max_reserved` = max total since creation;
//!   * `memory_limit()` is reported through every wrapper.
//! At the end all reservations are dropped one by one (same comparison after each); the pool must
//! read 0 and the tracked-consumer list must be empty.
//!
//! Guards: `shrink` / `split` amounts are clamped to the model's current size (beyond-size is
//! documented to panic and is never generated); sizes are tiny compared with `usize::MAX`, so the
//! unchecked additions inside the pools cannot overflow.
//!
//! Non-trivial: >= 1 denied `try_grow`/`try_resize`, >= 1 split/take with a non-zero amount, and the
//! pool returned to 0 at the end (always checked).
//!
//! Deviations from DESIGN.md: the "denied although it fits" direction is also a violation (grounded
//! in the pools' rustdoc, not in the property statement, which only forbids over-granting) — without
//! it a pool that always refuses would pass; the fair-share rule is per *reservation*, as the code and
//! the rustdoc ("prevents spillable reservations from using more than an even fraction") have it, with
//! the divisor being the number of registered spillable *consumers*.
//!
//! Sensitivity probes (tools/mkpatch + tools/mutrun, `./check C17 quick`, all on datafusion/execution/src/memory_pool/):
//!   1. mod.rs `MemoryReservation::try_grow`: `size.fetch_add` moved before the pool call (DESIGN probe)
//!      -> VIOLATION after 7 cases: "Greedy(38): after TryGrow{n:39}: reservation #0: size() = 39, model = 0".
//!   2. pool.rs FairSpillPool unspillable branch ignores `state.spillable` when computing what is available
//!      -> VIOLATION after 40 cases: "try_resize(68) ... was GRANTED beyond the limit rule (total 33 ...)".
//!   3. peak_recording.rs `record`: high-water marks published from the total *before* the increment (DESIGN probe)
//!      -> VIOLATION after 3 cases: "peak_reserved = 0, max_reserved = 0; model: 1 / 1".
//!   4. pool.rs `TrackedConsumer::grow`: `peak.fetch_max` before `reserved.fetch_add`
//!      -> VIOLATION after 1 case: metrics() = [("c0", false, 1, 0)], model [("c0", false, 1, 1)].
//!   5. pool.rs GreedyMemoryPool::try_grow: `new_used < pool_size` instead of `<=`
//!      -> VIOLATION after 8 cases: "try_grow(0) ... was DENIED although it fits the limit rule".
//! (`free` with load+store instead of swap is sequentially equivalent; it is a probe of the concurrent part `c17c`.)
use datafusion_common::DataFusionError;
use datafusion_execution::memory_pool::{
    FairSpillPool, GreedyMemoryPool, MemoryConsumer, MemoryConsumerMetrics, MemoryLimit, MemoryPool, MemoryReservation, PeakRecordingPool, TrackConsumersPool,
    UnboundedMemoryPool,
};
use proptest::prelude::*;
use serde::{Deserialize, Serialize};
use std::collections::BTreeSet;
use std::num::NonZeroUsize;
use std::sync::Arc;
use vf_kit::engine::*;

pub struct C17;

#[derive(Clone, Copy, Debug, Serialize, Deserialize, PartialEq, Eq)]
pub enum Base {
    Unbounded,
    Greedy,
    Fair,
}

#[derive(Clone, Copy, Debug, Serialize, Deserialize, PartialEq, Eq)]
pub enum Wrap {
    None,
    Track,
    Peak,
    /// PeakRecordingPool(TrackConsumersPool(base))
    PeakOverTrack,
    /// TrackConsumersPool(PeakRecordingPool(base))
    TrackOverPeak,
}

#[derive(Clone, Debug, Serialize, Deserialize)]
pub enum Op {
    Register { spill: bool },
    Grow { r: u16, n: usize },
    TryGrow { r: u16, n: usize },
    /// shrink(min(n, size))
    Shrink { r: u16, n: usize },
    TryShrink { r: u16, n: usize },
    Resize { r: u16, n: usize },
    TryResize { r: u16, n: usize },
    /// split(min(n, size))
    Split { r: u16, n: usize },
    Take { r: u16 },
    NewEmpty { r: u16 },
    Free { r: u16 },
    Drop { r: u16 },
    ResetPeak,
}

#[derive(Clone, Debug, Serialize, Deserialize)]
pub struct Case {
    pub base: Base,
    pub wrap: Wrap,
    pub limit: usize,
    /// consumers registered before the first op (spill flags)
    pub init: Vec<bool>,
    pub ops: Vec<Op>,
    /// final drops newest-first instead of oldest-first
    pub drop_rev: bool,
}

pub const MAX_LIVE: usize = 8;
pub const MAX_CONSUMERS: usize = 4;

// ---------------------------------------------------------------------------------------------
// pool construction (shared with the concurrent part)

pub struct Pools {
    pub pool: Arc<dyn MemoryPool>,
    pub metrics: Option<Box<dyn Fn() -> Vec<MemoryConsumerMetrics> + Send + Sync>>,
    /// (peak_reserved, max_reserved)
    pub peaks: Option<Box<dyn Fn() -> (usize, usize) + Send + Sync>>,
    pub reset_peak: Option<Box<dyn Fn() + Send + Sync>>,
}

fn top() -> NonZeroUsize {
    NonZeroUsize::new(3).unwrap()
}

fn base_dyn(base: Base, limit: usize) -> Arc<dyn MemoryPool> {
    match base {
        Base::Unbounded => Arc::new(UnboundedMemoryPool::default()),
        Base::Greedy => Arc::new(GreedyMemoryPool::new(limit)),
        Base::Fair => Arc::new(FairSpillPool::new(limit)),
    }
}

fn tracked<I: MemoryPool>(inner: I) -> (Arc<TrackConsumersPool<I>>, Box<dyn Fn() -> Vec<MemoryConsumerMetrics> + Send + Sync>) {
    let t = Arc::new(TrackConsumersPool::new(inner, top()));
    let t2 = Arc::clone(&t);
    (t, Box::new(move || t2.metrics()))
}

fn peak_fns(p: &Arc<PeakRecordingPool>) -> (Box<dyn Fn() -> (usize, usize) + Send + Sync>, Box<dyn Fn() + Send + Sync>) {
    let a = Arc::clone(p);
    let b = Arc::clone(p);
    (Box::new(move || (a.peak_reserved(), a.max_reserved())), Box::new(move || b.reset_peak()))
}

pub fn build_pools(base: Base, wrap: Wrap, limit: usize) -> Pools {
    match wrap {
        Wrap::None => Pools { pool: base_dyn(base, limit), metrics: None, peaks: None, reset_peak: None },
        Wrap::Peak => {
            let p = Arc::new(PeakRecordingPool::new(base_dyn(base, limit)));
            let (peaks, reset) = peak_fns(&p);
            Pools { pool: p, metrics: None, peaks: Some(peaks), reset_peak: Some(reset) }
        }
        Wrap::Track | Wrap::PeakOverTrack => {
            let (pool, metrics): (Arc<dyn MemoryPool>, _) = match base {
                Base::Unbounded => {
                    let (t, m) = tracked(UnboundedMemoryPool::default());
                    (t, m)
                }
                Base::Greedy => {
                    let (t, m) = tracked(GreedyMemoryPool::new(limit));
                    (t, m)
                }
                Base::Fair => {
                    let (t, m) = tracked(FairSpillPool::new(limit));
                    (t, m)
                }
            };
            if wrap == Wrap::Track {
                Pools { pool, metrics: Some(metrics), peaks: None, reset_peak: None }
            } else {
                let p = Arc::new(PeakRecordingPool::new(pool));
                let (peaks, reset) = peak_fns(&p);
                Pools { pool: p, metrics: Some(metrics), peaks: Some(peaks), reset_peak: Some(reset) }
            }
        }
        Wrap::TrackOverPeak => {
            let t = Arc::new(TrackConsumersPool::new(PeakRecordingPool::new(base_dyn(base, limit)), top()));
            let (a, b, c) = (Arc::clone(&t), Arc::clone(&t), Arc::clone(&t));
            Pools {
                pool: t,
                metrics: Some(Box::new(move || a.metrics())),
                peaks: Some(Box::new(move || (b.inner().peak_reserved(), b.inner().max_reserved()))),
                reset_peak: Some(Box::new(move || c.inner().reset_peak())),
            }
        }
    }
}

// ---------------------------------------------------------------------------------------------
// model

struct Cons {
    name: String,
    spill: bool,
    nres: usize,
    reserved: usize,
    peak: usize,
}

struct Live {
    cons: usize,
    size: usize,
    h: MemoryReservation,
}

struct Model {
    base: Base,
    limit: usize,
    cons: Vec<Cons>,
    live: Vec<Live>,
    /// window peak / all-time peak of the total (PeakRecordingPool)
    peak: usize,
    max: usize,
}

impl Model {
    fn total(&self) -> usize {
        self.live.iter().map(|l| l.size).sum()
    }
    fn live_consumers(&self) -> usize {
        self.cons.iter().filter(|c| c.nres > 0).count()
    }
    fn num_spill(&self) -> usize {
        self.cons.iter().filter(|c| c.nres > 0 && c.spill).count()
    }
    fn unspillable(&self) -> usize {
        self.live.iter().filter(|l| !self.cons[l.cons].spill).map(|l| l.size).sum()
    }
    /// does the limit rule grant a fallible growth of reservation `i` by `n`?
    fn grants(&self, i: usize, n: usize) -> bool {
        match self.base {
            Base::Unbounded => true,
            Base::Greedy => self.total() + n <= self.limit,
            Base::Fair => {
                if self.cons[self.live[i].cons].spill {
                    let spill_available = self.limit.saturating_sub(self.unspillable());
                    let ns = self.num_spill();
                    let available = if ns == 0 { spill_available } else { spill_available / ns };
                    self.live[i].size + n <= available
                } else {
                    n <= self.limit.saturating_sub(self.total())
                }
            }
        }
    }
    fn grew(&mut self, i: usize, n: usize) {
        self.live[i].size += n;
        let c = &mut self.cons[self.live[i].cons];
        c.reserved += n;
        c.peak = c.peak.max(c.reserved);
        let t = self.total();
        self.peak = self.peak.max(t);
        self.max = self.max.max(t);
    }
    fn shrank(&mut self, i: usize, n: usize) {
        self.live[i].size -= n;
        self.cons[self.live[i].cons].reserved -= n;
    }
}

fn idx(r: u16, len: usize) -> usize {
    pick_index(r, len)
}

fn check_state(m: &Model, p: &Pools) -> Result<(), String> {
    let total = m.total();
    let got = p.pool.reserved();
    if got != total {
        return Err(format!("pool.reserved() = {got}, sum of live reservations = {total}"));
    }
    for (i, l) in m.live.iter().enumerate() {
        let s = l.h.size();
        if s != l.size {
            return Err(format!("reservation #{i}: size() = {s}, model = {}", l.size));
        }
    }
    match (p.pool.memory_limit(), m.base) {
        (MemoryLimit::Infinite, Base::Unbounded) => {}
        (MemoryLimit::Finite(l), Base::Greedy | Base::Fair) if l == m.limit => {}
        (other, _) => {
            let s = match other {
                MemoryLimit::Infinite => "Infinite".to_string(),
                MemoryLimit::Finite(l) => format!("Finite({l})"),
                MemoryLimit::Unknown => "Unknown".to_string(),
            };
            return Err(format!("memory_limit() = {s} for {:?}({})", m.base, m.limit));
        }
    }
    if let Some(metrics) = &p.metrics {
        let mut got: Vec<(String, bool, usize, usize)> = metrics().into_iter().map(|x| (x.name, x.can_spill, x.reserved, x.peak)).collect();
        got.sort();
        let mut want: Vec<(String, bool, usize, usize)> = m.cons.iter().filter(|c| c.nres > 0).map(|c| (c.name.clone(), c.spill, c.reserved, c.peak)).collect();
        want.sort();
        if got != want {
            return Err(format!("TrackConsumersPool::metrics() (name, can_spill, reserved, peak) = {got:?}, model = {want:?}"));
        }
        for (name, _, reserved, peak) in &got {
            if peak < reserved {
                return Err(format!("consumer {name}: peak {peak} < reserved {reserved}"));
            }
        }
    }
    if let Some(peaks) = &p.peaks {
        let (pk, mx) = peaks();
        if pk != m.peak || mx != m.max {
            return Err(format!("PeakRecordingPool: peak_reserved = {pk}, max_reserved = {mx}; model: {} / {} (current total {total})", m.peak, m.max));
        }
        if pk < total || mx < pk {
            return Err(format!("PeakRecordingPool: peak {pk} / max {mx} inconsistent with current total {total}"));
        }
    }
    Ok(())
}

pub fn size_strategy(l: usize) -> BoxedStrategy<usize> {
    let palette = vec![0, 1, 2, l / 3, l / 2, l.saturating_sub(1), l, l + 1, 2 * l + 1];
    prop_oneof![3 => prop::sample::select(palette), 2 => 0..=(l + 2), 2 => 0..=(l / 4 + 1)].boxed()
}

pub fn limit_strategy() -> BoxedStrategy<usize> {
    prop_oneof![2 => prop::sample::select(vec![0usize, 1, 2, 3, 4, 7, 10, 12, 16, 30, 64]), 2 => 0usize..=64, 1 => prop::sample::select(vec![100usize, 1000, 1 << 20])].boxed()
}

fn op_strategy(l: usize) -> BoxedStrategy<Op> {
    let r = any::<u16>();
    let n = size_strategy(l);
    prop_oneof![
        4 => any::<bool>().prop_map(|spill| Op::Register { spill }),
        4 => (r, n.clone()).prop_map(|(r, n)| Op::Grow { r, n }),
        8 => (r, n.clone()).prop_map(|(r, n)| Op::TryGrow { r, n }),
        3 => (r, n.clone()).prop_map(|(r, n)| Op::Shrink { r, n }),
        3 => (r, n.clone()).prop_map(|(r, n)| Op::TryShrink { r, n }),
        3 => (r, n.clone()).prop_map(|(r, n)| Op::Resize { r, n }),
        4 => (r, n.clone()).prop_map(|(r, n)| Op::TryResize { r, n }),
        3 => (r, n.clone()).prop_map(|(r, n)| Op::Split { r, n }),
        2 => r.prop_map(|r| Op::Take { r }),
        2 => r.prop_map(|r| Op::NewEmpty { r }),
        2 => r.prop_map(|r| Op::Free { r }),
        3 => r.prop_map(|r| Op::Drop { r }),
        1 => Just(Op::ResetPeak),
    ]
    .boxed()
}

fn case_strategy(max_ops: usize) -> BoxedStrategy<Case> {
    let base = prop_oneof![1 => Just(Base::Unbounded), 3 => Just(Base::Greedy), 4 => Just(Base::Fair)];
    let wrap = prop_oneof![2 => Just(Wrap::None), 2 => Just(Wrap::Track), 2 => Just(Wrap::Peak), 2 => Just(Wrap::PeakOverTrack), 1 => Just(Wrap::TrackOverPeak)];
    (base, wrap, limit_strategy(), any::<bool>(), prop::collection::vec(any::<bool>(), 0..=3))
        .prop_flat_map(move |(base, wrap, limit, drop_rev, init)| {
            prop::collection::vec(op_strategy(limit), 1..=max_ops).prop_map(move |ops| Case { base, wrap, limit, init: init.clone(), ops, drop_rev })
        })
        .boxed()
}

fn is_exhausted(e: &DataFusionError) -> bool {
    matches!(e, DataFusionError::ResourcesExhausted(_))
}

impl Property for C17 {
    type Case = Case;
    fn id(&self) -> &'static str {
        "C17"
    }
    fn sub(&self) -> &'static str {
        "c17"
    }
    fn strategy(&self, tier: Tier) -> BoxedStrategy<Case> {
        case_strategy(tier.pick(40, 120))
    }
    fn budget(&self, tier: Tier) -> Budget {
        Budget::new(tier.pick(250_000, 6_000_000), tier.pick(8, 16)).min_nontrivial(tier.pick(20_000, 300_000))
    }
    fn rule(&self) -> String {
        "history of 1..=40 (thorough 120) register/grow/try_grow/shrink/try_shrink/resize/try_resize/split/take/new_empty/free/drop/reset_peak ops over \
         {Unbounded,Greedy(L),FairSpill(L)} x {plain,TrackConsumers,PeakRecording,Peak(Track),Track(Peak)}, L and sizes from a palette around L; model compared after every op; \
         non-trivial = at least one denied fallible growth and at least one non-empty split/take (pool is always checked to return to 0); distinct by case JSON"
            .into()
    }
    fn assumptions(&self) -> Vec<String> {
        vec![
            "sequential histories only (interleavings are the c17c part)".into(),
            "a fallible growth that fits the documented limit rule must be granted (pool rustdoc), not only the converse (statement)".into(),
            "FairSpillPool share is per reservation with divisor = number of registered spillable consumers, as its rustdoc and code state".into(),
            "shrink/split beyond the reservation size (documented panic) is never generated; sizes stay far below usize::MAX".into(),
        ]
    }
    fn run(&self, case: &Case) -> CaseResult {
        let p = build_pools(case.base, case.wrap, case.limit);
        let mut m = Model { base: case.base, limit: case.limit, cons: vec![], live: vec![], peak: 0, max: 0 };
        let mut labels: BTreeSet<String> = BTreeSet::new();
        labels.insert(format!("base={:?}", case.base));
        labels.insert(format!("wrap={:?}", case.wrap));
        let mut denied = 0usize;
        let mut split_take = 0usize;
        macro_rules! fail {
            ($step:expr, $op:expr, $msg:expr) => {
                return CaseResult::violation(format!("{:?}({}) wrap={:?}: after step {} {:?}: {}", case.base, case.limit, case.wrap, $step, $op, $msg)).labels(labels)
            };
        }
        let init: Vec<Op> = case.init.iter().take(MAX_CONSUMERS).map(|s| Op::Register { spill: *s }).collect();
        if let Err(e) = check_state(&m, &p) {
            fail!("init", "-", e);
        }
        // steps 0..init.len() are the initial registrations, the generated ops follow
        for (step, op) in init.iter().chain(case.ops.iter()).enumerate() {
            let nlive = m.live.len();
            match op {
                Op::Register { spill } => {
                    if nlive >= MAX_LIVE || m.live_consumers() >= MAX_CONSUMERS {
                        labels.insert("skip:at-cap".into());
                        continue;
                    }
                    let name = format!("c{}", m.cons.len());
                    let h = MemoryConsumer::new(name.clone()).with_can_spill(*spill).register(&p.pool);
                    m.cons.push(Cons { name, spill: *spill, nres: 1, reserved: 0, peak: 0 });
                    let cons = m.cons.len() - 1;
                    m.live.push(Live { cons, size: 0, h });
                    labels.insert(if *spill { "register:spill" } else { "register:nospill" }.into());
                }
                Op::ResetPeak => {
                    if let Some(reset) = &p.reset_peak {
                        reset();
                        m.peak = m.total();
                        labels.insert("reset_peak".into());
                    }
                }
                _ if nlive == 0 => {
                    labels.insert("skip:no-reservation".into());
                    continue;
                }
                Op::Grow { r, n } => {
                    let i = idx(*r, nlive);
                    m.live[i].h.grow(*n);
                    if m.base != Base::Unbounded && !m.grants(i, *n) {
                        labels.insert("grow:beyond-limit".into());
                    }
                    m.grew(i, *n);
                }
                Op::TryGrow { r, n } => {
                    let i = idx(*r, nlive);
                    let want = m.grants(i, *n);
                    let got = m.live[i].h.try_grow(*n);
                    match (&got, want) {
                        (Ok(()), true) => {
                            m.grew(i, *n);
                            labels.insert("try_grow:granted".into());
                        }
                        (Err(e), false) => {
                            if !is_exhausted(e) {
                                fail!(step, op, format!("denied try_grow returned a non-ResourcesExhausted error: {e}"));
                            }
                            denied += 1;
                            labels.insert("try_grow:denied".into());
                            if m.base == Base::Fair {
                                labels.insert(if m.cons[m.live[i].cons].spill { "fair:spill-denied" } else { "fair:unspill-denied" }.into());
                            }
                        }
                        (Ok(()), false) => fail!(step, op, format!("try_grow({n}) on reservation #{i} (size {}) was GRANTED beyond the limit rule (total {}, unspillable {}, spill consumers {})", m.live[i].size, m.total(), m.unspillable(), m.num_spill())),
                        (Err(e), true) => fail!(step, op, format!("try_grow({n}) on reservation #{i} (size {}) was DENIED although it fits the limit rule (total {}, unspillable {}, spill consumers {}): {e}", m.live[i].size, m.total(), m.unspillable(), m.num_spill())),
                    }
                }
                Op::Shrink { r, n } => {
                    let i = idx(*r, nlive);
                    let n = (*n).min(m.live[i].size);
                    m.live[i].h.shrink(n);
                    m.shrank(i, n);
                    if n > 0 {
                        labels.insert("shrink".into());
                    }
                }
                Op::TryShrink { r, n } => {
                    let i = idx(*r, nlive);
                    let size = m.live[i].size;
                    let got = m.live[i].h.try_shrink(*n);
                    if *n <= size {
                        match got {
                            Ok(new) if new == size - n => {}
                            other => fail!(step, op, format!("try_shrink({n}) of size {size} returned {other:?}, expected Ok({})", size - n)),
                        }
                        m.shrank(i, *n);
                        labels.insert("try_shrink:ok".into());
                    } else {
                        if got.is_ok() {
                            fail!(step, op, format!("try_shrink({n}) of size {size} returned {got:?}, expected an error"));
                        }
                        labels.insert("try_shrink:err".into());
                    }
                }
                Op::Resize { r, n } => {
                    let i = idx(*r, nlive);
                    let size = m.live[i].size;
                    m.live[i].h.resize(*n);
                    if *n > size {
                        m.grew(i, n - size);
                        labels.insert("resize:grow".into());
                    } else {
                        m.shrank(i, size - n);
                        labels.insert("resize:shrink".into());
                    }
                }
                Op::TryResize { r, n } => {
                    let i = idx(*r, nlive);
                    let size = m.live[i].size;
                    let want = *n <= size || m.grants(i, n - size);
                    let got = m.live[i].h.try_resize(*n);
                    match (&got, want) {
                        (Ok(()), true) => {
                            if *n > size {
                                m.grew(i, n - size);
                                labels.insert("try_resize:grow-granted".into());
                            } else {
                                m.shrank(i, size - n);
                                labels.insert("try_resize:shrink".into());
                            }
                        }
                        (Err(e), false) => {
                            if !is_exhausted(e) {
                                fail!(step, op, format!("denied try_resize returned a non-ResourcesExhausted error: {e}"));
                            }
                            denied += 1;
                            labels.insert("try_resize:denied".into());
                        }
                        (Ok(()), false) => fail!(step, op, format!("try_resize({n}) on reservation #{i} (size {size}) was GRANTED beyond the limit rule (total {}, unspillable {}, spill consumers {})", m.total(), m.unspillable(), m.num_spill())),
                        (Err(e), true) => fail!(step, op, format!("try_resize({n}) on reservation #{i} (size {size}) was DENIED although it fits the limit rule (total {}): {e}", m.total())),
                    }
                }
                Op::Split { r, n } => {
                    if nlive >= MAX_LIVE {
                        labels.insert("skip:at-cap".into());
                        continue;
                    }
                    let i = idx(*r, nlive);
                    let n = (*n).min(m.live[i].size);
                    let h = m.live[i].h.split(n);
                    m.live[i].size -= n;
                    let cons = m.live[i].cons;
                    m.cons[cons].nres += 1;
                    m.live.push(Live { cons, size: n, h });
                    if n > 0 {
                        split_take += 1;
                    }
                    labels.insert("split".into());
                }
                Op::Take { r } => {
                    if nlive >= MAX_LIVE {
                        labels.insert("skip:at-cap".into());
                        continue;
                    }
                    let i = idx(*r, nlive);
                    let n = m.live[i].size;
                    let h = m.live[i].h.take();
                    m.live[i].size = 0;
                    let cons = m.live[i].cons;
                    m.cons[cons].nres += 1;
                    m.live.push(Live { cons, size: n, h });
                    if n > 0 {
                        split_take += 1;
                    }
                    labels.insert("take".into());
                }
                Op::NewEmpty { r } => {
                    if nlive >= MAX_LIVE {
                        labels.insert("skip:at-cap".into());
                        continue;
                    }
                    let i = idx(*r, nlive);
                    let h = m.live[i].h.new_empty();
                    let cons = m.live[i].cons;
                    m.cons[cons].nres += 1;
                    m.live.push(Live { cons, size: 0, h });
                    labels.insert("new_empty".into());
                }
                Op::Free { r } => {
                    let i = idx(*r, nlive);
                    let size = m.live[i].size;
                    let got = m.live[i].h.free();
                    if got != size {
                        fail!(step, op, format!("free() returned {got}, reservation held {size}"));
                    }
                    m.shrank(i, size);
                    labels.insert("free".into());
                }
                Op::Drop { r } => {
                    let i = idx(*r, nlive);
                    let size = m.live[i].size;
                    m.shrank(i, size);
                    let l = m.live.remove(i);
                    drop(l.h);
                    m.cons[l.cons].nres -= 1;
                    if m.cons[l.cons].nres == 0 {
                        labels.insert("unregister".into());
                    }
                    labels.insert("drop".into());
                }
            }
            if let Err(e) = check_state(&m, &p) {
                fail!(step, op, e);
            }
        }
        // wind down: drop everything, one by one
        let mut k = 0usize;
        while !m.live.is_empty() {
            let i = if case.drop_rev { m.live.len() - 1 } else { 0 };
            let size = m.live[i].size;
            m.shrank(i, size);
            let l = m.live.remove(i);
            drop(l.h);
            m.cons[l.cons].nres -= 1;
            if let Err(e) = check_state(&m, &p) {
                fail!(format!("final-drop-{k}"), "Drop", e);
            }
            k += 1;
        }
        let end = p.pool.reserved();
        if end != 0 {
            fail!("end", "-", format!("pool.reserved() = {end} after every reservation was dropped"));
        }
        if denied > 0 {
            labels.insert("has-denied".into());
        }
        if split_take > 0 {
            labels.insert("has-split-take".into());
        }
        CaseResult::pass().nontrivial(denied > 0 && split_take > 0).labels(labels)
    }
}
