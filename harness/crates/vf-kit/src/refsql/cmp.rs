//! Result comparison helpers: multiset / sequence equality with the float rule (exact or relative
//! 1e-9, NaN ≡ NaN, -0.0 ≡ 0.0), sortedness w.r.t. an ORDER BY over output columns, tie-aware top-k.
use super::ast::OrderItem;
use super::eval::{RefResult, cmp_keys};
use super::expr::{RowCtx, eval_expr};
use super::value::*;
use std::cmp::Ordering;

pub const FLOAT_REL_TOL: f64 = 1e-9;

pub fn float_close(a: f64, b: f64) -> bool {
    if a.is_nan() || b.is_nan() {
        return a.is_nan() && b.is_nan();
    }
    if a == b {
        return true;
    }
    if a.is_infinite() || b.is_infinite() {
        return false;
    }
    (a - b).abs() <= FLOAT_REL_TOL * a.abs().max(b.abs())
}

/// Equality of two result cells. Types must agree (an Int never equals a Float).
pub fn value_matches(a: &Value, b: &Value) -> bool {
    match (a, b) {
        (Value::Null, Value::Null) => true,
        (Value::Bool(x), Value::Bool(y)) => x == y,
        (Value::Int(x), Value::Int(y)) => x == y,
        (Value::Float(x), Value::Float(y)) => float_close(*x, *y),
        (Value::Str(x), Value::Str(y)) => x == y,
        _ => false,
    }
}

pub fn row_matches(a: &[Value], b: &[Value]) -> bool {
    a.len() == b.len() && a.iter().zip(b).all(|(x, y)| value_matches(x, y))
}

/// like `row_matches` but any two floats match (used to tell float-only mismatches apart)
fn row_matches_mod_float(a: &[Value], b: &[Value]) -> bool {
    a.len() == b.len()
        && a.iter().zip(b).all(|(x, y)| match (x, y) {
            (Value::Float(_), Value::Float(_)) => true,
            _ => value_matches(x, y),
        })
}

pub fn fmt_row(r: &[Value]) -> String {
    let cells: Vec<String> = r
        .iter()
        .map(|v| match v {
            Value::Null => "NULL".to_string(),
            Value::Bool(b) => b.to_string(),
            Value::Int(i) => i.to_string(),
            Value::Float(f) => format!("{f:?}"),
            Value::Str(s) => format!("{s:?}"),
        })
        .collect();
    format!("({})", cells.join(", "))
}

pub fn fmt_rows(rows: &[Vec<Value>], max: usize) -> String {
    let mut s: Vec<String> = rows.iter().take(max).map(|r| fmt_row(r)).collect();
    if rows.len() > max {
        s.push(format!("… {} rows in total", rows.len()));
    }
    format!("[{}]", s.join(" "))
}

pub fn canon_sorted(rows: &[Vec<Value>]) -> Vec<Vec<Value>> {
    let mut v = rows.to_vec();
    v.sort_by(|a, b| canon_row_cmp(a, b));
    v
}

/// None = equal as multisets; Some(description) otherwise.
pub fn multiset_diff(expected: &[Vec<Value>], got: &[Vec<Value>]) -> Option<String> {
    if expected.len() != got.len() {
        return Some(format!(
            "row count differs: expected {} got {}\n  expected (sorted): {}\n  got (sorted):      {}",
            expected.len(),
            got.len(),
            fmt_rows(&canon_sorted(expected), 30),
            fmt_rows(&canon_sorted(got), 30)
        ));
    }
    let e = canon_sorted(expected);
    let g = canon_sorted(got);
    for (i, (a, b)) in e.iter().zip(&g).enumerate() {
        if !row_matches(a, b) {
            // canonical sorting and tolerant float matching can disagree: fall back to greedy matching
            if greedy_multiset_eq(&e, &g, row_matches) {
                return None;
            }
            return Some(format!(
                "multisets differ at sorted position {i}: expected {} got {}\n  expected (sorted): {}\n  got (sorted):      {}",
                fmt_row(a),
                fmt_row(b),
                fmt_rows(&e, 30),
                fmt_rows(&g, 30)
            ));
        }
    }
    None
}

fn greedy_multiset_eq(a: &[Vec<Value>], b: &[Vec<Value>], m: fn(&[Value], &[Value]) -> bool) -> bool {
    if a.len() != b.len() {
        return false;
    }
    let mut used = vec![false; b.len()];
    'outer: for x in a {
        for (j, y) in b.iter().enumerate() {
            if !used[j] && m(x, y) {
                used[j] = true;
                continue 'outer;
            }
        }
        return false;
    }
    true
}

/// is `sub` a sub-multiset of `sup`?
fn sub_multiset(sub: &[Vec<Value>], sup: &[Vec<Value>]) -> bool {
    let mut used = vec![false; sup.len()];
    'outer: for x in sub {
        for (j, y) in sup.iter().enumerate() {
            if !used[j] && row_matches(x, y) {
                used[j] = true;
                continue 'outer;
            }
        }
        return false;
    }
    true
}

pub fn sequence_diff(expected: &[Vec<Value>], got: &[Vec<Value>]) -> Option<String> {
    if expected.len() != got.len() {
        return Some(format!("row count differs: expected {} got {}\n  expected: {}\n  got:      {}", expected.len(), got.len(), fmt_rows(expected, 30), fmt_rows(got, 30)));
    }
    for (i, (a, b)) in expected.iter().zip(got).enumerate() {
        if !row_matches(a, b) {
            return Some(format!("sequences differ at row {i}: expected {} got {}\n  expected: {}\n  got:      {}", fmt_row(a), fmt_row(b), fmt_rows(expected, 30), fmt_rows(got, 30)));
        }
    }
    None
}

/// ORDER BY keys of result rows (`order_by` refers to output columns by name).
pub fn order_keys(cols: &[String], rows: &[Vec<Value>], order_by: &[OrderItem]) -> Result<Vec<Vec<Value>>, String> {
    let metas: Vec<(Option<String>, String)> = cols.iter().map(|c| (None, c.clone())).collect();
    let mut out = Vec::with_capacity(rows.len());
    for r in rows {
        if r.len() != cols.len() {
            return Err(format!("row arity {} differs from the {} expected columns", r.len(), cols.len()));
        }
        let ctx = RowCtx::new(&metas, r);
        let mut k = vec![];
        for o in order_by {
            k.push(eval_expr(&o.expr, &ctx).map_err(|e| format!("cannot evaluate ORDER BY key on a result row: {e}"))?);
        }
        out.push(k);
    }
    Ok(out)
}

/// None = rows are sorted according to `order_by`.
pub fn sortedness_violation(cols: &[String], rows: &[Vec<Value>], order_by: &[OrderItem]) -> Option<String> {
    let keys = match order_keys(cols, rows, order_by) {
        Ok(k) => k,
        Err(e) => return Some(e),
    };
    for i in 1..rows.len() {
        if cmp_keys(&keys[i - 1], &keys[i], order_by) == Ordering::Greater {
            return Some(format!("rows {} and {} are out of ORDER BY order: {} then {}", i - 1, i, fmt_row(&rows[i - 1]), fmt_row(&rows[i])));
        }
    }
    None
}

#[derive(Clone, Debug)]
pub struct Mismatch {
    pub message: String,
    /// the results agree once all floats are considered equal (with `RefResult::inexact` set the mismatch
    /// is then not conclusive)
    pub float_only: bool,
}

/// The full result relation of C01: multiset equality (+ sortedness when the query orders; + the
/// tie-aware top-k predicate when the reference flagged an ambiguous cut).
pub fn check_result(reference: &RefResult, got: &[Vec<Value>]) -> Result<(), Mismatch> {
    let mk = |message: String, got: &[Vec<Value>]| {
        let float_only = greedy_multiset_eq(&canon_sorted(&reference.rows), &canon_sorted(got), row_matches_mod_float);
        Mismatch { message, float_only }
    };
    if let Some(r) = got.iter().find(|r| r.len() != reference.cols.len()) {
        return Err(Mismatch { message: format!("result row {} has {} columns, expected {}", fmt_row(r), r.len(), reference.cols.len()), float_only: false });
    }
    if !reference.order_by.is_empty() {
        if let Some(m) = sortedness_violation(&reference.cols, got, &reference.order_by) {
            return Err(Mismatch { message: m, float_only: false });
        }
    }
    match &reference.topk {
        None => match multiset_diff(&reference.rows, got) {
            None => Ok(()),
            Some(m) => Err(mk(m, got)),
        },
        Some(tk) => {
            let n = tk.sorted_all.len();
            let lo = tk.offset.min(n);
            let hi = match tk.limit {
                Some(l) => lo.saturating_add(l).min(n),
                None => n,
            };
            if got.len() != hi - lo {
                return Err(Mismatch { message: format!("top-k: expected {} rows, got {}: {}", hi - lo, got.len(), fmt_rows(got, 30)), float_only: false });
            }
            let all_keys = order_keys(&reference.cols, &tk.sorted_all, &reference.order_by).map_err(|m| Mismatch { message: m, float_only: false })?;
            let got_keys = order_keys(&reference.cols, got, &reference.order_by).map_err(|m| Mismatch { message: m, float_only: false })?;
            let mut a = 0;
            let mut seen = 0;
            while a < n {
                let mut b = a + 1;
                while b < n && cmp_keys(&all_keys[a], &all_keys[b], &reference.order_by) == Ordering::Equal {
                    b += 1;
                }
                let overlap = b.min(hi).saturating_sub(a.max(lo));
                let mine: Vec<Vec<Value>> = got.iter().zip(&got_keys).filter(|(_, k)| cmp_keys(k, &all_keys[a], &reference.order_by) == Ordering::Equal).map(|(r, _)| r.clone()).collect();
                if mine.len() != overlap {
                    return Err(Mismatch {
                        message: format!("top-k: {} result rows carry the key of {}, expected {}\n  all rows sorted: {}\n  got: {}", mine.len(), fmt_row(&tk.sorted_all[a]), overlap, fmt_rows(&tk.sorted_all, 40), fmt_rows(got, 40)),
                        float_only: false,
                    });
                }
                if !sub_multiset(&mine, &tk.sorted_all[a..b]) {
                    return Err(Mismatch {
                        message: format!("top-k: result rows {} are not among the candidates {}", fmt_rows(&mine, 20), fmt_rows(&tk.sorted_all[a..b], 20)),
                        float_only: false,
                    });
                }
                seen += mine.len();
                a = b;
            }
            if seen != got.len() {
                return Err(Mismatch { message: format!("top-k: {} result rows carry keys that no input row has: {}", got.len() - seen, fmt_rows(got, 30)), float_only: false });
            }
            Ok(())
        }
    }
}
