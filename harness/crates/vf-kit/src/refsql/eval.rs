//! The naive query evaluator: nested-loop joins, linear-scan grouping, per-row subquery re-evaluation,
//! bag-semantics set operations, fixpoint recursion. Shares no code with the engine under test.
use super::ast::*;
use super::expr::*;
use super::value::*;
use super::window;
use std::cell::{Cell, RefCell};
use std::cmp::Ordering;
use std::rc::Rc;

#[derive(Clone, Debug, PartialEq)]
pub struct ColMeta {
    pub rel: Option<String>,
    pub name: String,
}

/// An intermediate relation.
#[derive(Clone, Debug, Default)]
pub struct Rel {
    pub cols: Vec<ColMeta>,
    pub rows: Vec<Vec<Value>>,
}

/// Limits of one evaluation.
#[derive(Clone, Debug)]
pub struct EvalOptions {
    /// total number of row-combination steps (join inner loops, group scans) before `TooBig`
    pub fuel: u64,
    /// maximum number of iterations of a recursive CTE before `TooBig`
    pub recursion_cap: usize,
    /// maximum number of rows of any intermediate relation
    pub max_rows: usize,
}

impl Default for EvalOptions {
    fn default() -> Self {
        EvalOptions { fuel: 20_000_000, recursion_cap: 64, max_rows: 200_000 }
    }
}

/// What the top-level `LIMIT` left open when the ORDER BY key has ties at the cut (see `cmp::check_result`).
#[derive(Clone, Debug)]
pub struct TopK {
    /// all rows before OFFSET/LIMIT, sorted by the ORDER BY
    pub sorted_all: Vec<Vec<Value>>,
    pub offset: usize,
    pub limit: Option<usize>,
}

/// Result of the reference evaluation of a top-level query.
#[derive(Clone, Debug)]
pub struct RefResult {
    pub cols: Vec<String>,
    /// rows in ORDER BY order when `order_by` is non-empty (ties in evaluator order), otherwise arbitrary
    pub rows: Vec<Vec<Value>>,
    /// the top-level ORDER BY (over output column names); empty = result is a multiset
    pub order_by: Vec<OrderItem>,
    /// a float operation rounded somewhere: float mismatches are not conclusive
    pub inexact: bool,
    /// Some = the top-level LIMIT/OFFSET cut falls inside a group of tied, non-identical rows: `rows` is one
    /// valid answer; any answer satisfying the tie-aware predicate is valid
    pub topk: Option<TopK>,
}

pub(crate) struct Ctx<'a> {
    pub db: &'a Db,
    pub flags: Flags,
    pub fuel: Cell<u64>,
    pub opts: EvalOptions,
    pub ctes: RefCell<Vec<(String, Rc<Rel>)>>,
}

impl Ctx<'_> {
    pub fn burn(&self, n: u64) -> R<()> {
        let f = self.fuel.get();
        if f < n {
            return Err(RefError::TooBig("fuel"));
        }
        self.fuel.set(f - n);
        Ok(())
    }
}

pub(crate) struct GroupCtx<'a> {
    /// the input rows of this group
    pub rows: &'a [&'a Vec<Value>],
    pub key_exprs: &'a [Expr],
    /// value per key expression (NULL when inactive in this grouping set)
    pub key_vals: &'a [Value],
    pub active: &'a [bool],
}

pub(crate) struct WinCtx<'a> {
    pub calls: &'a [WinCall],
    /// vals[call][row]
    pub vals: &'a [Vec<Value>],
    pub row_idx: usize,
}

pub(crate) struct Scope<'a> {
    pub ctx: &'a Ctx<'a>,
    pub cols: &'a [ColMeta],
    pub row: &'a [Value],
    pub parent: Option<&'a Scope<'a>>,
    pub group: Option<&'a GroupCtx<'a>>,
    pub win: Option<&'a WinCtx<'a>>,
}

impl<'a> Scope<'a> {
    fn plain(ctx: &'a Ctx<'a>, cols: &'a [ColMeta], row: &'a [Value], parent: Option<&'a Scope<'a>>) -> Scope<'a> {
        Scope { ctx, cols, row, parent, group: None, win: None }
    }
}

impl ExprCtx for Scope<'_> {
    fn col(&self, rel: Option<&str>, name: &str) -> R<Value> {
        if let Some(g) = self.group {
            for (i, k) in g.key_exprs.iter().enumerate() {
                if let Expr::Col { rel: r2, name: n2 } = k {
                    if n2 == name && r2.as_deref() == rel {
                        return Ok(g.key_vals[i].clone());
                    }
                }
            }
        }
        for (i, c) in self.cols.iter().enumerate() {
            if c.name == name && (rel.is_none() || c.rel.as_deref() == rel) {
                return Ok(self.row[i].clone());
            }
        }
        match self.parent {
            Some(p) => p.col(rel, name),
            None => Err(RefError::Type(format!("unknown column {rel:?}.{name}"))),
        }
    }

    fn flags(&self) -> Option<&Flags> {
        Some(&self.ctx.flags)
    }

    fn hook(&self, e: &Expr) -> Option<R<Value>> {
        if let Some(g) = self.group {
            if !matches!(e, Expr::Lit(_) | Expr::Null(_)) {
                for (i, k) in g.key_exprs.iter().enumerate() {
                    if k == e {
                        return Some(Ok(g.key_vals[i].clone()));
                    }
                }
            }
        }
        match e {
            Expr::Agg(a) => Some(match self.group {
                Some(g) => eval_agg(a, g, self),
                None => Err(RefError::Type("aggregate outside an aggregated select".into())),
            }),
            Expr::Win(w) => Some(match self.win {
                Some(wc) => match wc.calls.iter().position(|c| c == &**w) {
                    Some(i) => Ok(wc.vals[i][wc.row_idx].clone()),
                    None => Err(RefError::Type("window call not precomputed".into())),
                },
                None => Err(RefError::Type("window call outside a select list".into())),
            }),
            Expr::Grouping(x) => Some(match self.group {
                Some(g) => match g.key_exprs.iter().position(|k| k == &**x) {
                    Some(i) => Ok(Value::Int(if g.active[i] { 0 } else { 1 })),
                    None => Err(RefError::Type("grouping() of a non-key".into())),
                },
                None => Err(RefError::Type("grouping() outside an aggregated select".into())),
            }),
            Expr::Exists { q, negated } => Some(eval_query_rel(self.ctx, q, Some(self)).map(|r| Value::Bool(r.rows.is_empty() == *negated))),
            Expr::InSubquery { e, q, negated } => Some((|| {
                let v = eval_expr(e, self)?;
                let r = eval_query_rel(self.ctx, q, Some(self))?;
                let cands: Vec<Value> = r.rows.into_iter().map(|mut r| r.swap_remove(0)).collect();
                let t = in3(&v, &cands)?;
                Ok(match if *negated { not3(t) } else { t } {
                    None => Value::Null,
                    Some(b) => Value::Bool(b),
                })
            })()),
            Expr::Scalar(q) => Some((|| {
                let r = eval_query_rel(self.ctx, q, Some(self))?;
                match r.rows.len() {
                    0 => Ok(Value::Null),
                    1 => Ok(r.rows[0][0].clone()),
                    _ => Err(RefError::ScalarCardinality),
                }
            })()),
            Expr::Quantified { e, op, all, q } => Some((|| {
                let v = eval_expr(e, self)?;
                let r = eval_query_rel(self.ctx, q, Some(self))?;
                let cands: Vec<Value> = r.rows.into_iter().map(|mut r| r.swap_remove(0)).collect();
                Ok(match quantified3(&v, *op, *all, &cands)? {
                    None => Value::Null,
                    Some(b) => Value::Bool(b),
                })
            })()),
            _ => None,
        }
    }
}

fn dedupe(rows: Vec<Vec<Value>>) -> Vec<Vec<Value>> {
    let mut out: Vec<Vec<Value>> = vec![];
    for r in rows {
        if !out.iter().any(|o| row_group_eq(o, &r)) {
            out.push(r);
        }
    }
    out
}

fn dedupe_vals(vals: Vec<Value>) -> Vec<Value> {
    let mut out: Vec<Value> = vec![];
    for v in vals {
        if !out.iter().any(|o| group_eq(o, &v)) {
            out.push(v);
        }
    }
    out
}

/// Aggregate over the rows of a group. `scope` is the group's scope (its parent chain gives the outer rows).
fn eval_agg(a: &AggCall, g: &GroupCtx<'_>, scope: &Scope<'_>) -> R<Value> {
    let mut vals: Vec<Value> = vec![];
    let mut star = 0i64;
    for row in g.rows {
        scope.ctx.burn(1)?;
        let s = Scope::plain(scope.ctx, scope.cols, row, scope.parent);
        if let Some(f) = &a.filter {
            if !eval_expr(f, &s)?.is_true() {
                continue;
            }
        }
        match &a.arg {
            None => star += 1,
            Some(x) => vals.push(eval_expr(x, &s)?),
        }
    }
    agg_over_values(a.f, a.distinct, a.arg.is_none(), star, vals, &scope.ctx.flags)
}

/// The aggregate functions over an already evaluated argument column (shared with window frames).
pub(crate) fn agg_over_values(f: AggFunc, distinct: bool, is_star: bool, star: i64, vals: Vec<Value>, flags: &Flags) -> R<Value> {
    if f == AggFunc::Count && is_star {
        return Ok(Value::Int(star));
    }
    let mut vals: Vec<Value> = vals.into_iter().filter(|v| !v.is_null()).collect();
    if distinct {
        vals = dedupe_vals(vals);
    }
    match f {
        AggFunc::Count => Ok(Value::Int(vals.len() as i64)),
        AggFunc::Sum => {
            if vals.is_empty() {
                return Ok(Value::Null);
            }
            match &vals[0] {
                Value::Int(_) => {
                    let mut s: i128 = 0;
                    for v in &vals {
                        match v {
                            Value::Int(i) => s += *i as i128,
                            o => return Err(RefError::Type(format!("sum over mixed {o:?}"))),
                        }
                    }
                    if s > i64::MAX as i128 || s < i64::MIN as i128 { Err(RefError::Overflow) } else { Ok(Value::Int(s as i64)) }
                }
                Value::Float(_) => {
                    let mut inexact = false;
                    let mut s = 0.0f64;
                    for v in &vals {
                        match v {
                            Value::Float(x) => s = float_add(s, *x, &mut inexact),
                            o => return Err(RefError::Type(format!("sum over mixed {o:?}"))),
                        }
                    }
                    if inexact {
                        flags.inexact.set(true);
                    }
                    float_result(s)
                }
                o => Err(RefError::Type(format!("sum({o:?})"))),
            }
        }
        AggFunc::Avg => {
            if vals.is_empty() {
                return Ok(Value::Null);
            }
            let mut inexact = false;
            let mut s = 0.0f64;
            for v in &vals {
                let x = match v {
                    Value::Int(i) => int_to_float(*i, &mut inexact),
                    Value::Float(x) => *x,
                    o => return Err(RefError::Type(format!("avg({o:?})"))),
                };
                s = float_add(s, x, &mut inexact);
            }
            if inexact {
                flags.inexact.set(true);
            }
            float_result(s / vals.len() as f64)
        }
        AggFunc::Min | AggFunc::Max => {
            let mut best: Option<&Value> = None;
            for v in &vals {
                best = Some(match best {
                    None => v,
                    Some(b) => {
                        let c = sql_cmp(v, b).ok_or_else(|| RefError::Type("min/max".into()))?;
                        if (f == AggFunc::Max && c == Ordering::Greater) || (f == AggFunc::Min && c == Ordering::Less) { v } else { b }
                    }
                });
            }
            Ok(best.cloned().unwrap_or(Value::Null))
        }
        AggFunc::BoolAnd | AggFunc::BoolOr => {
            if vals.is_empty() {
                return Ok(Value::Null);
            }
            let mut acc = f == AggFunc::BoolAnd;
            for v in &vals {
                match v {
                    Value::Bool(b) => {
                        if f == AggFunc::BoolAnd {
                            acc &= *b
                        } else {
                            acc |= *b
                        }
                    }
                    o => return Err(RefError::Type(format!("bool_and/or({o:?})"))),
                }
            }
            Ok(Value::Bool(acc))
        }
    }
}

fn float_result(f: f64) -> R<Value> {
    if !f.is_finite() {
        return Err(RefError::FloatDomain("non-finite"));
    }
    if f == 0.0 && f.is_sign_negative() {
        return Err(RefError::FloatDomain("negative zero"));
    }
    Ok(Value::Float(f))
}

// ---------------------------------------------------------------------------------------------
// expression walkers

/// Visit the sub-expressions of `e` that belong to the same query level (does not enter subqueries).
pub fn walk_expr_shallow<'e>(e: &'e Expr, f: &mut dyn FnMut(&'e Expr)) {
    f(e);
    let mut go = |x: &'e Expr| walk_expr_shallow(x, f);
    match e {
        Expr::Col { .. } | Expr::Lit(_) | Expr::Null(_) => {}
        Expr::Bin(_, l, r) => {
            go(l);
            go(r)
        }
        Expr::Not(x) | Expr::Neg(x) | Expr::Cast(x, _) | Expr::Grouping(x) => go(x),
        Expr::IsNull { e, .. } | Expr::BoolTest { e, .. } => go(e),
        Expr::IsDistinctFrom { l, r, .. } => {
            go(l);
            go(r)
        }
        Expr::Between { e, lo, hi, .. } => {
            go(e);
            go(lo);
            go(hi)
        }
        Expr::InList { e, list, .. } => {
            go(e);
            for x in list {
                go(x)
            }
        }
        Expr::Like { e, pat, .. } => {
            go(e);
            go(pat)
        }
        Expr::Case { operand, whens, else_ } => {
            if let Some(o) = operand {
                go(o)
            }
            for (w, t) in whens {
                go(w);
                go(t)
            }
            if let Some(x) = else_ {
                go(x)
            }
        }
        Expr::Coalesce(es) | Expr::Func(_, es) => {
            for x in es {
                go(x)
            }
        }
        Expr::NullIf(a, b) => {
            go(a);
            go(b)
        }
        Expr::Agg(a) => {
            if let Some(x) = &a.arg {
                go(x)
            }
            if let Some(x) = &a.filter {
                go(x)
            }
        }
        Expr::Win(w) => {
            for x in &w.args {
                go(x)
            }
            for x in &w.partition_by {
                go(x)
            }
            for o in &w.order_by {
                go(&o.expr)
            }
        }
        Expr::Exists { .. } | Expr::Scalar(_) => {}
        Expr::InSubquery { e, .. } | Expr::Quantified { e, .. } => go(e),
    }
}

/// does `e` contain an aggregate call at this query level (not inside a window call's own function)?
pub fn contains_agg(e: &Expr) -> bool {
    let mut found = false;
    walk_expr_shallow(e, &mut |x| {
        if matches!(x, Expr::Agg(_) | Expr::Grouping(_)) {
            found = true
        }
    });
    found
}

pub fn collect_windows(e: &Expr, out: &mut Vec<WinCall>) {
    walk_expr_shallow(e, &mut |x| {
        if let Expr::Win(w) = x {
            if !out.iter().any(|o| o == &**w) {
                out.push((**w).clone());
            }
        }
    });
}

// ---------------------------------------------------------------------------------------------
// FROM

fn null_row(n: usize) -> Vec<Value> {
    vec![Value::Null; n]
}

fn eval_table_ref(ctx: &Ctx<'_>, t: &TableRef, parent: Option<&Scope<'_>>) -> R<Rel> {
    match t {
        TableRef::Table { name, alias } => {
            let cte = ctx.ctes.borrow().iter().rev().find(|(n, _)| n == name).map(|(_, r)| r.clone());
            if let Some(r) = cte {
                return Ok(Rel { cols: r.cols.iter().map(|c| ColMeta { rel: Some(alias.clone()), name: c.name.clone() }).collect(), rows: r.rows.clone() });
            }
            let tab = ctx.db.table(name).ok_or_else(|| RefError::Type(format!("unknown table {name}")))?;
            Ok(Rel { cols: tab.cols.iter().map(|c| ColMeta { rel: Some(alias.clone()), name: c.name.clone() }).collect(), rows: tab.rows.clone() })
        }
        TableRef::Derived { q, alias } => {
            let r = eval_query_rel(ctx, q, parent)?;
            Ok(Rel { cols: r.cols.into_iter().map(|c| ColMeta { rel: Some(alias.clone()), name: c.name }).collect(), rows: r.rows })
        }
        TableRef::Series { start, stop, step, exclusive, alias } => {
            let mut rows = vec![];
            if *step == 0 {
                return Err(RefError::Unsupported("generate_series step 0".into()));
            }
            let mut v = *start as i128;
            let (stop, step) = (*stop as i128, *step as i128);
            loop {
                let inside = if step > 0 {
                    if *exclusive { v < stop } else { v <= stop }
                } else if *exclusive {
                    v > stop
                } else {
                    v >= stop
                };
                if !inside {
                    break;
                }
                rows.push(vec![Value::Int(v as i64)]);
                if rows.len() > ctx.opts.max_rows {
                    return Err(RefError::TooBig("series"));
                }
                v += step;
            }
            Ok(Rel { cols: vec![ColMeta { rel: Some(alias.clone()), name: "value".into() }], rows })
        }
        TableRef::Values { rows, alias, cols } => {
            let mut out = vec![];
            let empty_cols: Vec<ColMeta> = vec![];
            let empty_row: Vec<Value> = vec![];
            for r in rows {
                let s = Scope::plain(ctx, &empty_cols, &empty_row, parent);
                let mut row = vec![];
                for e in r {
                    row.push(eval_expr(e, &s)?);
                }
                out.push(row);
            }
            Ok(Rel { cols: cols.iter().map(|c| ColMeta { rel: Some(alias.clone()), name: c.clone() }).collect(), rows: out })
        }
        TableRef::Join { kind, left, right, on } => {
            let l = eval_table_ref(ctx, left, parent)?;
            let r = eval_table_ref(ctx, right, parent)?;
            let mut cols = l.cols.clone();
            cols.extend(r.cols.iter().cloned());
            let (nl, nr) = (l.cols.len(), r.cols.len());
            let matches = |lr: &Vec<Value>, rr: &Vec<Value>| -> R<bool> {
                ctx.burn(1)?;
                match on {
                    None => Ok(true),
                    Some(p) => {
                        let mut row = lr.clone();
                        row.extend(rr.iter().cloned());
                        let s = Scope::plain(ctx, &cols, &row, parent);
                        Ok(eval_expr(p, &s)?.is_true())
                    }
                }
            };
            let mut out: Vec<Vec<Value>> = vec![];
            let cat = |a: &Vec<Value>, b: &Vec<Value>| {
                let mut row = a.clone();
                row.extend(b.iter().cloned());
                row
            };
            match kind {
                JoinKind::Inner | JoinKind::Cross | JoinKind::Left | JoinKind::Right | JoinKind::Full => {
                    let mut r_matched = vec![false; r.rows.len()];
                    for lr in &l.rows {
                        let mut any = false;
                        for (j, rr) in r.rows.iter().enumerate() {
                            if matches(lr, rr)? {
                                any = true;
                                r_matched[j] = true;
                                out.push(cat(lr, rr));
                            }
                        }
                        if !any && matches!(kind, JoinKind::Left | JoinKind::Full) {
                            out.push(cat(lr, &null_row(nr)));
                        }
                        if out.len() > ctx.opts.max_rows {
                            return Err(RefError::TooBig("join output"));
                        }
                    }
                    if matches!(kind, JoinKind::Right | JoinKind::Full) {
                        for (j, rr) in r.rows.iter().enumerate() {
                            if !r_matched[j] {
                                out.push(cat(&null_row(nl), rr));
                            }
                        }
                    }
                    Ok(Rel { cols, rows: out })
                }
                JoinKind::LeftSemi | JoinKind::LeftAnti => {
                    for lr in &l.rows {
                        let mut any = false;
                        for rr in &r.rows {
                            if matches(lr, rr)? {
                                any = true;
                                break;
                            }
                        }
                        if any == (*kind == JoinKind::LeftSemi) {
                            out.push(lr.clone());
                        }
                    }
                    Ok(Rel { cols: l.cols, rows: out })
                }
                JoinKind::RightSemi | JoinKind::RightAnti => {
                    for rr in &r.rows {
                        let mut any = false;
                        for lr in &l.rows {
                            if matches(lr, rr)? {
                                any = true;
                                break;
                            }
                        }
                        if any == (*kind == JoinKind::RightSemi) {
                            out.push(rr.clone());
                        }
                    }
                    Ok(Rel { cols: r.cols, rows: out })
                }
            }
        }
    }
}

// ---------------------------------------------------------------------------------------------
// SELECT

/// one row of the stage between FROM/WHERE/GROUP BY and the projection
struct RowCx {
    repr: Vec<Value>,
    group: Option<GroupData>,
}

struct GroupData {
    rows: Vec<usize>,
    key_vals: Vec<Value>,
    active: Vec<bool>,
}

fn grouping_sets(gb: &GroupBy) -> (Vec<Expr>, Vec<Vec<bool>>) {
    fn keys_of(lists: &[&[Expr]]) -> Vec<Expr> {
        let mut keys: Vec<Expr> = vec![];
        for l in lists {
            for e in l.iter() {
                if !keys.contains(e) {
                    keys.push(e.clone());
                }
            }
        }
        keys
    }
    match gb {
        GroupBy::None => (vec![], vec![vec![]]),
        GroupBy::Plain(es) => {
            let keys = keys_of(&[es]);
            let n = keys.len();
            (keys, vec![vec![true; n]])
        }
        GroupBy::Sets(sets) => {
            let lists: Vec<&[Expr]> = sets.iter().map(|s| s.as_slice()).collect();
            let keys = keys_of(&lists);
            let act = sets.iter().map(|s| keys.iter().map(|k| s.contains(k)).collect()).collect();
            (keys, act)
        }
        GroupBy::Rollup(es) => {
            // keys may repeat in `es`; a prefix activates the keys it mentions
            let keys = keys_of(&[es]);
            let mut act = vec![];
            for n in (0..=es.len()).rev() {
                act.push(keys.iter().map(|k| es[..n].contains(k)).collect());
            }
            (keys, act)
        }
        GroupBy::Cube(es) => {
            let keys = keys_of(&[es]);
            let mut act = vec![];
            let m = es.len();
            for mask in (0..(1u32 << m)).rev() {
                let chosen: Vec<&Expr> = (0..m).filter(|i| mask & (1 << (m - 1 - i)) != 0).map(|i| &es[i]).collect();
                act.push(keys.iter().map(|k| chosen.contains(&k)).collect());
            }
            (keys, act)
        }
    }
}

fn eval_select(ctx: &Ctx<'_>, sel: &Select, parent: Option<&Scope<'_>>) -> R<Rel> {
    let input = match &sel.from {
        Some(t) => eval_table_ref(ctx, t, parent)?,
        None => Rel { cols: vec![], rows: vec![vec![]] },
    };
    let cols = &input.cols;
    // WHERE
    let mut rows: Vec<Vec<Value>> = vec![];
    for r in input.rows.iter() {
        ctx.burn(1)?;
        let keep = match &sel.where_ {
            None => true,
            Some(w) => eval_expr(w, &Scope::plain(ctx, cols, r, parent))?.is_true(),
        };
        if keep {
            rows.push(r.clone());
        }
    }
    // GROUP BY
    let is_agg = !matches!(sel.group_by, GroupBy::None)
        || sel.items.iter().any(|i| contains_agg(&i.expr))
        || sel.having.as_ref().map(contains_agg).unwrap_or(false)
        || sel.qualify.as_ref().map(contains_agg).unwrap_or(false);
    let (key_exprs, sets) = grouping_sets(&sel.group_by);
    let mut cxs: Vec<RowCx> = vec![];
    if is_agg {
        for active in &sets {
            let mut groups: Vec<GroupData> = vec![];
            for (ri, r) in rows.iter().enumerate() {
                let s = Scope::plain(ctx, cols, r, parent);
                let mut kv = Vec::with_capacity(key_exprs.len());
                for (k, a) in key_exprs.iter().zip(active) {
                    kv.push(if *a { eval_expr(k, &s)? } else { Value::Null });
                }
                ctx.burn(groups.len() as u64 + 1)?;
                match groups.iter_mut().find(|g| row_group_eq(&g.key_vals, &kv)) {
                    Some(g) => g.rows.push(ri),
                    None => groups.push(GroupData { rows: vec![ri], key_vals: kv, active: active.clone() }),
                }
            }
            // a grouping set without active keys yields one group even over empty input
            if groups.is_empty() && active.iter().all(|a| !a) && (matches!(sel.group_by, GroupBy::None) || key_exprs.is_empty() || !matches!(sel.group_by, GroupBy::Plain(_))) {
                groups.push(GroupData { rows: vec![], key_vals: vec![Value::Null; key_exprs.len()], active: active.clone() });
            }
            for g in groups {
                let repr = g.rows.first().map(|i| rows[*i].clone()).unwrap_or_else(|| null_row(cols.len()));
                cxs.push(RowCx { repr, group: Some(g) });
            }
        }
    } else {
        for r in rows.iter() {
            cxs.push(RowCx { repr: r.clone(), group: None });
        }
    }

    // evaluation of an expression on a row context
    let eval_on = |cx: &RowCx, e: &Expr, win: Option<&WinCtx<'_>>| -> R<Value> {
        match &cx.group {
            None => {
                let s = Scope { ctx, cols, row: &cx.repr, parent, group: None, win };
                eval_expr(e, &s)
            }
            Some(g) => {
                let grows: Vec<&Vec<Value>> = g.rows.iter().map(|i| &rows[*i]).collect();
                let gc = GroupCtx { rows: &grows, key_exprs: &key_exprs, key_vals: &g.key_vals, active: &g.active };
                let s = Scope { ctx, cols, row: &cx.repr, parent, group: Some(&gc), win };
                eval_expr(e, &s)
            }
        }
    };

    // HAVING
    if let Some(h) = &sel.having {
        let mut kept = vec![];
        for cx in cxs {
            if eval_on(&cx, h, None)?.is_true() {
                kept.push(cx);
            }
        }
        cxs = kept;
    }

    // window functions
    let mut wins: Vec<WinCall> = vec![];
    for it in &sel.items {
        collect_windows(&it.expr, &mut wins);
    }
    if let Some(q) = &sel.qualify {
        collect_windows(q, &mut wins);
    }
    let mut win_vals: Vec<Vec<Value>> = vec![];
    if !wins.is_empty() {
        let n = cxs.len();
        // identity of a row for the determinism analysis: full input row, or (keys, grouping set) for groups
        let ident: Vec<Vec<Value>> = cxs
            .iter()
            .enumerate()
            .map(|(i, cx)| match &cx.group {
                None => cx.repr.clone(),
                // two groups are never interchangeable
                Some(_) => vec![Value::Int(i as i64)],
            })
            .collect();
        for w in &wins {
            let ev = |i: usize, e: &Expr| -> R<Value> { eval_on(&cxs[i], e, None) };
            win_vals.push(window::compute(ctx, w, n, &ev, &ident, wins.len() > 1)?);
        }
    }

    // QUALIFY + projection
    let mut out_rows = vec![];
    for (i, cx) in cxs.iter().enumerate() {
        let wc = WinCtx { calls: &wins, vals: &win_vals, row_idx: i };
        let wopt = if wins.is_empty() { None } else { Some(&wc) };
        if let Some(q) = &sel.qualify {
            if !eval_on(cx, q, wopt)?.is_true() {
                continue;
            }
        }
        let mut row = Vec::with_capacity(sel.items.len());
        for it in &sel.items {
            row.push(eval_on(cx, &it.expr, wopt)?);
        }
        out_rows.push(row);
    }
    if sel.distinct {
        ctx.burn((out_rows.len() * out_rows.len()) as u64 / 2)?;
        out_rows = dedupe(out_rows);
    }
    Ok(Rel { cols: sel.items.iter().map(|i| ColMeta { rel: None, name: i.alias.clone() }).collect(), rows: out_rows })
}

// ---------------------------------------------------------------------------------------------
// set expressions and queries

fn remove_one(rows: &mut Vec<Vec<Value>>, r: &[Value]) -> bool {
    if let Some(p) = rows.iter().position(|x| row_group_eq(x, r)) {
        rows.swap_remove(p);
        true
    } else {
        false
    }
}

fn eval_set_expr(ctx: &Ctx<'_>, e: &SetExpr, parent: Option<&Scope<'_>>) -> R<Rel> {
    match e {
        SetExpr::Select(s) => eval_select(ctx, s, parent),
        SetExpr::Query(q) => eval_query_rel(ctx, q, parent),
        SetExpr::SetOp { op, all, left, right } => {
            let l = eval_set_expr(ctx, left, parent)?;
            let r = eval_set_expr(ctx, right, parent)?;
            if l.cols.len() != r.cols.len() {
                return Err(RefError::Type("set operation arity".into()));
            }
            ctx.burn((l.rows.len() as u64 + 1) * (r.rows.len() as u64 + 1))?;
            let rows = match (op, all) {
                (SetOp::Union, true) => {
                    let mut v = l.rows;
                    v.extend(r.rows);
                    v
                }
                (SetOp::Union, false) => {
                    let mut v = l.rows;
                    v.extend(r.rows);
                    dedupe(v)
                }
                (SetOp::Intersect, true) => {
                    let mut rr = r.rows;
                    l.rows.into_iter().filter(|x| remove_one(&mut rr, x)).collect()
                }
                (SetOp::Intersect, false) => dedupe(l.rows).into_iter().filter(|x| r.rows.iter().any(|y| row_group_eq(x, y))).collect(),
                (SetOp::Except, true) => {
                    let mut rr = r.rows;
                    l.rows.into_iter().filter(|x| !remove_one(&mut rr, x)).collect()
                }
                (SetOp::Except, false) => dedupe(l.rows).into_iter().filter(|x| !r.rows.iter().any(|y| row_group_eq(x, y))).collect(),
            };
            Ok(Rel { cols: l.cols, rows })
        }
    }
}

fn eval_recursive_cte(ctx: &Ctx<'_>, cte: &Cte, parent: Option<&Scope<'_>>) -> R<Rel> {
    let q = &cte.q;
    let (all, anchor, step) = match &q.body {
        SetExpr::SetOp { op: SetOp::Union, all, left, right } => (*all, left, right),
        _ => return Err(RefError::Unsupported("recursive CTE body must be a UNION".into())),
    };
    if !q.order_by.is_empty() || q.limit.is_some() || q.offset.is_some() {
        return Err(RefError::Unsupported("ORDER BY / LIMIT on a recursive CTE body".into()));
    }
    let a = eval_set_expr(ctx, anchor, parent)?;
    let names: Vec<ColMeta> = if cte.cols.is_empty() { a.cols.clone() } else { cte.cols.iter().map(|c| ColMeta { rel: None, name: c.clone() }).collect() };
    if names.len() != a.cols.len() {
        return Err(RefError::Type("CTE column list arity".into()));
    }
    let mut result = if all { a.rows } else { dedupe(a.rows) };
    let mut working = result.clone();
    let mut iters = 0;
    while !working.is_empty() {
        iters += 1;
        if iters > ctx.opts.recursion_cap {
            return Err(RefError::TooBig("recursion cap"));
        }
        ctx.ctes.borrow_mut().push((cte.name.clone(), Rc::new(Rel { cols: names.clone(), rows: working })));
        let r = eval_set_expr(ctx, step, parent);
        ctx.ctes.borrow_mut().pop();
        let mut new = r?.rows;
        if !all {
            ctx.burn((new.len() as u64 + 1) * (result.len() as u64 + new.len() as u64 + 1))?;
            new = dedupe(new).into_iter().filter(|x| !result.iter().any(|y| row_group_eq(x, y))).collect();
        }
        result.extend(new.iter().cloned());
        if result.len() > ctx.opts.max_rows {
            return Err(RefError::TooBig("recursive CTE rows"));
        }
        working = new;
    }
    Ok(Rel { cols: names, rows: result })
}

struct Sorted {
    rows: Vec<Vec<Value>>,
    keys: Vec<Vec<Value>>,
}

fn sort_rows(ctx: &Ctx<'_>, cols: &[ColMeta], rows: Vec<Vec<Value>>, order_by: &[OrderItem], parent: Option<&Scope<'_>>) -> R<Sorted> {
    let mut keyed: Vec<(Vec<Value>, Vec<Value>)> = vec![];
    for r in rows {
        let mut k = Vec::with_capacity(order_by.len());
        {
            let s = Scope::plain(ctx, cols, &r, parent);
            for o in order_by {
                k.push(eval_expr(&o.expr, &s)?);
            }
        }
        keyed.push((k, r));
    }
    ctx.burn(keyed.len() as u64 * 8)?;
    keyed.sort_by(|a, b| cmp_keys(&a.0, &b.0, order_by));
    let (keys, rows) = keyed.into_iter().unzip();
    Ok(Sorted { rows, keys })
}

pub(crate) fn cmp_keys(a: &[Value], b: &[Value], order_by: &[OrderItem]) -> Ordering {
    for ((x, y), o) in a.iter().zip(b).zip(order_by) {
        let c = order_cmp(x, y, o.desc, o.nulls_first_resolved());
        if c != Ordering::Equal {
            return c;
        }
    }
    Ordering::Equal
}

/// Is the OFFSET/LIMIT cut of `sorted` well-defined as a multiset? (A tie group straddling a cut
/// position must consist of identical rows.)
fn cut_is_ambiguous(s: &Sorted, order_by: &[OrderItem], offset: usize, limit: Option<usize>) -> bool {
    let n = s.rows.len();
    if limit == Some(0) {
        return false;
    }
    let mut cuts = vec![offset];
    if let Some(l) = limit {
        cuts.push(offset.saturating_add(l));
    }
    for p in cuts {
        if p == 0 || p >= n {
            continue;
        }
        if cmp_keys(&s.keys[p - 1], &s.keys[p], order_by) != Ordering::Equal {
            continue;
        }
        // tie group around p
        let mut lo = p - 1;
        while lo > 0 && cmp_keys(&s.keys[lo - 1], &s.keys[p], order_by) == Ordering::Equal {
            lo -= 1;
        }
        let mut hi = p;
        while hi + 1 < n && cmp_keys(&s.keys[hi + 1], &s.keys[p], order_by) == Ordering::Equal {
            hi += 1;
        }
        if (lo..=hi).any(|i| !row_group_eq(&s.rows[i], &s.rows[lo])) {
            return true;
        }
    }
    false
}

pub(crate) fn eval_query_rel(ctx: &Ctx<'_>, q: &Query, parent: Option<&Scope<'_>>) -> R<Rel> {
    let (rel, topk) = eval_query_full(ctx, q, parent, false)?;
    debug_assert!(topk.is_none());
    Ok(rel)
}

fn eval_query_full(ctx: &Ctx<'_>, q: &Query, parent: Option<&Scope<'_>>, allow_topk: bool) -> R<(Rel, Option<TopK>)> {
    let n_ctes_before = ctx.ctes.borrow().len();
    let r = (|| {
        for cte in &q.with {
            let rel = if cte.recursive {
                eval_recursive_cte(ctx, cte, parent)?
            } else {
                let r = eval_query_rel(ctx, &cte.q, parent)?;
                if cte.cols.is_empty() {
                    r
                } else {
                    if cte.cols.len() != r.cols.len() {
                        return Err(RefError::Type("CTE column list arity".into()));
                    }
                    Rel { cols: cte.cols.iter().map(|c| ColMeta { rel: None, name: c.clone() }).collect(), rows: r.rows }
                }
            };
            ctx.ctes.borrow_mut().push((cte.name.clone(), Rc::new(rel)));
        }
        let body = eval_set_expr(ctx, &q.body, parent)?;
        if body.rows.len() > ctx.opts.max_rows {
            return Err(RefError::TooBig("rows"));
        }
        if q.order_by.is_empty() && q.limit.is_none() && q.offset.is_none() {
            return Ok((body, None));
        }
        let cols = body.cols;
        let sorted = sort_rows(ctx, &cols, body.rows, &q.order_by, parent)?;
        let offset = q.offset.unwrap_or(0) as usize;
        let limit = q.limit.map(|l| l as usize);
        let mut topk = None;
        if (q.limit.is_some() || q.offset.is_some()) && cut_is_ambiguous(&sorted, &q.order_by, offset, limit) {
            if allow_topk && !q.order_by.is_empty() {
                topk = Some(TopK { sorted_all: sorted.rows.clone(), offset, limit });
            } else {
                return Err(RefError::Nondeterministic("LIMIT/OFFSET cuts through tied rows".into()));
            }
        }
        let rows: Vec<Vec<Value>> = sorted.rows.into_iter().skip(offset).take(limit.unwrap_or(usize::MAX)).collect();
        Ok((Rel { cols, rows }, topk))
    })();
    ctx.ctes.borrow_mut().truncate(n_ctes_before);
    r
}

/// Evaluate a top-level query over a database with default limits.
pub fn eval(q: &Query, db: &Db) -> R<RefResult> {
    eval_with(q, db, &EvalOptions::default())
}

pub fn eval_with(q: &Query, db: &Db, opts: &EvalOptions) -> R<RefResult> {
    let ctx = Ctx { db, flags: Flags::default(), fuel: Cell::new(opts.fuel), opts: opts.clone(), ctes: RefCell::new(vec![]) };
    let (rel, topk) = eval_query_full(&ctx, q, None, true)?;
    Ok(RefResult { cols: rel.cols.into_iter().map(|c| c.name).collect(), rows: rel.rows, order_by: q.order_by.clone(), inexact: ctx.flags.inexact.get(), topk })
}

/// Dynamic determinism: the query's result on this database is a function of the inputs (no LIMIT
/// over ties anywhere — including the top level —, no order-sensitive window over ties). Errors of other
/// kinds count as "not deterministic" too (nothing can be compared).
pub fn deterministic_on(q: &Query, db: &Db) -> bool {
    match eval(q, db) {
        Ok(r) => r.topk.is_none(),
        Err(_) => false,
    }
}
