//! placeholder
