//! Hand-derived truth tables for the reference evaluator (NULL logic, NOT IN / ANY / ALL with NULLs, outer
//! joins, window frames) and smoke tests of printer + generator.
use super::*;
use Value::{Bool as B, Int as I, Null as N};

fn t(name: &str, cols: &[(&str, Ty)], rows: Vec<Vec<Value>>) -> Table {
    Table { name: name.into(), cols: cols.iter().map(|(n, ty)| ColDef { name: n.to_string(), ty: *ty }).collect(), rows }
}

fn sel(items: Vec<(Expr, &str)>, from: Option<TableRef>, where_: Option<Expr>) -> Select {
    Select { distinct: false, items: items.into_iter().map(|(e, a)| SelectItem { expr: e, alias: a.into() }).collect(), from, where_, group_by: GroupBy::None, having: None, qualify: None }
}

fn tab(name: &str, alias: &str) -> TableRef {
    TableRef::Table { name: name.into(), alias: alias.into() }
}

fn rows_of(q: &Query, db: &Db) -> Vec<Vec<Value>> {
    let mut r = eval(q, db).unwrap().rows;
    r.sort_by(|a, b| canon_row_cmp(a, b));
    r
}

fn s(x: &str) -> Value {
    Value::Str(x.into())
}

fn const_query(e: Expr) -> Query {
    Query::simple(sel(vec![(e, "k0")], None, None))
}

fn eval_const(e: Expr) -> Value {
    eval(&const_query(e), &Db::default()).unwrap().rows[0][0].clone()
}

fn lit3(v: Option<bool>) -> Expr {
    match v {
        None => Expr::Null(Ty::Bool),
        Some(b) => Expr::bool(b),
    }
}

fn val3(v: Option<bool>) -> Value {
    match v {
        None => N,
        Some(b) => B(b),
    }
}

#[test]
fn three_valued_connectives() {
    let vals = [Some(true), Some(false), None];
    // truth tables written out by hand (Kleene logic)
    let and_tt = [[Some(true), Some(false), None], [Some(false), Some(false), Some(false)], [None, Some(false), None]];
    let or_tt = [[Some(true), Some(true), Some(true)], [Some(true), Some(false), None], [Some(true), None, None]];
    let not_tt = [Some(false), Some(true), None];
    for (i, a) in vals.iter().enumerate() {
        assert_eq!(eval_const(Expr::Not(Box::new(lit3(*a)))), val3(not_tt[i]));
        for (j, b) in vals.iter().enumerate() {
            assert_eq!(eval_const(Expr::bin(BinOp::And, lit3(*a), lit3(*b))), val3(and_tt[i][j]), "{a:?} AND {b:?}");
            assert_eq!(eval_const(Expr::bin(BinOp::Or, lit3(*a), lit3(*b))), val3(or_tt[i][j]), "{a:?} OR {b:?}");
        }
    }
}

#[test]
fn null_comparisons_and_tests() {
    let n = || Expr::Null(Ty::Int);
    assert_eq!(eval_const(Expr::eq(n(), Expr::int(1))), N);
    assert_eq!(eval_const(Expr::eq(n(), n())), N);
    assert_eq!(eval_const(Expr::bin(BinOp::Ne, Expr::int(1), n())), N);
    assert_eq!(eval_const(Expr::IsDistinctFrom { l: Box::new(n()), r: Box::new(n()), negated: false }), B(false));
    assert_eq!(eval_const(Expr::IsDistinctFrom { l: Box::new(n()), r: Box::new(Expr::int(1)), negated: false }), B(true));
    assert_eq!(eval_const(Expr::IsDistinctFrom { l: Box::new(Expr::int(1)), r: Box::new(Expr::int(1)), negated: true }), B(true));
    assert_eq!(eval_const(Expr::IsNull { e: Box::new(n()), negated: false }), B(true));
    assert_eq!(eval_const(Expr::IsNull { e: Box::new(Expr::int(0)), negated: true }), B(true));
    // IS [NOT] TRUE/FALSE/UNKNOWN never return NULL
    let nb = || Expr::Null(Ty::Bool);
    assert_eq!(eval_const(Expr::BoolTest { e: Box::new(nb()), test: BoolTest::IsTrue }), B(false));
    assert_eq!(eval_const(Expr::BoolTest { e: Box::new(nb()), test: BoolTest::IsNotTrue }), B(true));
    assert_eq!(eval_const(Expr::BoolTest { e: Box::new(nb()), test: BoolTest::IsNotFalse }), B(true));
    assert_eq!(eval_const(Expr::BoolTest { e: Box::new(nb()), test: BoolTest::IsUnknown }), B(true));
    assert_eq!(eval_const(Expr::BoolTest { e: Box::new(Expr::bool(false)), test: BoolTest::IsNotUnknown }), B(true));
    // BETWEEN: 3 BETWEEN NULL AND 2 is false, 1 BETWEEN NULL AND 2 is NULL
    assert_eq!(eval_const(Expr::Between { e: Box::new(Expr::int(3)), lo: Box::new(n()), hi: Box::new(Expr::int(2)), negated: false }), B(false));
    assert_eq!(eval_const(Expr::Between { e: Box::new(Expr::int(1)), lo: Box::new(n()), hi: Box::new(Expr::int(2)), negated: false }), N);
    assert_eq!(eval_const(Expr::Between { e: Box::new(Expr::int(3)), lo: Box::new(n()), hi: Box::new(Expr::int(2)), negated: true }), B(true));
    // IN list
    assert_eq!(eval_const(Expr::InList { e: Box::new(Expr::int(1)), list: vec![Expr::int(2), n()], negated: false }), N);
    assert_eq!(eval_const(Expr::InList { e: Box::new(Expr::int(1)), list: vec![Expr::int(1), n()], negated: false }), B(true));
    assert_eq!(eval_const(Expr::InList { e: Box::new(Expr::int(1)), list: vec![Expr::int(2), n()], negated: true }), N);
    assert_eq!(eval_const(Expr::InList { e: Box::new(Expr::int(1)), list: vec![Expr::int(2), Expr::int(3)], negated: true }), B(true));
    assert_eq!(eval_const(Expr::InList { e: Box::new(n()), list: vec![Expr::int(2)], negated: false }), N);
    // CASE NULL WHEN NULL falls to ELSE; NULLIF; COALESCE
    assert_eq!(eval_const(Expr::Case { operand: Some(Box::new(n())), whens: vec![(n(), Expr::int(1))], else_: Some(Box::new(Expr::int(2))) }), I(2));
    assert_eq!(eval_const(Expr::Case { operand: None, whens: vec![(nb(), Expr::int(1))], else_: None }), N);
    assert_eq!(eval_const(Expr::NullIf(Box::new(Expr::int(1)), Box::new(Expr::int(1)))), N);
    assert_eq!(eval_const(Expr::NullIf(Box::new(Expr::int(1)), Box::new(n()))), I(1));
    assert_eq!(eval_const(Expr::Coalesce(vec![n(), Expr::int(4), Expr::int(5)])), I(4));
    // || propagates NULL, concat skips it
    assert_eq!(eval_const(Expr::bin(BinOp::Concat, Expr::str("a"), Expr::Null(Ty::Str))), N);
    assert_eq!(eval_const(Expr::Func(Func::ConcatFn, vec![Expr::str("a"), Expr::Null(Ty::Str), Expr::str("b")])), s("ab"));
}

#[test]
fn integer_arithmetic() {
    assert_eq!(eval_const(Expr::bin(BinOp::Div, Expr::int(-7), Expr::int(2))), I(-3));
    assert_eq!(eval_const(Expr::bin(BinOp::Mod, Expr::int(-7), Expr::int(3))), I(-1));
    assert_eq!(eval_const(Expr::bin(BinOp::Mod, Expr::int(7), Expr::int(-3))), I(1));
    assert_eq!(eval(&const_query(Expr::bin(BinOp::Div, Expr::int(1), Expr::int(0))), &Db::default()).unwrap_err(), RefError::DivZero);
    assert_eq!(eval(&const_query(Expr::bin(BinOp::Add, Expr::int(i64::MAX), Expr::int(1))), &Db::default()).unwrap_err(), RefError::Overflow);
    assert_eq!(eval(&const_query(Expr::bin(BinOp::Mul, Expr::int(4294967297), Expr::int(4294967297))), &Db::default()).unwrap_err(), RefError::Overflow);
    assert_eq!(eval_const(Expr::bin(BinOp::Div, Expr::int(1), Expr::Null(Ty::Int))), N);
    assert_eq!(eval_const(Expr::Cast(Box::new(Expr::float(1.9)), Ty::Int)), I(1));
    assert_eq!(eval_const(Expr::Cast(Box::new(Expr::float(-1.5)), Ty::Int)), I(-1));
}

#[test]
fn like_matcher() {
    use super::expr::like_match;
    assert!(like_match("abc", "a%", false));
    assert!(like_match("abc", "a_c", false));
    assert!(!like_match("abc", "a_", false));
    assert!(like_match("", "%", false));
    assert!(!like_match("", "_", false));
    assert!(like_match("a%", "a\\%", false));
    assert!(!like_match("ab", "a\\%", false));
    assert!(like_match("ABC", "a%", true));
    assert!(!like_match("ABC", "a%", false));
    assert!(like_match("xéy", "_é_", false));
    assert!(like_match("aXbXc", "%X%X%", false));
}

/// t(x): 1, 2, NULL   u(y): 2, NULL   e(y): (empty)
fn subq_db() -> Db {
    Db {
        tables: vec![
            t("t", &[("x", Ty::Int)], vec![vec![I(1)], vec![I(2)], vec![N]]),
            t("u", &[("y", Ty::Int)], vec![vec![I(2)], vec![N]]),
            t("e", &[("y", Ty::Int)], vec![]),
            t("w", &[("y", Ty::Int)], vec![vec![I(2)], vec![I(3)]]),
        ],
    }
}

fn sub(table: &str) -> Box<Query> {
    Box::new(Query::simple(sel(vec![(Expr::col("s", "y"), "k9")], Some(tab(table, "s")), None)))
}

/// SELECT x, <pred> FROM t
fn pred_rows(pred: Expr) -> Vec<(Value, Value)> {
    let q = Query::simple(sel(vec![(Expr::col("r", "x"), "k0"), (pred, "k1")], Some(tab("t", "r")), None));
    rows_of(&q, &subq_db()).into_iter().map(|r| (r[0].clone(), r[1].clone())).collect()
}

#[test]
fn in_and_not_in_with_nulls() {
    let x = || Box::new(Expr::col("r", "x"));
    // x IN (2, NULL): 1 → NULL, 2 → TRUE, NULL → NULL   (rows sorted: NULL, 1, 2)
    assert_eq!(pred_rows(Expr::InSubquery { e: x(), q: sub("u"), negated: false }), vec![(N, N), (I(1), N), (I(2), B(true))]);
    // x NOT IN (2, NULL): 1 → NULL, 2 → FALSE, NULL → NULL
    assert_eq!(pred_rows(Expr::InSubquery { e: x(), q: sub("u"), negated: true }), vec![(N, N), (I(1), N), (I(2), B(false))]);
    // empty subquery: IN → FALSE, NOT IN → TRUE, even for NULL x
    assert_eq!(pred_rows(Expr::InSubquery { e: x(), q: sub("e"), negated: false }), vec![(N, B(false)), (I(1), B(false)), (I(2), B(false))]);
    assert_eq!(pred_rows(Expr::InSubquery { e: x(), q: sub("e"), negated: true }), vec![(N, B(true)), (I(1), B(true)), (I(2), B(true))]);
    // x NOT IN (2, 3): 1 → TRUE, 2 → FALSE, NULL → NULL
    assert_eq!(pred_rows(Expr::InSubquery { e: x(), q: sub("w"), negated: true }), vec![(N, N), (I(1), B(true)), (I(2), B(false))]);
    // as a filter: SELECT x FROM t WHERE x NOT IN (SELECT y FROM u) → no rows
    let q = Query::simple(sel(vec![(Expr::col("r", "x"), "k0")], Some(tab("t", "r")), Some(Expr::InSubquery { e: x(), q: sub("u"), negated: true })));
    assert!(rows_of(&q, &subq_db()).is_empty());
}

#[test]
fn any_all_with_nulls() {
    let x = || Box::new(Expr::col("r", "x"));
    let quant = |op, all, tb: &str| Expr::Quantified { e: x(), op, all, q: sub(tb) };
    // x = ANY (2, NULL): like IN
    assert_eq!(pred_rows(quant(BinOp::Eq, false, "u")), vec![(N, N), (I(1), N), (I(2), B(true))]);
    // x <> ALL (2, NULL): like NOT IN
    assert_eq!(pred_rows(quant(BinOp::Ne, true, "u")), vec![(N, N), (I(1), N), (I(2), B(false))]);
    // x > ALL (2, NULL): 1 → FALSE (1 > 2 is false), 2 → FALSE, NULL → NULL
    assert_eq!(pred_rows(quant(BinOp::Gt, true, "u")), vec![(N, N), (I(1), B(false)), (I(2), B(false))]);
    // x < ALL (2, NULL): 1 → NULL (true AND null), 2 → FALSE
    assert_eq!(pred_rows(quant(BinOp::Lt, true, "u")), vec![(N, N), (I(1), N), (I(2), B(false))]);
    // x >= ANY (2, NULL): 1 → NULL (false OR null), 2 → TRUE
    assert_eq!(pred_rows(quant(BinOp::Ge, false, "u")), vec![(N, N), (I(1), N), (I(2), B(true))]);
    // empty: ALL → TRUE, ANY → FALSE, also for NULL x
    assert_eq!(pred_rows(quant(BinOp::Gt, true, "e")), vec![(N, B(true)), (I(1), B(true)), (I(2), B(true))]);
    assert_eq!(pred_rows(quant(BinOp::Gt, false, "e")), vec![(N, B(false)), (I(1), B(false)), (I(2), B(false))]);
    // x < ALL (2, 3): 1 → TRUE, 2 → FALSE, NULL → NULL
    assert_eq!(pred_rows(quant(BinOp::Lt, true, "w")), vec![(N, N), (I(1), B(true)), (I(2), B(false))]);
}

#[test]
fn exists_and_scalar_subqueries() {
    // correlated: SELECT x, EXISTS (SELECT y FROM u s WHERE s.y = r.x), (SELECT count(*) FROM u s WHERE s.y = r.x) FROM t r
    let corr = |items: Vec<(Expr, &str)>| Box::new(Query::simple(sel(items, Some(tab("u", "s")), Some(Expr::eq(Expr::col("s", "y"), Expr::col("r", "x"))))));
    let count = Expr::Agg(Box::new(AggCall { f: AggFunc::Count, distinct: false, arg: None, filter: None }));
    let maxy = Expr::Agg(Box::new(AggCall { f: AggFunc::Max, distinct: false, arg: Some(Expr::col("s", "y")), filter: None }));
    let q = Query::simple(sel(
        vec![
            (Expr::col("r", "x"), "k0"),
            (Expr::Exists { q: corr(vec![(Expr::col("s", "y"), "k5")]), negated: false }, "k1"),
            (Expr::Scalar(corr(vec![(count, "k6")])), "k2"),
            (Expr::Scalar(corr(vec![(maxy, "k7")])), "k3"),
        ],
        Some(tab("t", "r")),
        None,
    ));
    assert_eq!(rows_of(&q, &subq_db()), vec![vec![N, B(false), I(0), N], vec![I(1), B(false), I(0), N], vec![I(2), B(true), I(1), I(2)]]);
    // scalar subquery with more than one row is an error
    let q = Query::simple(sel(vec![(Expr::Scalar(sub("u")), "k0")], None, None));
    assert_eq!(eval(&q, &subq_db()).unwrap_err(), RefError::ScalarCardinality);
}

/// l(id, k): (1, 1), (2, 2), (3, NULL)     r(id, k): (10, 1), (11, 1), (12, 3), (13, NULL)
fn join_db() -> Db {
    Db {
        tables: vec![
            t("l", &[("id", Ty::Int), ("k", Ty::Int)], vec![vec![I(1), I(1)], vec![I(2), I(2)], vec![I(3), N]]),
            t("r", &[("id", Ty::Int), ("k", Ty::Int)], vec![vec![I(10), I(1)], vec![I(11), I(1)], vec![I(12), I(3)], vec![I(13), N]]),
        ],
    }
}

fn join_rows(kind: JoinKind, cols: &[(&str, &str)]) -> Vec<Vec<Value>> {
    let from = TableRef::Join { kind, left: Box::new(tab("l", "a")), right: Box::new(tab("r", "b")), on: Some(Expr::eq(Expr::col("a", "k"), Expr::col("b", "k"))) };
    let items = cols.iter().enumerate().map(|(i, (r, c))| (Expr::col(r, c), ["k0", "k1", "k2", "k3"][i])).collect();
    rows_of(&Query::simple(sel(items, Some(from), None)), &join_db())
}

#[test]
fn joins_of_all_kinds() {
    let both = [("a", "id"), ("b", "id")];
    assert_eq!(join_rows(JoinKind::Inner, &both), vec![vec![I(1), I(10)], vec![I(1), I(11)]]);
    assert_eq!(join_rows(JoinKind::Left, &both), vec![vec![I(1), I(10)], vec![I(1), I(11)], vec![I(2), N], vec![I(3), N]]);
    assert_eq!(join_rows(JoinKind::Right, &both), vec![vec![N, I(12)], vec![N, I(13)], vec![I(1), I(10)], vec![I(1), I(11)]]);
    assert_eq!(join_rows(JoinKind::Full, &both), vec![vec![N, I(12)], vec![N, I(13)], vec![I(1), I(10)], vec![I(1), I(11)], vec![I(2), N], vec![I(3), N]]);
    assert_eq!(join_rows(JoinKind::LeftSemi, &[("a", "id")]), vec![vec![I(1)]]);
    assert_eq!(join_rows(JoinKind::LeftAnti, &[("a", "id")]), vec![vec![I(2)], vec![I(3)]]);
    assert_eq!(join_rows(JoinKind::RightSemi, &[("b", "id")]), vec![vec![I(10)], vec![I(11)]]);
    assert_eq!(join_rows(JoinKind::RightAnti, &[("b", "id")]), vec![vec![I(12)], vec![I(13)]]);
    let from = TableRef::Join { kind: JoinKind::Cross, left: Box::new(tab("l", "a")), right: Box::new(tab("r", "b")), on: None };
    assert_eq!(rows_of(&Query::simple(sel(vec![(Expr::col("a", "id"), "k0")], Some(from), None)), &join_db()).len(), 12);
}

#[test]
fn grouping_and_aggregates() {
    // g(k, v): (1, 10), (1, NULL), (2, 5), (NULL, 7), (NULL, 7)
    let db = Db { tables: vec![t("g", &[("k", Ty::Int), ("v", Ty::Int)], vec![vec![I(1), I(10)], vec![I(1), N], vec![I(2), I(5)], vec![N, I(7)], vec![N, I(7)]])] };
    let agg = |f, distinct, arg: Option<Expr>| Expr::Agg(Box::new(AggCall { f, distinct, arg, filter: None }));
    let v = || Expr::col("r", "v");
    let mut s1 = sel(
        vec![
            (Expr::col("r", "k"), "k0"),
            (agg(AggFunc::Count, false, None), "k1"),
            (agg(AggFunc::Count, false, Some(v())), "k2"),
            (agg(AggFunc::Sum, false, Some(v())), "k3"),
            (agg(AggFunc::Count, true, Some(v())), "k4"),
            (agg(AggFunc::Avg, false, Some(v())), "k5"),
        ],
        Some(tab("g", "r")),
        None,
    );
    s1.group_by = GroupBy::Plain(vec![Expr::col("r", "k")]);
    assert_eq!(
        rows_of(&Query::simple(s1.clone()), &db),
        vec![vec![N, I(2), I(2), I(14), I(1), Value::Float(7.0)], vec![I(1), I(2), I(1), I(10), I(1), Value::Float(10.0)], vec![I(2), I(1), I(1), I(5), I(1), Value::Float(5.0)]]
    );
    // global aggregate over an empty input: count 0, sum NULL — one row
    let mut s2 = sel(vec![(agg(AggFunc::Count, false, None), "k1"), (agg(AggFunc::Sum, false, Some(v())), "k3")], Some(tab("g", "r")), Some(Expr::bool(false)));
    assert_eq!(rows_of(&Query::simple(s2.clone()), &db), vec![vec![I(0), N]]);
    // grouped aggregate over an empty input: no row
    s2.group_by = GroupBy::Plain(vec![Expr::col("r", "k")]);
    assert!(rows_of(&Query::simple(s2.clone()), &db).is_empty());
    // ROLLUP(k): groups + grand total; grouping(k) marks the total
    let mut s3 = sel(vec![(Expr::col("r", "k"), "k0"), (Expr::Grouping(Box::new(Expr::col("r", "k"))), "k1"), (agg(AggFunc::Count, false, None), "k2")], Some(tab("g", "r")), None);
    s3.group_by = GroupBy::Rollup(vec![Expr::col("r", "k")]);
    assert_eq!(rows_of(&Query::simple(s3.clone()), &db), vec![vec![N, I(0), I(2)], vec![N, I(1), I(5)], vec![I(1), I(0), I(2)], vec![I(2), I(0), I(1)]]);
    // HAVING + FILTER
    let mut s4 = sel(vec![(Expr::col("r", "k"), "k0"), (Expr::Agg(Box::new(AggCall { f: AggFunc::Count, distinct: false, arg: None, filter: Some(Expr::bin(BinOp::Gt, v(), Expr::int(6))) })), "k1")], Some(tab("g", "r")), None);
    s4.group_by = GroupBy::Plain(vec![Expr::col("r", "k")]);
    s4.having = Some(Expr::bin(BinOp::Ge, agg(AggFunc::Count, false, None), Expr::int(2)));
    assert_eq!(rows_of(&Query::simple(s4), &db), vec![vec![N, I(2)], vec![I(1), I(1)]]);
}

#[test]
fn set_operations_bag_semantics() {
    // a: 1,1,2,NULL,NULL   b: 1,NULL,3
    let db = Db { tables: vec![t("a", &[("x", Ty::Int)], vec![vec![I(1)], vec![I(1)], vec![I(2)], vec![N], vec![N]]), t("b", &[("x", Ty::Int)], vec![vec![I(1)], vec![N], vec![I(3)]])] };
    let side = |tb: &str, al: &str, k: &str| Box::new(SetExpr::Select(Box::new(sel(vec![(Expr::col(al, "x"), k)], Some(tab(tb, al)), None))));
    let run = |op, all| {
        let q = Query { with: vec![], body: SetExpr::SetOp { op, all, left: side("a", "l", "k0"), right: side("b", "r", "k1") }, order_by: vec![], limit: None, offset: None };
        rows_of(&q, &db).into_iter().map(|r| r[0].clone()).collect::<Vec<_>>()
    };
    assert_eq!(run(SetOp::Union, true), vec![N, N, N, I(1), I(1), I(1), I(2), I(3)]);
    assert_eq!(run(SetOp::Union, false), vec![N, I(1), I(2), I(3)]);
    assert_eq!(run(SetOp::Intersect, false), vec![N, I(1)]);
    assert_eq!(run(SetOp::Intersect, true), vec![N, I(1)]);
    assert_eq!(run(SetOp::Except, false), vec![I(2)]);
    assert_eq!(run(SetOp::Except, true), vec![N, I(1), I(2)]);
}

#[test]
fn order_limit_and_nondeterminism() {
    let db = Db { tables: vec![t("a", &[("x", Ty::Int), ("y", Ty::Int)], vec![vec![I(2), I(0)], vec![N, I(1)], vec![I(1), I(2)], vec![I(2), I(3)]])] };
    let body = SetExpr::Select(Box::new(sel(vec![(Expr::col("r", "x"), "k0"), (Expr::col("r", "y"), "k1")], Some(tab("a", "r")), None)));
    let ob = |desc, nf| vec![OrderItem { expr: Expr::out("k0"), desc, nulls_first: nf }, OrderItem { expr: Expr::out("k1"), desc: false, nulls_first: None }];
    let q = Query { with: vec![], body: body.clone(), order_by: ob(false, None), limit: Some(2), offset: Some(1) };
    // ASC = NULLS LAST: (1,2) (2,0) (2,3) (NULL,1); OFFSET 1 LIMIT 2
    assert_eq!(eval(&q, &db).unwrap().rows, vec![vec![I(2), I(0)], vec![I(2), I(3)]]);
    // DESC = NULLS FIRST
    let q = Query { with: vec![], body: body.clone(), order_by: ob(true, None), limit: Some(2), offset: None };
    assert_eq!(eval(&q, &db).unwrap().rows, vec![vec![N, I(1)], vec![I(2), I(0)]]);
    let q = Query { with: vec![], body: body.clone(), order_by: ob(true, Some(false)), limit: Some(1), offset: None };
    assert_eq!(eval(&q, &db).unwrap().rows, vec![vec![I(2), I(0)]]);
    // ORDER BY x LIMIT 2 cuts through the tie (2,0)/(2,3): top-level → tie-aware spec
    let q = Query { with: vec![], body: body.clone(), order_by: vec![OrderItem { expr: Expr::out("k0"), desc: false, nulls_first: None }], limit: Some(2), offset: None };
    let r = eval(&q, &db).unwrap();
    assert!(r.topk.is_some());
    assert!(check_result(&r, &[vec![I(1), I(2)], vec![I(2), I(3)]]).is_ok());
    assert!(check_result(&r, &[vec![I(1), I(2)], vec![I(2), I(0)]]).is_ok());
    assert!(check_result(&r, &[vec![I(2), I(0)], vec![I(2), I(3)]]).is_err());
    assert!(check_result(&r, &[vec![I(2), I(0)], vec![I(1), I(2)]]).is_err()); // unsorted
    assert!(!deterministic_on(&q, &db));
    // nested: the same cut inside a derived table is a Nondeterministic error
    let outer = Query::simple(sel(vec![(Expr::col("d", "k0"), "k5")], Some(TableRef::Derived { q: Box::new(q), alias: "d".into() }), None));
    assert!(matches!(eval(&outer, &db), Err(RefError::Nondeterministic(_))));
    // LIMIT without ORDER BY over distinct rows is nondeterministic, LIMIT 0 is fine
    let q = Query { with: vec![], body: body.clone(), order_by: vec![], limit: Some(1), offset: None };
    assert!(matches!(eval(&q, &db), Err(RefError::Nondeterministic(_))));
    let q = Query { with: vec![], body, order_by: vec![], limit: Some(0), offset: None };
    assert!(eval(&q, &db).unwrap().rows.is_empty());
}

fn win(f: WinFunc, args: Vec<Expr>, part: Vec<Expr>, order: Vec<OrderItem>, frame: Option<Frame>) -> Expr {
    Expr::Win(Box::new(WinCall { f, args, partition_by: part, order_by: order, frame }))
}

fn asc(e: Expr) -> OrderItem {
    OrderItem { expr: e, desc: false, nulls_first: None }
}

#[test]
fn window_functions_and_frames() {
    // w(id, g, v): (1,a,10) (2,a,20) (3,a,20) (4,a,NULL) (5,b,5)
    let db = Db {
        tables: vec![t(
            "w",
            &[("id", Ty::Int), ("g", Ty::Str), ("v", Ty::Int)],
            vec![vec![I(1), s("a"), I(10)], vec![I(2), s("a"), I(20)], vec![I(3), s("a"), I(20)], vec![I(4), s("a"), N], vec![I(5), s("b"), I(5)]],
        )],
    };
    let id = || Expr::col("r", "id");
    let v = || Expr::col("r", "v");
    let g = || Expr::col("r", "g");
    let run = |w: Expr| -> Vec<Value> {
        let q = Query::simple(sel(vec![(id(), "k0"), (w, "k1")], Some(tab("w", "r")), None));
        rows_of(&q, &db).into_iter().map(|r| r[1].clone()).collect()
    };
    let fr = |units, start, end| Some(Frame { units, start, end });
    use FrameBound::*;
    assert_eq!(run(win(WinFunc::RowNumber, vec![], vec![g()], vec![asc(id())], None)), vec![I(1), I(2), I(3), I(4), I(1)]);
    // rank / dense_rank by v (NULLS LAST): 10→1, 20→2, 20→2, NULL→4 / 3
    assert_eq!(run(win(WinFunc::Rank, vec![], vec![g()], vec![asc(v())], None)), vec![I(1), I(2), I(2), I(4), I(1)]);
    assert_eq!(run(win(WinFunc::DenseRank, vec![], vec![g()], vec![asc(v())], None)), vec![I(1), I(2), I(2), I(3), I(1)]);
    // default frame with ORDER BY v: RANGE UNBOUNDED PRECEDING..CURRENT ROW includes peers: 10, 50, 50, 50, 5
    assert_eq!(run(win(WinFunc::Agg(AggFunc::Sum), vec![v()], vec![g()], vec![asc(v())], None)), vec![I(10), I(50), I(50), I(50), I(5)]);
    // no ORDER BY: whole partition
    assert_eq!(run(win(WinFunc::Agg(AggFunc::Sum), vec![v()], vec![g()], vec![], None)), vec![I(50), I(50), I(50), I(50), I(5)]);
    // ROWS BETWEEN 1 PRECEDING AND 1 FOLLOWING by id: 30, 50, 40, 20, 5
    assert_eq!(run(win(WinFunc::Agg(AggFunc::Sum), vec![v()], vec![g()], vec![asc(id())], fr(FrameUnits::Rows, Preceding(I(1)), Following(I(1))))), vec![I(30), I(50), I(40), I(20), I(5)]);
    // ROWS BETWEEN 2 FOLLOWING AND 3 FOLLOWING: count(*) 2, 1, 0, 0, 0 ; sum NULL on empty frame
    assert_eq!(run(win(WinFunc::Agg(AggFunc::Count), vec![], vec![g()], vec![asc(id())], fr(FrameUnits::Rows, Following(I(2)), Following(I(3))))), vec![I(2), I(1), I(0), I(0), I(0)]);
    assert_eq!(run(win(WinFunc::Agg(AggFunc::Sum), vec![v()], vec![g()], vec![asc(id())], fr(FrameUnits::Rows, Following(I(2)), Following(I(3))))), vec![I(20), N, N, N, N]);
    // RANGE BETWEEN 10 PRECEDING AND CURRENT ROW on v: v=10 → 10; v=20 → 10+20+20; NULL key → its peer group (sum NULL)
    assert_eq!(run(win(WinFunc::Agg(AggFunc::Sum), vec![v()], vec![g()], vec![asc(v())], fr(FrameUnits::Range, Preceding(I(10)), CurrentRow))), vec![I(10), I(50), I(50), N, I(5)]);
    // RANGE on a DESC key: 5 PRECEDING = larger values; count(*) per row: v=20 → 2 (both 20s), v=10 → 1, NULL → 1
    let desc_v = vec![OrderItem { expr: v(), desc: true, nulls_first: None }];
    assert_eq!(run(win(WinFunc::Agg(AggFunc::Count), vec![], vec![g()], desc_v, fr(FrameUnits::Range, Preceding(I(5)), CurrentRow))), vec![I(1), I(2), I(2), I(1), I(1)]);
    // GROUPS BETWEEN 1 PRECEDING AND CURRENT ROW on v: groups {10} {20,20} {NULL}: counts 1, 3, 3, 3(=2+1), 1
    assert_eq!(run(win(WinFunc::Agg(AggFunc::Count), vec![], vec![g()], vec![asc(v())], fr(FrameUnits::Groups, Preceding(I(1)), CurrentRow))), vec![I(1), I(3), I(3), I(3), I(1)]);
    // lag / lead with default
    assert_eq!(run(win(WinFunc::Lag, vec![v()], vec![g()], vec![asc(id())], None)), vec![N, I(10), I(20), I(20), N]);
    assert_eq!(run(win(WinFunc::Lead, vec![v(), Expr::int(2), Expr::int(-1)], vec![g()], vec![asc(id())], None)), vec![I(20), N, I(-1), I(-1), I(-1)]);
    // first/last/nth over ROWS UNBOUNDED PRECEDING..CURRENT ROW
    let upc = || fr(FrameUnits::Rows, UnboundedPreceding, CurrentRow);
    assert_eq!(run(win(WinFunc::FirstValue, vec![v()], vec![g()], vec![asc(id())], upc())), vec![I(10), I(10), I(10), I(10), I(5)]);
    assert_eq!(run(win(WinFunc::LastValue, vec![v()], vec![g()], vec![asc(id())], upc())), vec![I(10), I(20), I(20), N, I(5)]);
    assert_eq!(run(win(WinFunc::NthValue, vec![v(), Expr::int(2)], vec![g()], vec![asc(id())], upc())), vec![N, I(20), I(20), I(20), N]);
    // ntile(3) over 4 rows: 1,1,2,3 ; over 1 row: 1
    assert_eq!(run(win(WinFunc::Ntile, vec![Expr::int(3)], vec![g()], vec![asc(id())], None)), vec![I(1), I(1), I(2), I(3), I(1)]);
    // row_number over tied, distinguishable rows is not deterministic
    let q = Query::simple(sel(vec![(id(), "k0"), (win(WinFunc::RowNumber, vec![], vec![], vec![asc(v())], None), "k1")], Some(tab("w", "r")), None));
    assert!(matches!(eval(&q, &db), Err(RefError::Nondeterministic(_))));
}

#[test]
fn recursive_ctes() {
    // counter 1..5
    let anchor = sel(vec![(Expr::int(1), "k1")], None, None);
    let n = Expr::col("c", "n");
    let step = sel(vec![(Expr::bin(BinOp::Add, n.clone(), Expr::int(1)), "k2")], Some(tab("cnt", "c")), Some(Expr::bin(BinOp::Lt, n, Expr::int(5))));
    let body = SetExpr::SetOp { op: SetOp::Union, all: true, left: Box::new(SetExpr::Select(Box::new(anchor))), right: Box::new(SetExpr::Select(Box::new(step))) };
    let cte = Cte { name: "cnt".into(), cols: vec!["n".into()], recursive: true, q: Box::new(Query { with: vec![], body, order_by: vec![], limit: None, offset: None }) };
    let mut q = Query::simple(sel(vec![(Expr::col("x", "n"), "k0")], Some(tab("cnt", "x")), None));
    q.with = vec![cte];
    assert_eq!(rows_of(&q, &Db::default()), vec![vec![I(1)], vec![I(2)], vec![I(3)], vec![I(4)], vec![I(5)]]);
    assert!(to_sql(&q).starts_with("WITH RECURSIVE cnt(n) AS ("));
    // reachability with a cycle terminates under UNION: edges 1→2, 2→3, 3→1, 4→5; from 1: {1,2,3}
    let db = Db { tables: vec![t("e", &[("a", Ty::Int), ("b", Ty::Int)], vec![vec![I(1), I(2)], vec![I(2), I(3)], vec![I(3), I(1)], vec![I(4), I(5)]])] };
    let anchor = sel(vec![(Expr::int(1), "k1")], None, None);
    let from = TableRef::Join { kind: JoinKind::Inner, left: Box::new(tab("e", "g")), right: Box::new(tab("reach", "c")), on: Some(Expr::eq(Expr::col("g", "a"), Expr::col("c", "x"))) };
    let step = sel(vec![(Expr::col("g", "b"), "k2")], Some(from), None);
    let body = SetExpr::SetOp { op: SetOp::Union, all: false, left: Box::new(SetExpr::Select(Box::new(anchor))), right: Box::new(SetExpr::Select(Box::new(step))) };
    let cte = Cte { name: "reach".into(), cols: vec!["x".into()], recursive: true, q: Box::new(Query { with: vec![], body, order_by: vec![], limit: None, offset: None }) };
    let mut q = Query::simple(sel(vec![(Expr::col("x", "x"), "k0")], Some(tab("reach", "x")), None));
    q.with = vec![cte];
    assert_eq!(rows_of(&q, &db), vec![vec![I(1)], vec![I(2)], vec![I(3)]]);
}

#[test]
fn printer_smoke() {
    let q = Query {
        with: vec![],
        body: SetExpr::Select(Box::new(sel(vec![(Expr::col("r0", "a"), "k0")], Some(tab("t0", "r0")), Some(Expr::bin(BinOp::Gt, Expr::col("r0", "a"), Expr::int(-1)))))),
        order_by: vec![OrderItem { expr: Expr::out("k0"), desc: true, nulls_first: Some(false) }],
        limit: Some(3),
        offset: Some(1),
    };
    assert_eq!(to_sql(&q), "SELECT r0.a AS k0 FROM t0 AS r0 WHERE (r0.a > (-1)) ORDER BY k0 DESC NULLS LAST LIMIT 3 OFFSET 1");
    assert_eq!(Value::Float(2.0).to_sql_literal(), "2.0");
    assert_eq!(Value::Float(-0.5).to_sql_literal(), "(-0.5)");
    assert_eq!(Value::Str("a'b".into()).to_sql_literal(), "'a''b'");
}

#[test]
fn json_roundtrip_and_generator_health() {
    use proptest::strategy::{Strategy, ValueTree};
    use proptest::test_runner::{Config, RngSeed, TestRunner};
    let cfg = GenConfig::standard(3, 8, 2);
    let strat = case_strategy(&cfg);
    let mut runner = TestRunner::new(Config { rng_seed: RngSeed::Fixed(7), failure_persistence: None, ..Config::default() });
    let (mut ok, mut harness_bugs, mut nondet, mut other) = (0, 0, 0, 0);
    for _ in 0..400 {
        let case = strat.new_tree(&mut runner).unwrap().current();
        let text = serde_json::to_string(&case).unwrap();
        let back: SqlCase = serde_json::from_str(&text).unwrap();
        assert_eq!(back.query, case.query);
        assert_eq!(back.tables, case.tables);
        let sql = to_sql(&case.query);
        assert!(!sql.is_empty());
        match eval(&case.query, &case.db()) {
            Ok(_) => ok += 1,
            Err(e) => match classify(&e) {
                RefErrorClass::HarnessBug => {
                    harness_bugs += 1;
                    eprintln!("harness bug {e}: {sql}");
                }
                _ => {
                    if matches!(e, RefError::Nondeterministic(_)) {
                        nondet += 1;
                        eprintln!("nondeterministic: {sql}");
                    } else {
                        other += 1
                    }
                }
            },
        }
        let _ = features(&case.query);
    }
    // tape consumption
    let mut used = vec![];
    for seed in 0..300u32 {
        let tape: Vec<u8> = (0..2000u32).map(|i| (crate::engine::splitmix64(((seed as u64) << 32) | i as u64) >> 24) as u8).collect();
        used.push(r#gen::build_query_stats(&cfg, tape).1);
    }
    used.sort();
    eprintln!("tape cells consumed: median {} p90 {} max {}", used[150], used[270], used[299]);
    eprintln!("generator health: ok={ok} nondeterministic={nondet} other-ref-errors={other} harness-bugs={harness_bugs}");
    assert_eq!(harness_bugs, 0);
    assert!(ok >= 300, "too few evaluable cases: {ok}");
    assert!(nondet <= 8, "the generator should produce deterministic queries by construction: {nondet}");
}
