//! Type-directed generator of queries and tables (construction, never rejection).
//!
//! A query is built deterministically from a *choice tape* (`Vec<u8>` of variable length drawn by proptest): every decision
//! maps a tape cell monotonically onto the alternatives, simplest alternative first, so proptest's
//! shrinking of the cells (towards 0) shrinks the query (towards leaves / fewer clauses); an exhausted
//! tape yields 0 = the simplest choice everywhere. Only well-typed trees with exactly matching operand
//! types are produced. Ordering rules (deterministic by construction): every LIMIT/OFFSET sits on an
//! ORDER BY listing *all* output columns (so ties are identical rows) — except the deliberate top-level
//! "top-k over ties" shape (`GenConfig::topk_ties`) which the comparator handles with the tie-aware
//! predicate; order-sensitive window calls order by a key of the FROM clause (unique ids of the base
//! tables, or all columns of a derived relation).
use super::ast::*;
use super::value::*;
use proptest::prelude::*;
use serde::{Deserialize, Serialize};

/// The unit every SQL-level property generates: tables + a query over them.
#[derive(Clone, Debug, Serialize, Deserialize)]
pub struct SqlCase {
    pub tables: Vec<Table>,
    pub query: Query,
}

impl SqlCase {
    pub fn db(&self) -> Db {
        Db { tables: self.tables.clone() }
    }
}

#[derive(Clone, Debug)]
pub struct TableSchema {
    pub name: String,
    pub cols: Vec<ColDef>,
    /// name of a unique, non-NULL Int column (row index), if any
    pub unique: Option<String>,
}

/// Generator configuration. Weights are percentages (0 disables a construct).
#[derive(Clone, Debug)]
pub struct GenConfig {
    pub tables: Vec<TableSchema>,
    pub max_rows: usize,
    /// minimum rows per table (C02 wants really split batches)
    pub min_rows: usize,
    /// nesting depth of queries (derived tables, subqueries, set operations)
    pub depth: u32,
    pub expr_depth: u32,
    pub tape_len: usize,
    pub joins: bool,
    pub semi_anti_joins: bool,
    pub subqueries: bool,
    /// EXISTS / IN / ANY / ALL in the SELECT list (engine support is partial → many discards)
    pub select_list_subquery_pct: u32,
    pub set_ops: bool,
    pub group_by: bool,
    pub grouping_sets: bool,
    pub windows: bool,
    pub ctes: bool,
    pub recursive_ctes: bool,
    pub series_values: bool,
    pub limit: bool,
    /// deliberately non-total top-level ORDER BY + LIMIT (needs the tie-aware comparison)
    pub topk_ties: bool,
    /// percentage of divisions left unguarded (`x / y`), making the case may-fail
    pub unguarded_div_pct: u32,
}

impl GenConfig {
    /// `t0..t{n-1}(id BIGINT unique, a BIGINT, b BIGINT, s VARCHAR, f DOUBLE, p BOOLEAN)`
    pub fn standard(n_tables: usize, max_rows: usize, depth: u32) -> GenConfig {
        let tables = (0..n_tables)
            .map(|i| TableSchema {
                name: format!("t{i}"),
                cols: vec![
                    ColDef { name: "id".into(), ty: Ty::Int },
                    ColDef { name: "a".into(), ty: Ty::Int },
                    ColDef { name: "b".into(), ty: Ty::Int },
                    ColDef { name: "s".into(), ty: Ty::Str },
                    ColDef { name: "f".into(), ty: Ty::Float },
                    ColDef { name: "p".into(), ty: Ty::Bool },
                ],
                unique: Some("id".into()),
            })
            .collect();
        GenConfig {
            tables,
            max_rows,
            min_rows: 0,
            depth,
            expr_depth: 3,
            tape_len: 400,
            joins: true,
            semi_anti_joins: true,
            subqueries: true,
            select_list_subquery_pct: 3,
            set_ops: true,
            group_by: true,
            grouping_sets: true,
            windows: true,
            ctes: true,
            recursive_ctes: true,
            series_values: true,
            limit: true,
            topk_ties: true,
            unguarded_div_pct: 8,
        }
    }
}

// ---------------------------------------------------------------------------------------------
// tables

fn int_value(wide: bool) -> BoxedStrategy<Value> {
    if wide {
        prop_oneof![
            3 => Just(Value::Null),
            10 => (0i64..4).prop_map(Value::Int),
            3 => (-3i64..8).prop_map(Value::Int),
            1 => prop::sample::select(vec![10i64, 100, -100, 2147483647, 2147483648, -2147483649, 4294967297, 1000000007]).prop_map(Value::Int),
        ]
        .boxed()
    } else {
        prop_oneof![
            3 => Just(Value::Null),
            12 => (0i64..3).prop_map(Value::Int),
            2 => (-1i64..5).prop_map(Value::Int),
        ]
        .boxed()
    }
}

pub(crate) const STRS: [&str; 12] = ["", "a", "b", "ab", "B", "abc", "a%", "a_b", "é", " ", "Ab", "ba"];
pub(crate) const FLOATS: [f64; 10] = [0.5, 1.0, 1.5, -0.5, 2.0, -2.0, 2.5, -1.0, 4.0, 8.5];

fn value_of(ty: Ty, wide: bool) -> BoxedStrategy<Value> {
    match ty {
        Ty::Int => int_value(wide),
        Ty::Float => prop_oneof![
            2 => Just(Value::Null),
            8 => (0usize..FLOATS.len()).prop_map(|i| Value::Float(FLOATS[i])),
        ]
        .boxed(),
        Ty::Str => prop_oneof![
            2 => Just(Value::Null),
            8 => (0usize..STRS.len()).prop_map(|i| Value::Str(STRS[i].to_string())),
        ]
        .boxed(),
        Ty::Bool => prop_oneof![
            2 => Just(Value::Null),
            4 => Just(Value::Bool(false)),
            4 => Just(Value::Bool(true)),
        ]
        .boxed(),
    }
}

/// Tables for the schema of `cfg`: `min_rows..=max_rows` rows, NULL-heavy small skewed domains; the unique
/// column holds the row index.
pub fn tables_strategy(cfg: &GenConfig) -> BoxedStrategy<Vec<Table>> {
    let mut per_table: Vec<BoxedStrategy<Table>> = vec![];
    for ts in &cfg.tables {
        let ts = ts.clone();
        let mut first_int = true;
        let col_strats: Vec<BoxedStrategy<Value>> = ts
            .cols
            .iter()
            .map(|c| {
                if Some(&c.name) == ts.unique.as_ref() {
                    Just(Value::Int(0)).boxed()
                } else {
                    let wide = c.ty == Ty::Int && std::mem::replace(&mut first_int, false);
                    value_of(c.ty, wide)
                }
            })
            .collect();
        let row = col_strats;
        let uniq = ts.unique.as_ref().and_then(|u| ts.cols.iter().position(|c| &c.name == u));
        let strat = prop::collection::vec(row, cfg.min_rows..=cfg.max_rows).prop_map(move |mut rows| {
            if let Some(u) = uniq {
                for (i, r) in rows.iter_mut().enumerate() {
                    r[u] = Value::Int(i as i64);
                }
            }
            Table { name: ts.name.clone(), cols: ts.cols.clone(), rows }
        });
        per_table.push(strat.boxed());
    }
    per_table.boxed()
}

pub fn query_strategy(cfg: &GenConfig) -> BoxedStrategy<Query> {
    let cfg = cfg.clone();
    prop::collection::vec(any::<u8>(), 0..=cfg.tape_len).prop_map(move |tape| build_query(&cfg, tape)).boxed()
}

pub fn case_strategy(cfg: &GenConfig) -> BoxedStrategy<SqlCase> {
    (tables_strategy(cfg), query_strategy(cfg)).prop_map(|(tables, query)| SqlCase { tables, query }).boxed()
}

/// Build the query a tape denotes (exposed so that other generators can embed queries).
pub fn build_query(cfg: &GenConfig, tape: Vec<u8>) -> Query {
    build_query_stats(cfg, tape).0
}

/// also reports how many tape cells the construction consumed
pub fn build_query_stats(cfg: &GenConfig, tape: Vec<u8>) -> (Query, usize) {
    let mut g = G { cfg, t: Tape { data: tape, pos: 0 }, next_rel: 0, next_col: 0, next_cte: 0, ctes: vec![], top_select_pending: false };
    let q = g.top_query();
    (q, g.t.pos)
}

// ---------------------------------------------------------------------------------------------
// tape

struct Tape {
    data: Vec<u8>,
    pos: usize,
}

impl Tape {
    fn next(&mut self) -> u32 {
        let v = self.data.get(self.pos).copied().unwrap_or(0);
        self.pos += 1;
        v as u32
    }
    /// 0..n, monotone in the cell
    fn below(&mut self, n: usize) -> usize {
        if n <= 1 {
            // still consume a cell so that the tape layout does not depend on list sizes
            self.next();
            return 0;
        }
        ((self.next() as usize) * n.min(256)) >> 8
    }
    /// true with probability pct %; a zero cell is always false
    fn chance(&mut self, pct: u32) -> bool {
        let v = self.next();
        pct > 0 && v * 100 >= 256 * (100 - pct.min(100))
    }
    /// index into weights; index 0 at cell 0 (list the simplest alternative first)
    fn weighted(&mut self, ws: &[u32]) -> usize {
        let total: u32 = ws.iter().sum();
        if total == 0 {
            self.next();
            return 0;
        }
        let x = ((self.next() as u64 * total as u64) >> 8) as u32;
        let mut acc = 0;
        for (i, w) in ws.iter().enumerate() {
            acc += w;
            if x < acc {
                return i;
            }
        }
        ws.len() - 1
    }
    fn range(&mut self, lo: i64, hi: i64) -> i64 {
        lo + self.below((hi - lo + 1) as usize) as i64
    }
}

// ---------------------------------------------------------------------------------------------
// generator proper

#[derive(Clone, Debug)]
struct ColRef {
    rel: String,
    name: String,
    ty: Ty,
}

impl ColRef {
    fn expr(&self) -> Expr {
        Expr::Col { rel: Some(self.rel.clone()), name: self.name.clone() }
    }
}

/// What expressions may refer to.
#[derive(Clone, Debug, Default)]
struct Scope {
    cols: Vec<ColRef>,
    /// columns of the enclosing query (correlation), usable only where `corr` says so
    outer: Vec<ColRef>,
    /// columns that together identify a row of the FROM result (for total orders)
    key: Vec<ColRef>,
}

#[derive(Clone, Copy)]
struct EOpts {
    /// remaining query-nesting depth for subqueries inside expressions (0 = none)
    subq: u32,
    /// may refer to outer columns
    corr: bool,
}

struct G<'c> {
    cfg: &'c GenConfig,
    t: Tape,
    next_rel: usize,
    next_col: usize,
    next_cte: usize,
    /// visible CTEs: name, columns
    ctes: Vec<(String, Vec<(String, Ty)>)>,
    /// the next `select()` call builds the top-level select of the statement
    top_select_pending: bool,
}

const CMP_WEIGHTS: [u32; 6] = [40, 12, 12, 12, 12, 12];

impl G<'_> {
    fn rel(&mut self) -> String {
        let r = format!("r{}", self.next_rel);
        self.next_rel += 1;
        r
    }
    fn colname(&mut self) -> String {
        let r = format!("k{}", self.next_col);
        self.next_col += 1;
        r
    }
    fn ty(&mut self) -> Ty {
        [Ty::Int, Ty::Int, Ty::Str, Ty::Float, Ty::Bool][self.t.weighted(&[35, 10, 20, 15, 20])]
    }

    // ----- literals

    fn lit(&mut self, ty: Ty) -> Expr {
        match ty {
            Ty::Int => {
                let v = match self.t.weighted(&[60, 25, 10, 5]) {
                    0 => self.t.range(0, 3),
                    1 => self.t.range(-2, 6),
                    2 => [10i64, 100, -7, 1000][self.t.below(4)],
                    _ => [2147483647i64, 2147483648, -2147483649, 4294967297][self.t.below(4)],
                };
                Expr::Lit(Value::Int(v))
            }
            Ty::Float => Expr::Lit(Value::Float(FLOATS[self.t.below(FLOATS.len())])),
            Ty::Str => Expr::Lit(Value::Str(STRS[self.t.below(STRS.len())].to_string())),
            Ty::Bool => Expr::Lit(Value::Bool(self.t.chance(50))),
        }
    }

    fn leaf(&mut self, ty: Ty, sc: &Scope, o: EOpts) -> Expr {
        let local: Vec<&ColRef> = sc.cols.iter().filter(|c| c.ty == ty).collect();
        let outer: Vec<&ColRef> = if o.corr { sc.outer.iter().filter(|c| c.ty == ty).collect() } else { vec![] };
        // 0 = column, 1 = literal, 2 = typed NULL, 3 = outer column
        let k = self.t.weighted(&[if local.is_empty() { 0 } else { 70 }, 24, 3, if outer.is_empty() { 0 } else { 12 }]);
        match k {
            0 => {
                let i = self.t.below(local.len());
                local[i].expr()
            }
            1 => self.lit(ty),
            2 => Expr::Null(ty),
            _ => {
                let i = self.t.below(outer.len());
                outer[i].expr()
            }
        }
    }

    // ----- expressions

    fn expr(&mut self, ty: Ty, sc: &Scope, d: u32, o: EOpts) -> Expr {
        if d == 0 {
            return self.leaf(ty, sc, o);
        }
        let sub = if o.subq > 0 && self.cfg.subqueries { 1 } else { 0 };
        match ty {
            Ty::Int => match self.t.weighted(&[36, 20, 7, 3, 3, 8, 6, 4, 4, 2, 2, 2, 4 * sub]) {
                0 => self.leaf(ty, sc, o),
                1 => {
                    let op = [BinOp::Add, BinOp::Sub, BinOp::Mul][self.t.below(3)];
                    Expr::bin(op, self.expr(ty, sc, d - 1, o), self.expr(ty, sc, d - 1, o))
                }
                2 => self.division(sc, d, o),
                3 => Expr::Neg(Box::new(self.expr(ty, sc, d - 1, o))),
                4 => Expr::Func(Func::Abs, vec![self.expr(ty, sc, d - 1, o)]),
                5 => self.case(ty, sc, d, o),
                6 => self.coalesce(ty, sc, d, o),
                7 => Expr::NullIf(Box::new(self.expr(ty, sc, d - 1, o)), Box::new(self.expr(ty, sc, d - 1, o))),
                8 => Expr::Func(Func::Length, vec![self.expr(Ty::Str, sc, d - 1, o)]),
                9 => Expr::Cast(Box::new(self.expr(Ty::Bool, sc, d - 1, o)), Ty::Int),
                10 => Expr::Cast(Box::new(self.expr(Ty::Float, sc, d - 1, o)), Ty::Int),
                11 => {
                    let f = if self.t.chance(50) { Func::Greatest } else { Func::Least };
                    Expr::Func(f, vec![self.expr(ty, sc, d - 1, o), self.expr(ty, sc, d - 1, o)])
                }
                _ => self.scalar_subquery(ty, sc, o),
            },
            Ty::Float => match self.t.weighted(&[45, 20, 5, 8, 6, 7, 3, 3 * sub]) {
                0 => self.leaf(ty, sc, o),
                1 => {
                    let op = [BinOp::Add, BinOp::Sub, BinOp::Mul][self.t.below(3)];
                    Expr::bin(op, self.expr(ty, sc, d - 1, o), self.expr(ty, sc, d - 1, o))
                }
                2 => {
                    let dv = [2.0, 4.0, 0.5, -2.0][self.t.below(4)];
                    Expr::bin(BinOp::Div, self.expr(ty, sc, d - 1, o), Expr::float(dv))
                }
                3 => self.case(ty, sc, d, o),
                4 => self.coalesce(ty, sc, d, o),
                5 => Expr::Cast(Box::new(self.expr(Ty::Int, sc, d - 1, o)), Ty::Float),
                6 => Expr::Func(Func::Abs, vec![self.expr(ty, sc, d - 1, o)]),
                _ => self.scalar_subquery(ty, sc, o),
            },
            Ty::Str => match self.t.weighted(&[45, 15, 8, 8, 6, 5, 5, 3, 3 * sub]) {
                0 => self.leaf(ty, sc, o),
                1 => Expr::bin(BinOp::Concat, self.expr(ty, sc, d - 1, o), self.expr(ty, sc, d - 1, o)),
                2 => Expr::Func(if self.t.chance(50) { Func::Upper } else { Func::Lower }, vec![self.expr(ty, sc, d - 1, o)]),
                3 => self.case(ty, sc, d, o),
                4 => self.coalesce(ty, sc, d, o),
                5 => Expr::Cast(Box::new(self.expr(Ty::Int, sc, d - 1, o)), Ty::Str),
                6 => Expr::Func(Func::ConcatFn, vec![self.expr(ty, sc, d - 1, o), self.expr(ty, sc, d - 1, o)]),
                7 => Expr::NullIf(Box::new(self.expr(ty, sc, d - 1, o)), Box::new(self.expr(ty, sc, d - 1, o))),
                _ => self.scalar_subquery(ty, sc, o),
            },
            Ty::Bool => self.bool_expr(sc, d, o),
        }
    }

    fn division(&mut self, sc: &Scope, d: u32, o: EOpts) -> Expr {
        let op = if self.t.chance(40) { BinOp::Mod } else { BinOp::Div };
        let num = self.expr(Ty::Int, sc, d - 1, o);
        let unguarded = self.t.chance(self.cfg.unguarded_div_pct);
        let den = if unguarded {
            self.expr(Ty::Int, sc, d - 1, o)
        } else if self.t.chance(50) {
            Expr::int([2i64, 3, -2, 7, 1][self.t.below(5)])
        } else {
            Expr::NullIf(Box::new(self.expr(Ty::Int, sc, d - 1, o)), Box::new(Expr::int(0)))
        };
        Expr::bin(op, num, den)
    }

    fn case(&mut self, ty: Ty, sc: &Scope, d: u32, o: EOpts) -> Expr {
        let n = 1 + self.t.below(2);
        let with_operand = self.t.chance(25);
        let (operand, oty) = if with_operand {
            let oty = self.ty();
            (Some(Box::new(self.expr(oty, sc, d - 1, o))), oty)
        } else {
            (None, Ty::Bool)
        };
        let mut whens = vec![];
        for _ in 0..n {
            let w = self.expr(oty, sc, d - 1, o);
            let t = self.expr(ty, sc, d - 1, o);
            whens.push((w, t));
        }
        let else_ = if self.t.chance(70) { Some(Box::new(self.expr(ty, sc, d - 1, o))) } else { None };
        Expr::Case { operand, whens, else_ }
    }

    fn coalesce(&mut self, ty: Ty, sc: &Scope, d: u32, o: EOpts) -> Expr {
        let n = 2 + self.t.below(2);
        Expr::Coalesce((0..n).map(|_| self.expr(ty, sc, d - 1, o)).collect())
    }

    fn cmp_op(&mut self) -> BinOp {
        BinOp::CMPS[self.t.weighted(&CMP_WEIGHTS)]
    }

    fn bool_expr(&mut self, sc: &Scope, d: u32, o: EOpts) -> Expr {
        if d == 0 {
            return self.leaf(Ty::Bool, sc, o);
        }
        let sub = if o.subq > 0 && self.cfg.subqueries { 1 } else { 0 };
        match self.t.weighted(&[35, 8, 15, 5, 8, 4, 4, 5, 5, 3, 3, 5 * sub, 5 * sub, 4 * sub]) {
            0 => {
                let ty = self.ty();
                let op = self.cmp_op();
                Expr::bin(op, self.expr(ty, sc, d - 1, o), self.expr(ty, sc, d - 1, o))
            }
            1 => self.leaf(Ty::Bool, sc, o),
            2 => {
                let op = if self.t.chance(50) { BinOp::Or } else { BinOp::And };
                Expr::bin(op, self.bool_expr(sc, d - 1, o), self.bool_expr(sc, d - 1, o))
            }
            3 => Expr::Not(Box::new(self.bool_expr(sc, d - 1, o))),
            4 => {
                let ty = self.ty();
                Expr::IsNull { e: Box::new(self.expr(ty, sc, d - 1, o)), negated: self.t.chance(50) }
            }
            5 => {
                let ty = self.ty();
                Expr::IsDistinctFrom { l: Box::new(self.expr(ty, sc, d - 1, o)), r: Box::new(self.expr(ty, sc, d - 1, o)), negated: self.t.chance(50) }
            }
            6 => {
                let ty = [Ty::Int, Ty::Float, Ty::Str][self.t.weighted(&[60, 20, 20])];
                Expr::Between {
                    e: Box::new(self.expr(ty, sc, d - 1, o)),
                    lo: Box::new(self.expr(ty, sc, d - 1, o)),
                    hi: Box::new(self.expr(ty, sc, d - 1, o)),
                    negated: self.t.chance(30),
                }
            }
            7 => {
                let ty = [Ty::Int, Ty::Str, Ty::Float][self.t.weighted(&[60, 30, 10])];
                let e = self.expr(ty, sc, d - 1, o);
                let n = 1 + self.t.below(4);
                let mut list = vec![];
                for _ in 0..n {
                    // mostly literals (the engine's InList fast paths), sometimes NULL or an expression
                    list.push(match self.t.weighted(&[75, 10, 15]) {
                        0 => self.lit(ty),
                        1 => Expr::Null(ty),
                        _ => self.expr(ty, sc, d - 1, o),
                    });
                }
                Expr::InList { e: Box::new(e), list, negated: self.t.chance(40) }
            }
            8 => {
                let e = self.expr(Ty::Str, sc, d - 1, o);
                let pats = ["a%", "%b", "_", "%", "a_", "%a%", "", "a\\%", "A%", "_b%", "ab", "%é"];
                let pat = if self.t.chance(85) { Expr::str(pats[self.t.below(pats.len())]) } else { self.leaf(Ty::Str, sc, o) };
                Expr::Like { e: Box::new(e), pat: Box::new(pat), negated: self.t.chance(25), ilike: self.t.chance(25) }
            }
            9 => {
                let test = [BoolTest::IsTrue, BoolTest::IsNotTrue, BoolTest::IsFalse, BoolTest::IsNotFalse, BoolTest::IsUnknown, BoolTest::IsNotUnknown][self.t.below(6)];
                Expr::BoolTest { e: Box::new(self.bool_expr(sc, d - 1, o)), test }
            }
            10 => self.case(Ty::Bool, sc, d, o),
            11 => {
                let q = self.pred_subquery(None, sc, o);
                Expr::Exists { q: Box::new(q), negated: self.t.chance(40) }
            }
            12 => {
                let ty = [Ty::Int, Ty::Str, Ty::Float, Ty::Bool][self.t.weighted(&[65, 20, 10, 5])];
                let e = self.expr(ty, sc, d - 1, EOpts { subq: 0, ..o });
                let q = self.pred_subquery(Some(ty), sc, o);
                Expr::InSubquery { e: Box::new(e), q: Box::new(q), negated: self.t.chance(45) }
            }
            _ => {
                let ty = [Ty::Int, Ty::Str, Ty::Float][self.t.weighted(&[70, 20, 10])];
                let e = self.expr(ty, sc, d - 1, EOpts { subq: 0, ..o });
                let q = self.pred_subquery(Some(ty), sc, o);
                Expr::Quantified { e: Box::new(e), op: self.cmp_op(), all: self.t.chance(50), q: Box::new(q) }
            }
        }
    }

    // ----- subqueries inside expressions

    fn outer_for_subquery(&self, sc: &Scope) -> Vec<ColRef> {
        sc.cols.clone()
    }

    /// subquery for EXISTS / IN / ANY / ALL: one column of type `ty` (or anything for EXISTS)
    fn pred_subquery(&mut self, ty: Option<Ty>, sc: &Scope, o: EOpts) -> Query {
        let depth = o.subq - 1;
        let outer = self.outer_for_subquery(sc);
        let correlated = !outer.is_empty() && self.t.chance(55);
        let want = vec![ty.unwrap_or(Ty::Int)];
        if !correlated && depth > 0 && self.t.chance(25) {
            // an arbitrary (uncorrelated) query of that type
            return self.query(Some(&want), depth, false);
        }
        let sel = self.select(Some(&want), if correlated { &outer } else { &[] }, depth, SelMode::PlainOnly);
        Query::simple(sel.0)
    }

    /// scalar subquery of type `ty`: a global aggregate (exactly one row), possibly correlated
    fn scalar_subquery(&mut self, ty: Ty, sc: &Scope, o: EOpts) -> Expr {
        let depth = o.subq - 1;
        let outer = self.outer_for_subquery(sc);
        let correlated = !outer.is_empty() && self.t.chance(55);
        let want = vec![ty];
        let sel = self.select(Some(&want), if correlated { &outer } else { &[] }, depth, SelMode::GlobalAgg);
        Expr::Scalar(Box::new(Query::simple(sel.0)))
    }

    // ----- FROM

    fn base_rel(&mut self, depth: u32) -> (TableRef, Vec<ColRef>, Vec<ColRef>) {
        let alias = self.rel();
        let nd = if depth > 0 { 12 } else { 0 };
        let sv = if self.cfg.series_values { 4 } else { 0 };
        let ncte = if self.ctes.is_empty() { 0 } else { 25 };
        match self.t.weighted(&[70, nd, sv, sv, ncte]) {
            0 => {
                let i = self.t.below(self.cfg.tables.len());
                let ts = &self.cfg.tables[i];
                let cols: Vec<ColRef> = ts.cols.iter().map(|c| ColRef { rel: alias.clone(), name: c.name.clone(), ty: c.ty }).collect();
                let key = match &ts.unique {
                    Some(u) => cols.iter().filter(|c| &c.name == u).cloned().collect(),
                    None => cols.clone(),
                };
                (TableRef::Table { name: ts.name.clone(), alias }, cols, key)
            }
            1 => {
                let (q, outs) = self.query_with_outputs(None, depth - 1, false);
                let cols: Vec<ColRef> = outs.into_iter().map(|(n, ty)| ColRef { rel: alias.clone(), name: n, ty }).collect();
                (TableRef::Derived { q: Box::new(q), alias }, cols.clone(), cols)
            }
            2 => {
                let start = self.t.range(-2, 3);
                let len = self.t.range(0, 6);
                let (stop, step) = if self.t.chance(20) { (start - len, -(self.t.range(1, 2))) } else { (start + len, self.t.range(1, 2)) };
                let cols = vec![ColRef { rel: alias.clone(), name: "value".into(), ty: Ty::Int }];
                (TableRef::Series { start, stop, step, exclusive: self.t.chance(30), alias }, cols.clone(), cols)
            }
            3 => {
                let ncols = 1 + self.t.below(2);
                let tys: Vec<Ty> = (0..ncols).map(|_| self.ty()).collect();
                let nrows = 1 + self.t.below(3);
                let names: Vec<String> = (0..ncols).map(|_| self.colname()).collect();
                let mut rows = vec![];
                for _ in 0..nrows {
                    rows.push(tys.iter().map(|ty| if self.t.chance(15) { Expr::Null(*ty) } else { self.lit(*ty) }).collect());
                }
                let cols: Vec<ColRef> = names.iter().zip(&tys).map(|(n, ty)| ColRef { rel: alias.clone(), name: n.clone(), ty: *ty }).collect();
                (TableRef::Values { rows, alias, cols: names }, cols.clone(), cols)
            }
            _ => {
                let i = self.t.below(self.ctes.len());
                let (name, ccols) = self.ctes[i].clone();
                let cols: Vec<ColRef> = ccols.into_iter().map(|(n, ty)| ColRef { rel: alias.clone(), name: n, ty }).collect();
                (TableRef::Table { name, alias }, cols.clone(), cols)
            }
        }
    }

    fn join_on(&mut self, l: &[ColRef], r: &[ColRef], depth: u32) -> Expr {
        let both = Scope { cols: l.iter().chain(r.iter()).cloned().collect(), outer: vec![], key: vec![] };
        let o = EOpts { subq: 0, corr: false };
        let _ = depth;
        // pairs of equally typed columns
        let mut pairs: Vec<(&ColRef, &ColRef)> = vec![];
        for a in l {
            for b in r {
                if a.ty == b.ty {
                    pairs.push((a, b));
                }
            }
        }
        let general = pairs.is_empty() || self.t.chance(12);
        if general {
            return self.bool_expr(&both, 2, o);
        }
        // favour integer pairs (hash-join keys with matches)
        let ints: Vec<(&ColRef, &ColRef)> = pairs.iter().filter(|(a, _)| a.ty == Ty::Int).cloned().collect();
        let pool = if !ints.is_empty() && self.t.chance(75) { ints } else { pairs.clone() };
        let (a, b) = pool[self.t.below(pool.len())];
        let first = if self.t.chance(8) {
            Expr::IsDistinctFrom { l: Box::new(a.expr()), r: Box::new(b.expr()), negated: true }
        } else {
            Expr::eq(a.expr(), b.expr())
        };
        match self.t.weighted(&[55, 15, 15, 15]) {
            0 => first,
            1 => {
                let (c, d) = pairs[self.t.below(pairs.len())];
                Expr::and(first, Expr::eq(c.expr(), d.expr()))
            }
            2 => {
                let (c, d) = pairs[self.t.below(pairs.len())];
                let op = self.cmp_op();
                Expr::and(first, Expr::bin(op, c.expr(), d.expr()))
            }
            _ => {
                let extra = self.bool_expr(&both, 1, o);
                Expr::and(first, extra)
            }
        }
    }

    fn from_clause(&mut self, depth: u32) -> (TableRef, Scope) {
        let n = if self.cfg.joins { 1 + self.t.weighted(&[50, 38, 12]) } else { 1 };
        let (mut tref, mut cols, mut key) = self.base_rel(depth);
        for _ in 1..n {
            let (rt, rcols, rkey) = self.base_rel(depth);
            let sa = if self.cfg.semi_anti_joins { 1 } else { 0 };
            let kind = [JoinKind::Inner, JoinKind::Left, JoinKind::Cross, JoinKind::Right, JoinKind::Full, JoinKind::LeftSemi, JoinKind::LeftAnti, JoinKind::RightSemi, JoinKind::RightAnti]
                [self.t.weighted(&[32, 20, 7, 8, 9, 7 * sa, 7 * sa, 5 * sa, 5 * sa])];
            let on = if kind == JoinKind::Cross { None } else { Some(self.join_on(&cols, &rcols, depth)) };
            tref = TableRef::Join { kind, left: Box::new(tref), right: Box::new(rt), on };
            match kind {
                JoinKind::LeftSemi | JoinKind::LeftAnti => {}
                JoinKind::RightSemi | JoinKind::RightAnti => {
                    cols = rcols;
                    key = rkey;
                }
                _ => {
                    cols.extend(rcols);
                    key.extend(rkey);
                }
            }
        }
        (tref, Scope { cols, outer: vec![], key })
    }

    // ----- SELECT

    fn correlation_pred(&mut self, sc: &Scope) -> Option<Expr> {
        // inner column <op> outer column of the same type
        let mut pairs = vec![];
        for a in &sc.cols {
            for b in &sc.outer {
                if a.ty == b.ty {
                    pairs.push((a.clone(), b.clone()));
                }
            }
        }
        if pairs.is_empty() {
            return None;
        }
        let ints: Vec<(ColRef, ColRef)> = pairs.iter().filter(|(a, _)| a.ty == Ty::Int).cloned().collect();
        let pool = if !ints.is_empty() && self.t.chance(75) { ints } else { pairs };
        let (a, b) = pool[self.t.below(pool.len())].clone();
        let op = if self.t.chance(75) { BinOp::Eq } else { self.cmp_op() };
        Some(Expr::bin(op, a.expr(), b.expr()))
    }

    fn select(&mut self, want: Option<&[Ty]>, outer: &[ColRef], depth: u32, mode: SelMode) -> (Select, Vec<(String, Ty)>) {
        let is_top = std::mem::replace(&mut self.top_select_pending, false);
        let (from, mut sc) = self.from_clause(depth);
        sc.outer = outer.to_vec();
        let o = EOpts { subq: depth, corr: false };
        // WHERE
        let mut where_ = None;
        if !outer.is_empty() {
            where_ = self.correlation_pred(&sc);
        }
        if self.t.chance(55) {
            let corr = !outer.is_empty() && self.t.chance(15);
            let w = self.bool_expr(&sc, self.cfg.expr_depth, EOpts { corr, ..o });
            where_ = Some(match where_ {
                None => w,
                Some(c) => Expr::and(c, w),
            });
        }
        let tys: Vec<Ty> = match want {
            Some(w) => w.to_vec(),
            None => {
                let n = 1 + self.t.weighted(&[25, 35, 25, 15]);
                (0..n).map(|_| self.ty()).collect()
            }
        };
        let gb = if self.cfg.group_by { 1 } else { 0 };
        let shape = match mode {
            SelMode::GlobalAgg => 2,
            SelMode::PlainOnly => self.t.weighted(&[80, 20 * gb]),
            SelMode::Any => self.t.weighted(&[62, 26 * gb, 7 * gb, if self.cfg.windows { 10 } else { 0 }]),
        };
        let mut sel = Select { distinct: false, items: vec![], from: Some(from), where_, group_by: GroupBy::None, having: None, qualify: None };
        let mut outs = vec![];
        match shape {
            0 => {
                // plain projection; subquery predicates in the SELECT list at low weight
                for ty in &tys {
                    let mut unaliased = false;
                    let e = if *ty == Ty::Bool && depth > 0 && self.t.chance(self.cfg.select_list_subquery_pct) {
                        // EXISTS / IN / ANY / ALL directly in the SELECT list; at the top level sometimes without alias
                        unaliased = is_top && self.t.chance(50);
                        self.select_list_pred(&sc, depth)
                    } else {
                        let subq = if self.t.chance(30) { depth } else { 0 };
                        self.expr(*ty, &sc, self.cfg.expr_depth, EOpts { subq, corr: false })
                    };
                    let alias = if unaliased { String::new() } else { self.colname() };
                    outs.push((alias.clone(), *ty));
                    sel.items.push(SelectItem { expr: e, alias });
                }
                sel.distinct = self.t.chance(15);
            }
            1 | 2 => {
                // grouped (1) or global (2) aggregation
                let mut keys: Vec<(Expr, Ty)> = vec![];
                if shape == 1 {
                    let nk = 1 + self.t.weighted(&[65, 30, 5]);
                    for _ in 0..nk {
                        let ty = self.ty();
                        let e = if self.t.chance(75) { self.leaf_col(ty, &sc) } else { self.expr(ty, &sc, 2, EOpts { subq: 0, corr: false }) };
                        if matches!(e, Expr::Lit(_) | Expr::Null(_)) || keys.iter().any(|(k, _)| k == &e) {
                            continue;
                        }
                        keys.push((e, ty));
                    }
                    let kexprs: Vec<Expr> = keys.iter().map(|(e, _)| e.clone()).collect();
                    sel.group_by = if kexprs.is_empty() {
                        GroupBy::None
                    } else if self.cfg.grouping_sets && self.t.chance(12) {
                        match self.t.below(3) {
                            0 => GroupBy::Rollup(kexprs),
                            1 => GroupBy::Cube(kexprs),
                            _ => {
                                // a few subsets
                                let mut sets = vec![kexprs.clone()];
                                sets.push(vec![kexprs[0].clone()]);
                                if self.t.chance(50) {
                                    sets.push(vec![]);
                                }
                                GroupBy::Sets(sets)
                            }
                        }
                    } else {
                        GroupBy::Plain(kexprs)
                    };
                }
                let plain_grouping = matches!(sel.group_by, GroupBy::Plain(_) | GroupBy::None);
                for ty in &tys {
                    let e = self.agg_expr(*ty, &keys, &sc, 2, depth, shape == 2);
                    let alias = self.colname();
                    outs.push((alias.clone(), *ty));
                    sel.items.push(SelectItem { expr: e, alias });
                }
                if !plain_grouping && self.t.chance(50) && !keys.is_empty() {
                    // expose grouping() of a key
                    let k = keys[self.t.below(keys.len())].0.clone();
                    let alias = self.colname();
                    outs.push((alias.clone(), Ty::Int));
                    sel.items.push(SelectItem { expr: Expr::Grouping(Box::new(k)), alias });
                }
                if shape == 1 && self.t.chance(30) {
                    sel.having = Some(self.agg_expr(Ty::Bool, &keys, &sc, 2, if plain_grouping { depth } else { 0 }, false));
                }
                if matches!(sel.group_by, GroupBy::None) && !sel.items.iter().any(|i| super::eval::contains_agg(&i.expr)) {
                    // a global aggregate must aggregate (exactly one output row)
                    let first = sel.items[0].expr.clone();
                    let guard = Expr::bin(BinOp::Ge, Expr::Agg(Box::new(AggCall { f: AggFunc::Count, distinct: false, arg: None, filter: None })), Expr::int(0));
                    sel.items[0].expr = Expr::Case { operand: None, whens: vec![(guard, first)], else_: None };
                }
                if want.is_some() && outs.len() != tys.len() {
                    // keep the requested arity
                    sel.items.truncate(tys.len());
                    outs.truncate(tys.len());
                }
            }
            _ => {
                // window functions over a plain select
                for (i, ty) in tys.iter().enumerate() {
                    let e = if i == 0 || self.t.chance(40) { self.window_item(*ty, &sc) } else { self.expr(*ty, &sc, 2, EOpts { subq: 0, corr: false }) };
                    let alias = self.colname();
                    outs.push((alias.clone(), *ty));
                    sel.items.push(SelectItem { expr: e, alias });
                }
            }
        }
        (sel, outs)
    }

    fn select_list_pred(&mut self, sc: &Scope, depth: u32) -> Expr {
        let o = EOpts { subq: depth, corr: false };
        match self.t.below(3) {
            0 => {
                let q = self.pred_subquery(None, sc, o);
                Expr::Exists { q: Box::new(q), negated: self.t.chance(40) }
            }
            1 => {
                let e = self.leaf_col(Ty::Int, sc);
                let q = self.pred_subquery(Some(Ty::Int), sc, o);
                Expr::InSubquery { e: Box::new(e), q: Box::new(q), negated: self.t.chance(45) }
            }
            _ => {
                let e = self.leaf_col(Ty::Int, sc);
                let q = self.pred_subquery(Some(Ty::Int), sc, o);
                Expr::Quantified { e: Box::new(e), op: self.cmp_op(), all: self.t.chance(50), q: Box::new(q) }
            }
        }
    }

    fn leaf_col(&mut self, ty: Ty, sc: &Scope) -> Expr {
        let local: Vec<&ColRef> = sc.cols.iter().filter(|c| c.ty == ty).collect();
        if local.is_empty() {
            return self.lit(ty);
        }
        local[self.t.below(local.len())].expr()
    }

    /// an expression over group keys and aggregates
    fn agg_expr(&mut self, ty: Ty, keys: &[(Expr, Ty)], sc: &Scope, d: u32, subq: u32, global: bool) -> Expr {
        let my_keys: Vec<&Expr> = keys.iter().filter(|(_, t)| *t == ty).map(|(e, _)| e).collect();
        let kw = if my_keys.is_empty() { 0 } else { 35 };
        let ao = EOpts { subq: 0, corr: false };
        let arg_d = self.cfg.expr_depth.min(2);
        let deeper = if d > 0 { 1 } else { 0 };
        let local = Scope { cols: sc.cols.clone(), outer: vec![], key: vec![] };
        let _ = global;
        let agg = |g: &mut Self, f: AggFunc, aty: Option<Ty>| -> Expr {
            let arg = aty.map(|t| if g.t.chance(60) { g.leaf_col(t, &local) } else { g.expr(t, &local, arg_d, ao) });
            let distinct = arg.is_some() && matches!(f, AggFunc::Count | AggFunc::Sum) && g.t.chance(20);
            let filter = if g.t.chance(12) { Some(g.bool_expr(&local, 2, ao)) } else { None };
            Expr::Agg(Box::new(AggCall { f, distinct, arg, filter }))
        };
        match ty {
            Ty::Int => match self.t.weighted(&[kw, 20, 12, 15, 10, 4, 12 * deeper, 5 * deeper, 3 * deeper]) {
                0 => my_keys[self.t.below(my_keys.len())].clone(),
                1 => agg(self, AggFunc::Count, None),
                2 => {
                    let t = self.ty();
                    agg(self, AggFunc::Count, Some(t))
                }
                3 => agg(self, AggFunc::Sum, Some(Ty::Int)),
                4 => {
                    let f = if self.t.chance(50) { AggFunc::Min } else { AggFunc::Max };
                    agg(self, f, Some(Ty::Int))
                }
                5 => self.lit(ty),
                6 => {
                    let op = [BinOp::Add, BinOp::Sub, BinOp::Mul][self.t.below(3)];
                    Expr::bin(op, self.agg_expr(ty, keys, sc, d - 1, subq, global), self.agg_expr(ty, keys, sc, d - 1, subq, global))
                }
                7 => Expr::Coalesce(vec![self.agg_expr(ty, keys, sc, d - 1, subq, global), self.lit(ty)]),
                _ => Expr::Case {
                    operand: None,
                    whens: vec![(self.agg_expr(Ty::Bool, keys, sc, d - 1, subq, global), self.agg_expr(ty, keys, sc, d - 1, subq, global))],
                    else_: Some(Box::new(self.agg_expr(ty, keys, sc, d - 1, subq, global))),
                },
            },
            Ty::Float => match self.t.weighted(&[kw, 20, 20, 15, 12, 4, 10 * deeper]) {
                0 => my_keys[self.t.below(my_keys.len())].clone(),
                1 => agg(self, AggFunc::Sum, Some(Ty::Float)),
                2 => agg(self, AggFunc::Avg, Some(Ty::Int)),
                3 => agg(self, AggFunc::Avg, Some(Ty::Float)),
                4 => {
                    let f = if self.t.chance(50) { AggFunc::Min } else { AggFunc::Max };
                    agg(self, f, Some(Ty::Float))
                }
                5 => self.lit(ty),
                _ => {
                    let op = [BinOp::Add, BinOp::Sub, BinOp::Mul][self.t.below(3)];
                    Expr::bin(op, self.agg_expr(ty, keys, sc, d - 1, subq, global), self.agg_expr(ty, keys, sc, d - 1, subq, global))
                }
            },
            Ty::Str => match self.t.weighted(&[kw, 45, 5, 12 * deeper, 8 * deeper]) {
                0 => my_keys[self.t.below(my_keys.len())].clone(),
                1 => {
                    let f = if self.t.chance(50) { AggFunc::Min } else { AggFunc::Max };
                    agg(self, f, Some(Ty::Str))
                }
                2 => self.lit(ty),
                3 => Expr::bin(BinOp::Concat, self.agg_expr(ty, keys, sc, d - 1, subq, global), self.agg_expr(ty, keys, sc, d - 1, subq, global)),
                _ => Expr::Cast(Box::new(self.agg_expr(Ty::Int, keys, sc, d - 1, subq, global)), Ty::Str),
            },
            Ty::Bool => {
                let sub = if subq > 0 && self.cfg.subqueries { 1 } else { 0 };
                match self.t.weighted(&[kw, 25, 40 * deeper.max(1), 8 * deeper, 8 * deeper, 5 * deeper, 6 * sub * deeper]) {
                    0 => my_keys[self.t.below(my_keys.len())].clone(),
                    1 => {
                        let f = if self.t.chance(50) { AggFunc::BoolAnd } else { AggFunc::BoolOr };
                        agg(self, f, Some(Ty::Bool))
                    }
                    2 => {
                        let t = [Ty::Int, Ty::Float, Ty::Str][self.t.weighted(&[70, 15, 15])];
                        let dd = d.saturating_sub(1);
                        let l = self.agg_expr(t, keys, sc, dd, subq, global);
                        let r = if self.t.chance(50) { self.lit(t) } else { self.agg_expr(t, keys, sc, dd, subq, global) };
                        Expr::bin(self.cmp_op(), l, r)
                    }
                    3 => {
                        let op = if self.t.chance(50) { BinOp::Or } else { BinOp::And };
                        Expr::bin(op, self.agg_expr(ty, keys, sc, d - 1, subq, global), self.agg_expr(ty, keys, sc, d - 1, subq, global))
                    }
                    4 => {
                        let t = self.ty();
                        Expr::IsNull { e: Box::new(self.agg_expr(t, keys, sc, d - 1, subq, global)), negated: self.t.chance(50) }
                    }
                    5 => Expr::Not(Box::new(self.agg_expr(ty, keys, sc, d - 1, subq, global))),
                    _ => {
                        // aggregate compared with an uncorrelated scalar subquery / IN subquery (HAVING shapes)
                        let l = self.agg_expr(Ty::Int, keys, sc, 0, 0, global);
                        let empty = Scope::default();
                        if self.t.chance(50) {
                            let s = self.scalar_subquery(Ty::Int, &empty, EOpts { subq, corr: false });
                            Expr::bin(self.cmp_op(), l, s)
                        } else {
                            let q = self.pred_subquery(Some(Ty::Int), &empty, EOpts { subq, corr: false });
                            Expr::InSubquery { e: Box::new(l), q: Box::new(q), negated: self.t.chance(40) }
                        }
                    }
                }
            }
        }
    }

    // ----- windows

    fn total_order(&mut self, sc: &Scope, lead: Vec<OrderItem>) -> Vec<OrderItem> {
        let mut items = lead;
        for k in &sc.key {
            let e = k.expr();
            if !items.iter().any(|i| i.expr == e) {
                items.push(OrderItem { expr: e, desc: self.t.chance(30), nulls_first: None });
            }
        }
        items
    }

    fn order_item(&mut self, e: Expr) -> OrderItem {
        let desc = self.t.chance(35);
        let nulls_first = match self.t.weighted(&[60, 20, 20]) {
            0 => None,
            1 => Some(true),
            _ => Some(false),
        };
        OrderItem { expr: e, desc, nulls_first }
    }

    fn window_item(&mut self, ty: Ty, sc: &Scope) -> Expr {
        let o = EOpts { subq: 0, corr: false };
        let mut partition_by = vec![];
        if self.t.chance(55) {
            let n = 1 + self.t.weighted(&[80, 20]);
            for _ in 0..n {
                let t = self.ty();
                partition_by.push(self.leaf_col(t, sc));
            }
            partition_by.retain(|e| !matches!(e, Expr::Lit(_)));
        }
        // leading order keys
        let mut lead = vec![];
        let nlead = self.t.weighted(&[25, 60, 15]);
        for _ in 0..nlead {
            let t = [Ty::Int, Ty::Float, Ty::Str, Ty::Bool][self.t.weighted(&[60, 15, 15, 10])];
            let e = if self.t.chance(80) { self.leaf_col(t, sc) } else { self.expr(t, sc, 1, o) };
            if matches!(e, Expr::Lit(_) | Expr::Null(_)) || lead.iter().any(|i: &OrderItem| i.expr == e) {
                continue;
            }
            let it = self.order_item(e);
            lead.push(it);
        }
        let arg = |g: &mut Self, t: Ty| if g.t.chance(70) { g.leaf_col(t, sc) } else { g.expr(t, sc, 2, o) };
        match ty {
            Ty::Int => match self.t.weighted(&[15, 10, 10, 8, 12, 10, 25]) {
                0 => Expr::Win(Box::new(WinCall { f: WinFunc::RowNumber, args: vec![], partition_by, order_by: self.total_order(sc, lead), frame: None })),
                1 => Expr::Win(Box::new(WinCall { f: WinFunc::Rank, args: vec![], partition_by, order_by: lead, frame: None })),
                2 => Expr::Win(Box::new(WinCall { f: WinFunc::DenseRank, args: vec![], partition_by, order_by: lead, frame: None })),
                3 => {
                    let k = self.t.range(1, 4);
                    Expr::Win(Box::new(WinCall { f: WinFunc::Ntile, args: vec![Expr::int(k)], partition_by, order_by: self.total_order(sc, lead), frame: None }))
                }
                4 => self.lag_lead(ty, sc, partition_by, lead),
                5 => self.value_fn(ty, sc, partition_by, lead),
                _ => {
                    let (f, a) = match self.t.weighted(&[30, 20, 30, 20]) {
                        0 => (AggFunc::Count, vec![]),
                        1 => {
                            let t = self.ty();
                            (AggFunc::Count, vec![arg(self, t)])
                        }
                        2 => (AggFunc::Sum, vec![arg(self, Ty::Int)]),
                        _ => (if self.t.chance(50) { AggFunc::Min } else { AggFunc::Max }, vec![arg(self, Ty::Int)]),
                    };
                    self.agg_window(f, a, sc, partition_by, lead)
                }
            },
            Ty::Float => match self.t.weighted(&[20, 20, 60]) {
                0 => self.lag_lead(ty, sc, partition_by, lead),
                1 => self.value_fn(ty, sc, partition_by, lead),
                _ => {
                    let (f, a) = match self.t.weighted(&[35, 25, 20, 20]) {
                        0 => (AggFunc::Sum, vec![arg(self, Ty::Float)]),
                        1 => (AggFunc::Avg, vec![arg(self, Ty::Int)]),
                        2 => (AggFunc::Avg, vec![arg(self, Ty::Float)]),
                        _ => (if self.t.chance(50) { AggFunc::Min } else { AggFunc::Max }, vec![arg(self, Ty::Float)]),
                    };
                    self.agg_window(f, a, sc, partition_by, lead)
                }
            },
            Ty::Str => match self.t.weighted(&[35, 35, 30]) {
                0 => self.lag_lead(ty, sc, partition_by, lead),
                1 => self.value_fn(ty, sc, partition_by, lead),
                _ => {
                    let f = if self.t.chance(50) { AggFunc::Min } else { AggFunc::Max };
                    let a = vec![arg(self, Ty::Str)];
                    self.agg_window(f, a, sc, partition_by, lead)
                }
            },
            Ty::Bool => match self.t.weighted(&[35, 35, 30]) {
                0 => self.lag_lead(ty, sc, partition_by, lead),
                1 => self.value_fn(ty, sc, partition_by, lead),
                _ => {
                    // comparison of a ranking function with a literal
                    let w = Expr::Win(Box::new(WinCall { f: WinFunc::RowNumber, args: vec![], partition_by, order_by: self.total_order(sc, lead), frame: None }));
                    Expr::bin(self.cmp_op(), w, Expr::int(self.t.range(1, 3)))
                }
            },
        }
    }

    fn lag_lead(&mut self, ty: Ty, sc: &Scope, partition_by: Vec<Expr>, lead: Vec<OrderItem>) -> Expr {
        let f = if self.t.chance(50) { WinFunc::Lag } else { WinFunc::Lead };
        let mut args = vec![self.leaf_col(ty, sc)];
        match self.t.weighted(&[50, 25, 25]) {
            0 => {}
            1 => args.push(Expr::int(self.t.range(0, 3))),
            _ => {
                args.push(Expr::int(self.t.range(0, 3)));
                args.push(self.lit(ty));
            }
        }
        Expr::Win(Box::new(WinCall { f, args, partition_by, order_by: self.total_order(sc, lead), frame: None }))
    }

    fn value_fn(&mut self, ty: Ty, sc: &Scope, partition_by: Vec<Expr>, lead: Vec<OrderItem>) -> Expr {
        let k = self.t.below(3);
        let mut args = vec![self.leaf_col(ty, sc)];
        let f = match k {
            0 => WinFunc::FirstValue,
            1 => WinFunc::LastValue,
            _ => {
                args.push(Expr::int(self.t.range(1, 3)));
                WinFunc::NthValue
            }
        };
        let order_by = self.total_order(sc, lead);
        let frame = self.frame(&order_by, true);
        Expr::Win(Box::new(WinCall { f, args, partition_by, order_by, frame }))
    }

    fn agg_window(&mut self, f: AggFunc, args: Vec<Expr>, sc: &Scope, partition_by: Vec<Expr>, lead: Vec<OrderItem>) -> Expr {
        // ROWS frames need a total order; RANGE / GROUPS / default frames are peer-insensitive
        let (order_by, frame) = match self.t.weighted(&[30, 30, 20, 20]) {
            0 => (lead, None),
            1 => {
                let ob = self.total_order(sc, lead);
                let fr = self.frame_of_units(FrameUnits::Rows, &ob);
                (ob, Some(fr))
            }
            2 => {
                if lead.is_empty() {
                    (lead, None)
                } else {
                    let fr = self.frame_of_units(FrameUnits::Groups, &lead);
                    (lead, Some(fr))
                }
            }
            _ => {
                // RANGE: offsets only with exactly one numeric key
                let mut ob = lead;
                let numeric_single = ob.len() == 1 && matches!(self.expr_ty_of_key(&ob[0].expr, sc), Some(Ty::Int) | Some(Ty::Float));
                if !numeric_single && self.t.chance(60) {
                    let t = if self.t.chance(75) { Ty::Int } else { Ty::Float };
                    let e = self.leaf_col(t, sc);
                    if !matches!(e, Expr::Lit(_)) {
                        let it = self.order_item(e);
                        ob = vec![it];
                    }
                }
                if ob.is_empty() {
                    (ob, None)
                } else {
                    let fr = self.frame_of_units(FrameUnits::Range, &ob);
                    // re-derive: frame_of_units needs the key type
                    let fr = self.fix_range_frame(fr, &ob, sc);
                    (ob, Some(fr))
                }
            }
        };
        Expr::Win(Box::new(WinCall { f: WinFunc::Agg(f), args, partition_by, order_by, frame }))
    }

    fn expr_ty_of_key(&self, e: &Expr, sc: &Scope) -> Option<Ty> {
        match e {
            Expr::Col { rel: Some(r), name } => sc.cols.iter().find(|c| &c.rel == r && &c.name == name).map(|c| c.ty),
            _ => None,
        }
    }

    fn frame(&mut self, order_by: &[OrderItem], total: bool) -> Option<Frame> {
        if self.t.chance(35) {
            return None;
        }
        let units = if total { [FrameUnits::Rows, FrameUnits::Groups][self.t.weighted(&[75, 25])] } else { FrameUnits::Groups };
        Some(self.frame_of_units(units, order_by))
    }

    /// start/end bounds with start <= end; offsets are small ints (RANGE frames are fixed up for the key type)
    fn frame_of_units(&mut self, units: FrameUnits, _order_by: &[OrderItem]) -> Frame {
        // positions on the axis: UP=-100, k PRECEDING=-k, CURRENT=0, k FOLLOWING=+k, UF=+100
        let pick = |g: &mut Self| -> i64 {
            match g.t.weighted(&[25, 25, 25, 25]) {
                0 => -100,
                1 => -g.t.range(0, 3),
                2 => g.t.range(0, 3),
                _ => 100,
            }
        };
        let mut a = pick(self);
        let mut b = pick(self);
        if a > b {
            std::mem::swap(&mut a, &mut b);
        }
        if a == 100 {
            a = 0;
        }
        if b == -100 {
            b = 0;
        }
        let bound = |p: i64, g: &mut Self, is_start: bool| -> FrameBound {
            match p {
                -100 => FrameBound::UnboundedPreceding,
                100 => FrameBound::UnboundedFollowing,
                0 => {
                    // the engine orders bounds as `0 PRECEDING < CURRENT ROW < 0 FOLLOWING`
                    if g.t.chance(70) {
                        FrameBound::CurrentRow
                    } else if is_start {
                        FrameBound::Preceding(Value::Int(0))
                    } else {
                        FrameBound::Following(Value::Int(0))
                    }
                }
                p if p < 0 => FrameBound::Preceding(Value::Int(-p)),
                p => FrameBound::Following(Value::Int(p)),
            }
        };
        let start = bound(a, self, true);
        let end = bound(b, self, false);
        Frame { units, start, end }
    }

    fn fix_range_frame(&mut self, mut fr: Frame, ob: &[OrderItem], sc: &Scope) -> Frame {
        let kty = if ob.len() == 1 { self.expr_ty_of_key(&ob[0].expr, sc) } else { None };
        let fix = |b: FrameBound, start: bool| -> FrameBound {
            match (&b, kty) {
                (FrameBound::Preceding(Value::Int(k)), Some(Ty::Float)) => FrameBound::Preceding(Value::Float(*k as f64 * 0.5)),
                (FrameBound::Following(Value::Int(k)), Some(Ty::Float)) => FrameBound::Following(Value::Float(*k as f64 * 0.5)),
                (FrameBound::Preceding(_) | FrameBound::Following(_), Some(Ty::Int)) => b,
                (FrameBound::Preceding(_) | FrameBound::Following(_), _) => {
                    // no numeric single key: offsets are not allowed
                    if start { FrameBound::UnboundedPreceding } else { FrameBound::CurrentRow }
                }
                _ => b,
            }
        };
        fr.start = fix(fr.start, true);
        fr.end = fix(fr.end, false);
        fr
    }

    // ----- set expressions / queries

    fn set_expr(&mut self, want: Option<&[Ty]>, depth: u32, mode: SelMode) -> (SetExpr, Vec<(String, Ty)>) {
        if self.cfg.set_ops && depth > 0 && self.t.chance(18) {
            self.top_select_pending = false;
            let (l, outs) = self.set_expr(want, depth - 1, mode);
            let tys: Vec<Ty> = outs.iter().map(|(_, t)| *t).collect();
            let (r, _) = self.set_expr(Some(&tys), depth - 1, mode);
            let op = [SetOp::Union, SetOp::Intersect, SetOp::Except][self.t.weighted(&[50, 25, 25])];
            let all = self.t.chance(50);
            return (SetExpr::SetOp { op, all, left: Box::new(l), right: Box::new(r) }, outs);
        }
        let (s, outs) = self.select(want, &[], depth, mode);
        (SetExpr::Select(Box::new(s)), outs)
    }

    fn order_limit(&mut self, outs: &[(String, Ty)], top: bool) -> (Vec<OrderItem>, Option<u64>, Option<u64>) {
        if outs.is_empty() || outs.iter().any(|(n, _)| n.is_empty()) {
            return (vec![], None, None);
        }
        let all_cols = |g: &mut Self| -> Vec<OrderItem> {
            // a random rotation of all output columns
            let n = outs.len();
            let start = g.t.below(n);
            (0..n).map(|i| g.order_item(Expr::out(&outs[(start + i) % n].0))).collect()
        };
        let lim = if self.cfg.limit { 1 } else { 0 };
        if top {
            match self.t.weighted(&[40, 25, 25 * lim, 10 * lim * if self.cfg.topk_ties { 1 } else { 0 }]) {
                0 => (vec![], None, None),
                1 => {
                    // ORDER BY a prefix subset, no LIMIT
                    let n = 1 + self.t.below(outs.len());
                    let mut v = all_cols(self);
                    v.truncate(n);
                    (v, None, None)
                }
                2 => {
                    let ob = all_cols(self);
                    let (l, o) = self.limit_offset();
                    (ob, l, o)
                }
                _ => {
                    let mut v = all_cols(self);
                    v.truncate(1);
                    let (l, o) = self.limit_offset();
                    (v, l, o)
                }
            }
        } else if self.t.chance(12 * lim) {
            let ob = all_cols(self);
            let (l, o) = self.limit_offset();
            (ob, l, o)
        } else {
            (vec![], None, None)
        }
    }

    fn limit_offset(&mut self) -> (Option<u64>, Option<u64>) {
        match self.t.weighted(&[65, 25, 10]) {
            0 => (Some(self.t.weighted(&[5, 25, 25, 20, 15, 10]) as u64), None),
            1 => (Some(self.t.range(0, 4) as u64), Some(self.t.range(0, 3) as u64)),
            _ => (None, Some(self.t.range(0, 3) as u64)),
        }
    }

    fn query(&mut self, want: Option<&[Ty]>, depth: u32, top: bool) -> Query {
        self.query_with_outputs(want, depth, top).0
    }

    fn query_with_outputs(&mut self, want: Option<&[Ty]>, depth: u32, top: bool) -> (Query, Vec<(String, Ty)>) {
        let (body, outs) = self.set_expr(want, depth, SelMode::Any);
        let (order_by, limit, offset) = self.order_limit(&outs, top);
        (Query { with: vec![], body, order_by, limit, offset }, outs)
    }

    fn top_query(&mut self) -> Query {
        let depth = self.cfg.depth;
        let mut with = vec![];
        if self.cfg.ctes && depth > 0 && self.t.chance(15) {
            let recursive = self.cfg.recursive_ctes && self.t.chance(50);
            let name = format!("c{}", self.next_cte);
            self.next_cte += 1;
            if recursive {
                let (cte, cols) = self.recursive_cte(&name);
                with.push(cte);
                self.ctes.push((name, cols));
            } else {
                let (q, outs) = self.query_with_outputs(None, depth - 1, false);
                with.push(Cte { name: name.clone(), cols: vec![], recursive: false, q: Box::new(q) });
                self.ctes.push((name, outs));
            }
        }
        self.top_select_pending = true;
        let (mut q, _) = self.query_with_outputs(None, depth, true);
        self.top_select_pending = false;
        q.with = with;
        q
    }

    /// counter shape (UNION ALL, bounded by `n < k`) or reachability shape (UNION over a finite domain)
    fn recursive_cte(&mut self, name: &str) -> (Cte, Vec<(String, Ty)>) {
        let col = self.colname();
        let me = self.rel();
        if self.t.chance(50) || self.cfg.tables.is_empty() {
            // WITH RECURSIVE c(n) AS (SELECT <start> UNION ALL SELECT n + <step> FROM c WHERE n < <bound>)
            let start = self.t.range(0, 3);
            let step = self.t.range(1, 3);
            let bound = self.t.range(0, 9);
            let a1 = self.colname();
            let a2 = self.colname();
            let anchor = Select { distinct: false, items: vec![SelectItem { expr: Expr::int(start), alias: a1 }], from: None, where_: None, group_by: GroupBy::None, having: None, qualify: None };
            let n = Expr::col(&me, &col);
            let stepq = Select {
                distinct: false,
                items: vec![SelectItem { expr: Expr::bin(BinOp::Add, n.clone(), Expr::int(step)), alias: a2 }],
                from: Some(TableRef::Table { name: name.to_string(), alias: me }),
                where_: Some(Expr::bin(BinOp::Lt, n, Expr::int(bound))),
                group_by: GroupBy::None,
                having: None,
                qualify: None,
            };
            let body = SetExpr::SetOp { op: SetOp::Union, all: self.t.chance(70), left: Box::new(SetExpr::Select(Box::new(anchor))), right: Box::new(SetExpr::Select(Box::new(stepq))) };
            (Cte { name: name.to_string(), cols: vec![col.clone()], recursive: true, q: Box::new(Query { with: vec![], body, order_by: vec![], limit: None, offset: None }) }, vec![(col, Ty::Int)])
        } else {
            // reachability over edges (a -> b) of a base table:
            // WITH RECURSIVE c(x) AS (SELECT a FROM t WHERE id <= k UNION SELECT e.b FROM t e JOIN c ON e.a = c.x)
            let ti = self.t.below(self.cfg.tables.len());
            let ts = self.cfg.tables[ti].clone();
            let ints: Vec<&ColDef> = ts.cols.iter().filter(|c| c.ty == Ty::Int && Some(&c.name) != ts.unique.as_ref()).collect();
            if ints.len() < 2 {
                return self.recursive_cte_fallback(name, col, me);
            }
            let (ca, cb) = (ints[0].name.clone(), ints[1].name.clone());
            let r1 = self.rel();
            let r2 = self.rel();
            let a1 = self.colname();
            let a2 = self.colname();
            let k = self.t.range(0, 2);
            let anchor_where = ts.unique.as_ref().map(|u| Expr::bin(BinOp::Le, Expr::col(&r1, u), Expr::int(k)));
            let anchor = Select {
                distinct: false,
                items: vec![SelectItem { expr: Expr::col(&r1, &ca), alias: a1 }],
                from: Some(TableRef::Table { name: ts.name.clone(), alias: r1 }),
                where_: anchor_where,
                group_by: GroupBy::None,
                having: None,
                qualify: None,
            };
            let stepq = Select {
                distinct: false,
                items: vec![SelectItem { expr: Expr::col(&r2, &cb), alias: a2 }],
                from: Some(TableRef::Join {
                    kind: JoinKind::Inner,
                    left: Box::new(TableRef::Table { name: ts.name.clone(), alias: r2.clone() }),
                    right: Box::new(TableRef::Table { name: name.to_string(), alias: me.clone() }),
                    on: Some(Expr::eq(Expr::col(&r2, &ca), Expr::col(&me, &col))),
                }),
                where_: None,
                group_by: GroupBy::None,
                having: None,
                qualify: None,
            };
            let body = SetExpr::SetOp { op: SetOp::Union, all: false, left: Box::new(SetExpr::Select(Box::new(anchor))), right: Box::new(SetExpr::Select(Box::new(stepq))) };
            (Cte { name: name.to_string(), cols: vec![col.clone()], recursive: true, q: Box::new(Query { with: vec![], body, order_by: vec![], limit: None, offset: None }) }, vec![(col, Ty::Int)])
        }
    }

    fn recursive_cte_fallback(&mut self, name: &str, col: String, me: String) -> (Cte, Vec<(String, Ty)>) {
        let a1 = self.colname();
        let a2 = self.colname();
        let anchor = Select { distinct: false, items: vec![SelectItem { expr: Expr::int(0), alias: a1 }], from: None, where_: None, group_by: GroupBy::None, having: None, qualify: None };
        let n = Expr::col(&me, &col);
        let stepq = Select {
            distinct: false,
            items: vec![SelectItem { expr: Expr::bin(BinOp::Add, n.clone(), Expr::int(1)), alias: a2 }],
            from: Some(TableRef::Table { name: name.to_string(), alias: me }),
            where_: Some(Expr::bin(BinOp::Lt, n, Expr::int(3))),
            group_by: GroupBy::None,
            having: None,
            qualify: None,
        };
        let body = SetExpr::SetOp { op: SetOp::Union, all: true, left: Box::new(SetExpr::Select(Box::new(anchor))), right: Box::new(SetExpr::Select(Box::new(stepq))) };
        (Cte { name: name.to_string(), cols: vec![col.clone()], recursive: true, q: Box::new(Query { with: vec![], body, order_by: vec![], limit: None, offset: None }) }, vec![(col, Ty::Int)])
    }
}

#[derive(Clone, Copy, PartialEq)]
enum SelMode {
    Any,
    /// no window / global aggregate shapes (subquery bodies)
    PlainOnly,
    /// exactly one row: aggregates without GROUP BY
    GlobalAgg,
}

// ---------------------------------------------------------------------------------------------
// feature labels

/// Label set of a query (construct names) for evidence histograms.
pub fn features(q: &Query) -> Vec<String> {
    use std::collections::BTreeSet;
    let mut f: BTreeSet<String> = BTreeSet::new();
    let mut nq = 0;
    super::analysis::visit_queries(q, &mut |qq| {
        nq += 1;
        if !qq.with.is_empty() {
            f.insert(if qq.with.iter().any(|c| c.recursive) { "cte-recursive".into() } else { "cte".into() });
        }
        if !qq.order_by.is_empty() {
            f.insert("order-by".into());
        }
        if qq.limit.is_some() {
            f.insert("limit".into());
        }
        if qq.offset.is_some() {
            f.insert("offset".into());
        }
        fn set(e: &SetExpr, f: &mut BTreeSet<String>) {
            match e {
                SetExpr::Select(s) => {
                    if s.distinct {
                        f.insert("distinct".into());
                    }
                    if s.where_.is_some() {
                        f.insert("where".into());
                    }
                    if s.having.is_some() {
                        f.insert("having".into());
                    }
                    if s.qualify.is_some() {
                        f.insert("qualify".into());
                    }
                    match &s.group_by {
                        GroupBy::None => {}
                        GroupBy::Plain(_) => {
                            f.insert("group-by".into());
                        }
                        GroupBy::Sets(_) => {
                            f.insert("grouping-sets".into());
                        }
                        GroupBy::Rollup(_) => {
                            f.insert("rollup".into());
                        }
                        GroupBy::Cube(_) => {
                            f.insert("cube".into());
                        }
                    }
                    fn tref(t: &TableRef, f: &mut BTreeSet<String>) {
                        match t {
                            TableRef::Table { .. } => {}
                            TableRef::Join { kind, left, right, .. } => {
                                f.insert(format!("join:{kind:?}"));
                                tref(left, f);
                                tref(right, f);
                            }
                            TableRef::Derived { .. } => {
                                f.insert("derived".into());
                            }
                            TableRef::Series { .. } => {
                                f.insert("series".into());
                            }
                            TableRef::Values { .. } => {
                                f.insert("values".into());
                            }
                        }
                    }
                    if let Some(t) = &s.from {
                        tref(t, f);
                    }
                }
                SetExpr::SetOp { op, all, left, right } => {
                    f.insert(format!("setop:{op:?}{}", if *all { "-all" } else { "" }));
                    set(left, f);
                    set(right, f);
                }
                SetExpr::Query(_) => {
                    f.insert("paren-query".into());
                }
            }
        }
        set(&qq.body, &mut f);
    });
    if nq > 1 {
        f.insert("nested".into());
    }
    super::analysis::visit_exprs(q, &mut |e| {
        let l: Option<String> = match e {
            Expr::Agg(a) => {
                if a.distinct {
                    f.insert("agg-distinct".into());
                }
                if a.filter.is_some() {
                    f.insert("agg-filter".into());
                }
                Some(format!("agg:{:?}", a.f))
            }
            Expr::Win(w) => {
                if let Some(fr) = &w.frame {
                    f.insert(format!("frame:{:?}", fr.units));
                }
                Some(match w.f {
                    WinFunc::Agg(a) => format!("win-agg:{a:?}"),
                    o => format!("win:{o:?}"),
                })
            }
            Expr::Exists { negated, .. } => Some(if *negated { "not-exists".into() } else { "exists".into() }),
            Expr::InSubquery { negated, .. } => Some(if *negated { "not-in-subquery".into() } else { "in-subquery".into() }),
            Expr::Scalar(_) => Some("scalar-subquery".into()),
            Expr::Quantified { all, .. } => Some(if *all { "quantified-all".into() } else { "quantified-any".into() }),
            Expr::Case { .. } => Some("case".into()),
            Expr::Coalesce(_) => Some("coalesce".into()),
            Expr::NullIf(..) => Some("nullif".into()),
            Expr::Like { .. } => Some("like".into()),
            Expr::Between { .. } => Some("between".into()),
            Expr::InList { .. } => Some("in-list".into()),
            Expr::IsDistinctFrom { .. } => Some("is-distinct-from".into()),
            Expr::Grouping(_) => Some("grouping()".into()),
            Expr::Bin(BinOp::Div | BinOp::Mod, ..) => Some("division".into()),
            _ => None,
        };
        if let Some(l) = l {
            f.insert(l);
        }
    });
    if is_correlated(q) {
        f.insert("correlated".into());
    }
    f.into_iter().collect()
}

/// relation aliases defined anywhere inside `q` (FROM clauses of all nested levels)
pub fn defined_aliases(q: &Query) -> Vec<String> {
    let mut out = vec![];
    super::analysis::visit_queries(q, &mut |qq| {
        fn set(e: &SetExpr, out: &mut Vec<String>) {
            match e {
                SetExpr::Select(s) => {
                    if let Some(t) = &s.from {
                        tref(t, out)
                    }
                }
                SetExpr::SetOp { left, right, .. } => {
                    set(left, out);
                    set(right, out)
                }
                SetExpr::Query(_) => {}
            }
        }
        fn tref(t: &TableRef, out: &mut Vec<String>) {
            match t {
                TableRef::Table { alias, .. } | TableRef::Derived { alias, .. } | TableRef::Series { alias, .. } | TableRef::Values { alias, .. } => out.push(alias.clone()),
                TableRef::Join { left, right, .. } => {
                    tref(left, out);
                    tref(right, out)
                }
            }
        }
        set(&qq.body, &mut out);
    });
    out
}

/// does the (sub)query refer to a relation alias it does not define itself (= is it correlated)?
pub fn has_outer_refs(sq: &Query) -> bool {
    let defs = defined_aliases(sq);
    let mut found = false;
    super::analysis::visit_exprs(sq, &mut |x| {
        if let Expr::Col { rel: Some(r), .. } = x {
            if !defs.contains(r) {
                found = true;
            }
        }
    });
    found
}

/// does some subquery of `q` refer to a relation alias it does not define itself?
pub fn is_correlated(q: &Query) -> bool {
    let mut found = false;
    super::analysis::visit_exprs(q, &mut |e| {
        let sub = match e {
            Expr::Exists { q, .. } | Expr::InSubquery { q, .. } | Expr::Quantified { q, .. } => Some(q),
            Expr::Scalar(q) => Some(q),
            _ => None,
        };
        if let Some(sq) = sub {
            if has_outer_refs(sq) {
                found = true;
            }
        }
    });
    found
}
