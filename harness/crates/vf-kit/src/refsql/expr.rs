//! Row-level expression evaluator: SQL three-valued logic, NULL propagation, i128 integer arithmetic
//! with Int64 range checks, exactness-tracked float arithmetic, LIKE matcher, CASE/COALESCE/NULLIF, casts.
//!
//! `eval_expr(e, ctx)` evaluates one expression against an [`ExprCtx`] (which resolves column references
//! and — for the query evaluator — aggregates, window calls and subqueries through [`ExprCtx::hook`]).
//! [`RowCtx`] is the ready-made context for "one row of named columns".
use super::ast::*;
use super::value::*;
use std::cell::Cell;
use std::cmp::Ordering;

/// Why the reference refuses to give an answer. Everything except `Type`/`Unsupported` (harness bugs /
/// constructs outside the fragment) classifies the case rather than failing the harness.
#[derive(Clone, Debug, PartialEq)]
pub enum RefError {
    /// integer division or remainder by zero (the engine must raise `Divide by zero` if it evaluates it)
    DivZero,
    /// Int64 overflow in + - * / negate abs sum — the engine wraps or errors; nothing is required
    Overflow,
    /// cast out of range / unparsable
    CastError,
    /// a float operation produced -0.0, NaN or ±inf (outside the exact float domain)
    FloatDomain(&'static str),
    /// the query's result is not a function of its input (LIMIT over ties, order-sensitive window over ties…)
    Nondeterministic(String),
    /// step budget exhausted (relation sizes) or recursion cap hit
    TooBig(&'static str),
    /// ill-typed tree (generator bug) — never produced by the type-directed generator
    Type(String),
    /// construct outside what this evaluator implements
    Unsupported(String),
    /// scalar subquery returned more than one row (the engine must raise an error too)
    ScalarCardinality,
}

impl std::fmt::Display for RefError {
    fn fmt(&self, f: &mut std::fmt::Formatter<'_>) -> std::fmt::Result {
        write!(f, "{self:?}")
    }
}

pub type R<T> = Result<T, RefError>;

/// Flags the evaluation accumulates.
#[derive(Debug, Default)]
pub struct Flags {
    /// some float operation rounded (results may depend on association order → compare with tolerance only)
    pub inexact: Cell<bool>,
}

pub trait ExprCtx {
    fn col(&self, rel: Option<&str>, name: &str) -> R<Value>;
    /// Called on every node before the default evaluation. The query evaluator intercepts group keys,
    /// aggregates, window calls, `grouping()` and subqueries here.
    fn hook(&self, _e: &Expr) -> Option<R<Value>> {
        None
    }
    fn flags(&self) -> Option<&Flags> {
        None
    }
}

/// One row of named columns.
pub struct RowCtx<'a> {
    pub cols: &'a [(Option<String>, String)],
    pub row: &'a [Value],
    pub flags: Flags,
}

impl<'a> RowCtx<'a> {
    pub fn new(cols: &'a [(Option<String>, String)], row: &'a [Value]) -> Self {
        RowCtx { cols, row, flags: Flags::default() }
    }
}

impl ExprCtx for RowCtx<'_> {
    fn col(&self, rel: Option<&str>, name: &str) -> R<Value> {
        for (i, (r, n)) in self.cols.iter().enumerate() {
            if n == name && (rel.is_none() || r.as_deref() == rel) {
                return Ok(self.row[i].clone());
            }
        }
        Err(RefError::Type(format!("unknown column {rel:?}.{name}")))
    }
    fn flags(&self) -> Option<&Flags> {
        Some(&self.flags)
    }
}

fn note_inexact<C: ExprCtx + ?Sized>(c: &C) {
    if let Some(f) = c.flags() {
        f.inexact.set(true);
    }
}

const TWO53: i64 = 1 << 53;

pub fn int_to_float(i: i64, inexact: &mut bool) -> f64 {
    if i > TWO53 || i < -TWO53 {
        *inexact = true;
    }
    i as f64
}

fn check_float(f: f64) -> R<Value> {
    if f.is_nan() || f.is_infinite() {
        return Err(RefError::FloatDomain("non-finite"));
    }
    if f == 0.0 && f.is_sign_negative() {
        return Err(RefError::FloatDomain("negative zero"));
    }
    Ok(Value::Float(f))
}

fn check_int(v: i128) -> R<Value> {
    if v > i64::MAX as i128 || v < i64::MIN as i128 { Err(RefError::Overflow) } else { Ok(Value::Int(v as i64)) }
}

/// a + b with exactness report (TwoSum)
pub fn float_add(a: f64, b: f64, inexact: &mut bool) -> f64 {
    let s = a + b;
    if s.is_finite() {
        let bb = s - a;
        let err = (a - (s - bb)) + (b - bb);
        if err != 0.0 {
            *inexact = true;
        }
    }
    s
}

pub fn float_mul(a: f64, b: f64, inexact: &mut bool) -> f64 {
    let p = a * b;
    if p.is_finite() && a.mul_add(b, -p) != 0.0 {
        *inexact = true;
    }
    p
}

pub fn float_div(a: f64, b: f64, inexact: &mut bool) -> f64 {
    let q = a / b;
    if q.is_finite() && q.mul_add(b, -a) != 0.0 {
        *inexact = true;
    }
    q
}

/// Arithmetic on two non-NULL-checked values (NULL in → NULL out).
pub fn arith(op: BinOp, a: &Value, b: &Value, inexact: &mut bool) -> R<Value> {
    match (a, b) {
        (Value::Null, _) | (_, Value::Null) => Ok(Value::Null),
        (Value::Int(x), Value::Int(y)) => {
            let (x, y) = (*x as i128, *y as i128);
            match op {
                BinOp::Add => check_int(x + y),
                BinOp::Sub => check_int(x - y),
                BinOp::Mul => check_int(x * y),
                BinOp::Div => {
                    if y == 0 {
                        Err(RefError::DivZero)
                    } else {
                        check_int(x / y) // i128 `/` truncates toward zero
                    }
                }
                BinOp::Mod => {
                    if y == 0 {
                        Err(RefError::DivZero)
                    } else if y == -1 && x == i64::MIN as i128 {
                        Err(RefError::Overflow)
                    } else {
                        check_int(x % y) // sign of the dividend
                    }
                }
                _ => Err(RefError::Type(format!("arith with {op:?}"))),
            }
        }
        (Value::Float(_), Value::Float(_)) | (Value::Int(_), Value::Float(_)) | (Value::Float(_), Value::Int(_)) => {
            let x = match a {
                Value::Int(i) => int_to_float(*i, inexact),
                Value::Float(f) => *f,
                _ => unreachable!(),
            };
            let y = match b {
                Value::Int(i) => int_to_float(*i, inexact),
                Value::Float(f) => *f,
                _ => unreachable!(),
            };
            match op {
                BinOp::Add => check_float(float_add(x, y, inexact)),
                BinOp::Sub => check_float(float_add(x, -y, inexact)),
                BinOp::Mul => check_float(float_mul(x, y, inexact)),
                BinOp::Div => check_float(float_div(x, y, inexact)),
                BinOp::Mod => {
                    if y == 0.0 {
                        Err(RefError::FloatDomain("non-finite"))
                    } else {
                        check_float(x % y)
                    }
                }
                _ => Err(RefError::Type(format!("arith with {op:?}"))),
            }
        }
        _ => Err(RefError::Type(format!("arith {op:?} on {a:?}, {b:?}"))),
    }
}

/// SQL comparison → Bool or NULL.
pub fn compare(op: BinOp, a: &Value, b: &Value) -> R<Value> {
    if a.is_null() || b.is_null() {
        return Ok(Value::Null);
    }
    let compatible = match (a.ty(), b.ty()) {
        (Some(x), Some(y)) => x == y || (x.is_numeric() && y.is_numeric()),
        _ => false,
    };
    if !compatible {
        return Err(RefError::Type(format!("compare {a:?} {op:?} {b:?}")));
    }
    let c = sql_cmp(a, b).unwrap();
    Ok(Value::Bool(match op {
        BinOp::Eq => c == Ordering::Equal,
        BinOp::Ne => c != Ordering::Equal,
        BinOp::Lt => c == Ordering::Less,
        BinOp::Le => c != Ordering::Greater,
        BinOp::Gt => c == Ordering::Greater,
        BinOp::Ge => c != Ordering::Less,
        _ => return Err(RefError::Type(format!("compare with {op:?}"))),
    }))
}

fn tv(v: &Value) -> R<Option<bool>> {
    match v {
        Value::Null => Ok(None),
        Value::Bool(b) => Ok(Some(*b)),
        o => Err(RefError::Type(format!("boolean expected, got {o:?}"))),
    }
}

fn from_tv(t: Option<bool>) -> Value {
    match t {
        None => Value::Null,
        Some(b) => Value::Bool(b),
    }
}

pub fn and3(a: Option<bool>, b: Option<bool>) -> Option<bool> {
    match (a, b) {
        (Some(false), _) | (_, Some(false)) => Some(false),
        (Some(true), Some(true)) => Some(true),
        _ => None,
    }
}

pub fn or3(a: Option<bool>, b: Option<bool>) -> Option<bool> {
    match (a, b) {
        (Some(true), _) | (_, Some(true)) => Some(true),
        (Some(false), Some(false)) => Some(false),
        _ => None,
    }
}

pub fn not3(a: Option<bool>) -> Option<bool> {
    a.map(|b| !b)
}

/// `x IN (candidates)` under three-valued logic: TRUE on a match, else NULL if x or any candidate is
/// NULL (and there is at least one candidate), else FALSE. Empty candidate set → FALSE even for NULL x.
pub fn in3(x: &Value, candidates: &[Value]) -> R<Option<bool>> {
    if candidates.is_empty() {
        return Ok(Some(false));
    }
    if x.is_null() {
        return Ok(None);
    }
    let mut saw_null = false;
    for c in candidates {
        match tv(&compare(BinOp::Eq, x, c)?)? {
            Some(true) => return Ok(Some(true)),
            None => saw_null = true,
            Some(false) => {}
        }
    }
    Ok(if saw_null { None } else { Some(false) })
}

/// `x op ANY (candidates)` = OR over comparisons (FALSE on empty); `x op ALL` = AND (TRUE on empty).
pub fn quantified3(x: &Value, op: BinOp, all: bool, candidates: &[Value]) -> R<Option<bool>> {
    let mut acc = Some(all);
    for c in candidates {
        let t = tv(&compare(op, x, c)?)?;
        acc = if all { and3(acc, t) } else { or3(acc, t) };
    }
    Ok(acc)
}

/// SQL LIKE with `%`, `_` and backslash escape, matched on characters (own backtracking matcher).
pub fn like_match(s: &str, pat: &str, case_insensitive: bool) -> bool {
    #[derive(Clone, Copy, PartialEq)]
    enum P {
        Any,
        One,
        Ch(char),
    }
    let fold = |c: char| -> char {
        if case_insensitive {
            let mut l = c.to_lowercase();
            match (l.next(), l.next()) {
                (Some(x), None) => x,
                _ => c,
            }
        } else {
            c
        }
    };
    let mut ps = vec![];
    let mut it = pat.chars();
    while let Some(c) = it.next() {
        match c {
            '%' => ps.push(P::Any),
            '_' => ps.push(P::One),
            '\\' => match it.next() {
                Some(n) => ps.push(P::Ch(fold(n))),
                None => ps.push(P::Ch('\\')),
            },
            c => ps.push(P::Ch(fold(c))),
        }
    }
    let cs: Vec<char> = s.chars().map(fold).collect();
    fn go(cs: &[char], ps: &[P]) -> bool {
        match ps.first() {
            None => cs.is_empty(),
            Some(P::Any) => (0..=cs.len()).any(|k| go(&cs[k..], &ps[1..])),
            Some(P::One) => !cs.is_empty() && go(&cs[1..], &ps[1..]),
            Some(P::Ch(c)) => cs.first() == Some(c) && go(&cs[1..], &ps[1..]),
        }
    }
    go(&cs, &ps)
}

pub fn cast(v: &Value, to: Ty, inexact: &mut bool) -> R<Value> {
    Ok(match (v, to) {
        (Value::Null, _) => Value::Null,
        (Value::Int(_), Ty::Int) | (Value::Float(_), Ty::Float) | (Value::Str(_), Ty::Str) | (Value::Bool(_), Ty::Bool) => v.clone(),
        (Value::Int(i), Ty::Float) => Value::Float(int_to_float(*i, inexact)),
        (Value::Float(f), Ty::Int) => {
            if !f.is_finite() {
                return Err(RefError::CastError);
            }
            let t = f.trunc();
            if t >= 9.223372036854775807e18 || t < -9.223372036854775808e18 {
                return Err(RefError::CastError);
            }
            Value::Int(t as i64)
        }
        (Value::Int(i), Ty::Str) => Value::Str(i.to_string()),
        (Value::Bool(b), Ty::Int) => Value::Int(*b as i64),
        (Value::Bool(b), Ty::Float) => Value::Float(if *b { 1.0 } else { 0.0 }),
        (Value::Int(i), Ty::Bool) => Value::Bool(*i != 0),
        (Value::Bool(b), Ty::Str) => Value::Str(if *b { "true".into() } else { "false".into() }),
        (Value::Str(s), Ty::Int) => match s.parse::<i64>() {
            Ok(i) => Value::Int(i),
            Err(_) => return Err(RefError::CastError),
        },
        (a, t) => return Err(RefError::Unsupported(format!("cast {a:?} to {t:?}"))),
    })
}

/// Evaluate an expression. Both operands of AND/OR are always evaluated (an error on either side
/// is an error); CASE and COALESCE are lazy (only the selected branch is evaluated).
pub fn eval_expr<C: ExprCtx + ?Sized>(e: &Expr, c: &C) -> R<Value> {
    if let Some(r) = c.hook(e) {
        return r;
    }
    let mut inexact = false;
    let r = eval_inner(e, c, &mut inexact);
    if inexact {
        note_inexact(c);
    }
    r
}

fn eval_inner<C: ExprCtx + ?Sized>(e: &Expr, c: &C, inexact: &mut bool) -> R<Value> {
    let ev = |x: &Expr| eval_expr(x, c);
    match e {
        Expr::Col { rel, name } => c.col(rel.as_deref(), name),
        Expr::Lit(v) => Ok(v.clone()),
        Expr::Null(_) => Ok(Value::Null),
        Expr::Bin(op, l, r) => {
            let a = ev(l)?;
            let b = ev(r)?;
            match op {
                BinOp::Add | BinOp::Sub | BinOp::Mul | BinOp::Div | BinOp::Mod => arith(*op, &a, &b, inexact),
                BinOp::Eq | BinOp::Ne | BinOp::Lt | BinOp::Le | BinOp::Gt | BinOp::Ge => compare(*op, &a, &b),
                BinOp::And => Ok(from_tv(and3(tv(&a)?, tv(&b)?))),
                BinOp::Or => Ok(from_tv(or3(tv(&a)?, tv(&b)?))),
                BinOp::Concat => match (&a, &b) {
                    (Value::Null, _) | (_, Value::Null) => Ok(Value::Null),
                    (Value::Str(x), Value::Str(y)) => Ok(Value::Str(format!("{x}{y}"))),
                    _ => Err(RefError::Type(format!("|| on {a:?}, {b:?}"))),
                },
            }
        }
        Expr::Not(x) => Ok(from_tv(not3(tv(&ev(x)?)?))),
        Expr::Neg(x) => match ev(x)? {
            Value::Null => Ok(Value::Null),
            Value::Int(i) => check_int(-(i as i128)),
            Value::Float(f) => check_float(-f),
            o => Err(RefError::Type(format!("negate {o:?}"))),
        },
        Expr::IsNull { e, negated } => {
            let v = ev(e)?;
            Ok(Value::Bool(v.is_null() != *negated))
        }
        Expr::IsDistinctFrom { l, r, negated } => {
            let a = ev(l)?;
            let b = ev(r)?;
            let distinct = !group_eq(&a, &b);
            Ok(Value::Bool(distinct != *negated))
        }
        Expr::BoolTest { e, test } => {
            let t = tv(&ev(e)?)?;
            Ok(Value::Bool(match test {
                BoolTest::IsTrue => t == Some(true),
                BoolTest::IsNotTrue => t != Some(true),
                BoolTest::IsFalse => t == Some(false),
                BoolTest::IsNotFalse => t != Some(false),
                BoolTest::IsUnknown => t.is_none(),
                BoolTest::IsNotUnknown => t.is_some(),
            }))
        }
        Expr::Between { e, lo, hi, negated } => {
            let v = ev(e)?;
            let l = ev(lo)?;
            let h = ev(hi)?;
            let t = and3(tv(&compare(BinOp::Ge, &v, &l)?)?, tv(&compare(BinOp::Le, &v, &h)?)?);
            Ok(from_tv(if *negated { not3(t) } else { t }))
        }
        Expr::InList { e, list, negated } => {
            let v = ev(e)?;
            let mut cands = Vec::with_capacity(list.len());
            for x in list {
                cands.push(ev(x)?);
            }
            let t = in3(&v, &cands)?;
            Ok(from_tv(if *negated { not3(t) } else { t }))
        }
        Expr::Like { e, pat, negated, ilike } => {
            let v = ev(e)?;
            let p = ev(pat)?;
            match (&v, &p) {
                (Value::Null, _) | (_, Value::Null) => Ok(Value::Null),
                (Value::Str(s), Value::Str(p)) => Ok(Value::Bool(like_match(s, p, *ilike) != *negated)),
                _ => Err(RefError::Type(format!("LIKE on {v:?}, {p:?}"))),
            }
        }
        Expr::Case { operand, whens, else_ } => {
            match operand {
                Some(o) => {
                    let ov = ev(o)?;
                    for (w, t) in whens {
                        let wv = ev(w)?;
                        if tv(&compare(BinOp::Eq, &ov, &wv)?)? == Some(true) {
                            return ev(t);
                        }
                    }
                }
                None => {
                    for (w, t) in whens {
                        if tv(&ev(w)?)? == Some(true) {
                            return ev(t);
                        }
                    }
                }
            }
            match else_ {
                Some(x) => ev(x),
                None => Ok(Value::Null),
            }
        }
        Expr::Coalesce(es) => {
            for x in es {
                let v = ev(x)?;
                if !v.is_null() {
                    return Ok(v);
                }
            }
            Ok(Value::Null)
        }
        Expr::NullIf(a, b) => {
            let x = ev(a)?;
            let y = ev(b)?;
            if tv(&compare(BinOp::Eq, &x, &y)?)? == Some(true) { Ok(Value::Null) } else { Ok(x) }
        }
        Expr::Cast(x, ty) => cast(&ev(x)?, *ty, inexact),
        Expr::Func(f, args) => {
            let mut vs = Vec::with_capacity(args.len());
            for a in args {
                vs.push(ev(a)?);
            }
            func(*f, &vs)
        }
        Expr::Agg(_) | Expr::Win(_) | Expr::Grouping(_) | Expr::Exists { .. } | Expr::InSubquery { .. } | Expr::Scalar(_) | Expr::Quantified { .. } => {
            Err(RefError::Unsupported("aggregate / window / subquery outside a query context".into()))
        }
    }
}

fn func(f: Func, vs: &[Value]) -> R<Value> {
    match f {
        Func::Abs => match &vs[0] {
            Value::Null => Ok(Value::Null),
            Value::Int(i) => check_int((*i as i128).abs()),
            Value::Float(x) => check_float(x.abs()),
            o => Err(RefError::Type(format!("abs({o:?})"))),
        },
        Func::Upper | Func::Lower => match &vs[0] {
            Value::Null => Ok(Value::Null),
            Value::Str(s) => Ok(Value::Str(if f == Func::Upper { s.to_uppercase() } else { s.to_lowercase() })),
            o => Err(RefError::Type(format!("upper/lower({o:?})"))),
        },
        Func::Length => match &vs[0] {
            Value::Null => Ok(Value::Null),
            Value::Str(s) => Ok(Value::Int(s.chars().count() as i64)),
            o => Err(RefError::Type(format!("length({o:?})"))),
        },
        Func::ConcatFn => {
            let mut out = String::new();
            for v in vs {
                match v {
                    Value::Null => {}
                    Value::Str(s) => out.push_str(s),
                    o => return Err(RefError::Type(format!("concat({o:?})"))),
                }
            }
            Ok(Value::Str(out))
        }
        Func::Greatest | Func::Least => {
            let mut best: Option<&Value> = None;
            for v in vs {
                if v.is_null() {
                    continue;
                }
                best = Some(match best {
                    None => v,
                    Some(b) => {
                        let c = sql_cmp(v, b).unwrap();
                        if (f == Func::Greatest && c == Ordering::Greater) || (f == Func::Least && c == Ordering::Less) { v } else { b }
                    }
                });
            }
            Ok(best.cloned().unwrap_or(Value::Null))
        }
    }
}
