//! Printer: AST → DataFusion SQL text. Everything is parenthesised; no reliance on precedence.
use super::ast::*;
use super::value::Value;

pub fn ident(s: &str) -> String {
    let plain = !s.is_empty()
        && s.chars().next().map(|c| c.is_ascii_lowercase() || c == '_').unwrap_or(false)
        && s.chars().all(|c| c.is_ascii_lowercase() || c.is_ascii_digit() || c == '_');
    if plain { s.to_string() } else { format!("\"{}\"", s.replace('"', "\"\"")) }
}

/// SQL text of a whole query.
pub fn to_sql(q: &Query) -> String {
    let mut s = String::new();
    query(q, &mut s);
    s
}

/// SQL text of one expression.
pub fn expr_to_sql(e: &Expr) -> String {
    let mut s = String::new();
    expr(e, &mut s);
    s
}

fn query(q: &Query, s: &mut String) {
    if !q.with.is_empty() {
        s.push_str("WITH ");
        if q.with.iter().any(|c| c.recursive) {
            s.push_str("RECURSIVE ");
        }
        for (i, c) in q.with.iter().enumerate() {
            if i > 0 {
                s.push_str(", ");
            }
            s.push_str(&ident(&c.name));
            if !c.cols.is_empty() {
                s.push('(');
                s.push_str(&c.cols.iter().map(|c| ident(c)).collect::<Vec<_>>().join(", "));
                s.push(')');
            }
            s.push_str(" AS (");
            query(&c.q, s);
            s.push_str(") ");
        }
    }
    set_expr(&q.body, s, true);
    if !q.order_by.is_empty() {
        s.push_str(" ORDER BY ");
        order_items(&q.order_by, s);
    }
    if let Some(l) = q.limit {
        s.push_str(&format!(" LIMIT {l}"));
    }
    if let Some(o) = q.offset {
        s.push_str(&format!(" OFFSET {o}"));
    }
}

fn order_items(items: &[OrderItem], s: &mut String) {
    for (i, o) in items.iter().enumerate() {
        if i > 0 {
            s.push_str(", ");
        }
        expr(&o.expr, s);
        s.push_str(if o.desc { " DESC" } else { " ASC" });
        match o.nulls_first {
            Some(true) => s.push_str(" NULLS FIRST"),
            Some(false) => s.push_str(" NULLS LAST"),
            None => {}
        }
    }
}

fn set_expr(e: &SetExpr, s: &mut String, top: bool) {
    match e {
        SetExpr::Select(sel) => {
            if top {
                select(sel, s)
            } else {
                s.push('(');
                select(sel, s);
                s.push(')');
            }
        }
        SetExpr::SetOp { op, all, left, right } => {
            if !top {
                s.push('(');
            }
            match &**left {
                SetExpr::Select(sel) if top => select(sel, s),
                _ => set_expr(left, s, false),
            }
            s.push_str(match op {
                SetOp::Union => " UNION ",
                SetOp::Intersect => " INTERSECT ",
                SetOp::Except => " EXCEPT ",
            });
            if *all {
                s.push_str("ALL ");
            }
            set_expr(right, s, false);
            if !top {
                s.push(')');
            }
        }
        SetExpr::Query(q) => {
            s.push('(');
            query(q, s);
            s.push(')');
        }
    }
}

fn select(sel: &Select, s: &mut String) {
    s.push_str("SELECT ");
    if sel.distinct {
        s.push_str("DISTINCT ");
    }
    for (i, it) in sel.items.iter().enumerate() {
        if i > 0 {
            s.push_str(", ");
        }
        expr(&it.expr, s);
        if !it.alias.is_empty() {
            s.push_str(" AS ");
            s.push_str(&ident(&it.alias));
        }
    }
    if let Some(f) = &sel.from {
        s.push_str(" FROM ");
        table_ref(f, s);
    }
    if let Some(w) = &sel.where_ {
        s.push_str(" WHERE ");
        expr(w, s);
    }
    let list = |es: &[Expr], s: &mut String| {
        for (i, e) in es.iter().enumerate() {
            if i > 0 {
                s.push_str(", ");
            }
            expr(e, s);
        }
    };
    match &sel.group_by {
        GroupBy::None => {}
        GroupBy::Plain(es) => {
            if !es.is_empty() {
                s.push_str(" GROUP BY ");
                list(es, s);
            }
        }
        GroupBy::Sets(sets) => {
            s.push_str(" GROUP BY GROUPING SETS (");
            for (i, set) in sets.iter().enumerate() {
                if i > 0 {
                    s.push_str(", ");
                }
                s.push('(');
                list(set, s);
                s.push(')');
            }
            s.push(')');
        }
        GroupBy::Rollup(es) => {
            s.push_str(" GROUP BY ROLLUP (");
            list(es, s);
            s.push(')');
        }
        GroupBy::Cube(es) => {
            s.push_str(" GROUP BY CUBE (");
            list(es, s);
            s.push(')');
        }
    }
    if let Some(h) = &sel.having {
        s.push_str(" HAVING ");
        expr(h, s);
    }
    if let Some(q) = &sel.qualify {
        s.push_str(" QUALIFY ");
        expr(q, s);
    }
}

fn table_ref(t: &TableRef, s: &mut String) {
    match t {
        TableRef::Table { name, alias } => {
            s.push_str(&ident(name));
            if alias != name {
                s.push_str(" AS ");
                s.push_str(&ident(alias));
            }
        }
        TableRef::Join { kind, left, right, on } => {
            // left-deep chains print flat; a join on the right side needs parentheses
            table_ref(left, s);
            s.push(' ');
            s.push_str(kind.sql());
            s.push(' ');
            if matches!(**right, TableRef::Join { .. }) {
                s.push('(');
                table_ref(right, s);
                s.push(')');
            } else {
                table_ref(right, s);
            }
            if let Some(on) = on {
                s.push_str(" ON ");
                expr(on, s);
            }
        }
        TableRef::Derived { q, alias } => {
            s.push('(');
            query(q, s);
            s.push_str(") AS ");
            s.push_str(&ident(alias));
        }
        TableRef::Series { start, stop, step, exclusive, alias } => {
            s.push_str(&format!("{}({}, {}, {}) AS {}", if *exclusive { "range" } else { "generate_series" }, start, stop, step, ident(alias)));
        }
        TableRef::Values { rows, alias, cols } => {
            s.push_str("(VALUES ");
            for (i, r) in rows.iter().enumerate() {
                if i > 0 {
                    s.push_str(", ");
                }
                s.push('(');
                for (j, e) in r.iter().enumerate() {
                    if j > 0 {
                        s.push_str(", ");
                    }
                    expr(e, s);
                }
                s.push(')');
            }
            s.push_str(") AS ");
            s.push_str(&ident(alias));
            s.push('(');
            s.push_str(&cols.iter().map(|c| ident(c)).collect::<Vec<_>>().join(", "));
            s.push(')');
        }
    }
}

fn frame_bound(b: &FrameBound, s: &mut String) {
    match b {
        FrameBound::UnboundedPreceding => s.push_str("UNBOUNDED PRECEDING"),
        FrameBound::Preceding(v) => {
            s.push_str(&bound_lit(v));
            s.push_str(" PRECEDING")
        }
        FrameBound::CurrentRow => s.push_str("CURRENT ROW"),
        FrameBound::Following(v) => {
            s.push_str(&bound_lit(v));
            s.push_str(" FOLLOWING")
        }
        FrameBound::UnboundedFollowing => s.push_str("UNBOUNDED FOLLOWING"),
    }
}

fn bound_lit(v: &Value) -> String {
    match v {
        Value::Int(i) => format!("{i}"),
        Value::Float(f) => format!("{f:?}"),
        other => other.to_sql_literal(),
    }
}

fn agg_call(f: AggFunc, distinct: bool, arg: Option<&Expr>, filter: Option<&Expr>, s: &mut String) {
    s.push_str(f.sql());
    s.push('(');
    if distinct {
        s.push_str("DISTINCT ");
    }
    match arg {
        None => s.push('*'),
        Some(a) => expr(a, s),
    }
    s.push(')');
    if let Some(f) = filter {
        s.push_str(" FILTER (WHERE ");
        expr(f, s);
        s.push(')');
    }
}

fn subq(q: &Query, s: &mut String) {
    let mut inner = String::new();
    query(q, &mut inner);
    if inner.starts_with('(') {
        // `x IN ((SELECT ..) UNION ..)` does not parse: wrap set operations into a derived table
        s.push_str("(SELECT * FROM (");
        s.push_str(&inner);
        s.push_str(") AS sq)");
    } else {
        s.push('(');
        s.push_str(&inner);
        s.push(')');
    }
}

pub(crate) fn expr(e: &Expr, s: &mut String) {
    match e {
        Expr::Col { rel, name } => {
            if let Some(r) = rel {
                s.push_str(&ident(r));
                s.push('.');
            }
            s.push_str(&ident(name));
        }
        Expr::Lit(v) => s.push_str(&v.to_sql_literal()),
        Expr::Null(ty) => {
            s.push_str("CAST(NULL AS ");
            s.push_str(ty.sql());
            s.push(')');
        }
        Expr::Bin(op, l, r) => {
            s.push('(');
            expr(l, s);
            s.push(' ');
            s.push_str(op.sql());
            s.push(' ');
            expr(r, s);
            s.push(')');
        }
        Expr::Not(e) => {
            s.push_str("(NOT ");
            expr(e, s);
            s.push(')');
        }
        Expr::Neg(e) => {
            s.push_str("(- ");
            expr(e, s);
            s.push(')');
        }
        Expr::IsNull { e, negated } => {
            s.push('(');
            expr(e, s);
            s.push_str(if *negated { " IS NOT NULL)" } else { " IS NULL)" });
        }
        Expr::IsDistinctFrom { l, r, negated } => {
            s.push('(');
            expr(l, s);
            s.push_str(if *negated { " IS NOT DISTINCT FROM " } else { " IS DISTINCT FROM " });
            expr(r, s);
            s.push(')');
        }
        Expr::BoolTest { e, test } => {
            s.push('(');
            expr(e, s);
            s.push_str(match test {
                BoolTest::IsTrue => " IS TRUE)",
                BoolTest::IsNotTrue => " IS NOT TRUE)",
                BoolTest::IsFalse => " IS FALSE)",
                BoolTest::IsNotFalse => " IS NOT FALSE)",
                BoolTest::IsUnknown => " IS UNKNOWN)",
                BoolTest::IsNotUnknown => " IS NOT UNKNOWN)",
            });
        }
        Expr::Between { e, lo, hi, negated } => {
            s.push('(');
            expr(e, s);
            s.push_str(if *negated { " NOT BETWEEN " } else { " BETWEEN " });
            expr(lo, s);
            s.push_str(" AND ");
            expr(hi, s);
            s.push(')');
        }
        // `x IN ((SELECT ..))` parses as an IN-*subquery*: a one-element list holding a bare scalar subquery is
        // printed as the (three-valued-equivalent) comparison `x = (SELECT ..)` / `x <> (SELECT ..)`
        Expr::InList { e, list, negated } if list.len() == 1 && matches!(list[0], Expr::Scalar(_)) => {
            s.push('(');
            expr(e, s);
            s.push_str(if *negated { " <> " } else { " = " });
            expr(&list[0], s);
            s.push(')');
        }
        Expr::InList { e, list, negated } => {
            s.push('(');
            expr(e, s);
            s.push_str(if *negated { " NOT IN (" } else { " IN (" });
            for (i, x) in list.iter().enumerate() {
                if i > 0 {
                    s.push_str(", ");
                }
                expr(x, s);
            }
            s.push_str("))");
        }
        Expr::Like { e, pat, negated, ilike } => {
            s.push('(');
            expr(e, s);
            if *negated {
                s.push_str(" NOT");
            }
            s.push_str(if *ilike { " ILIKE " } else { " LIKE " });
            expr(pat, s);
            s.push(')');
        }
        Expr::Case { operand, whens, else_ } => {
            s.push_str("(CASE");
            if let Some(o) = operand {
                s.push(' ');
                expr(o, s);
            }
            for (w, t) in whens {
                s.push_str(" WHEN ");
                expr(w, s);
                s.push_str(" THEN ");
                expr(t, s);
            }
            if let Some(e) = else_ {
                s.push_str(" ELSE ");
                expr(e, s);
            }
            s.push_str(" END)");
        }
        Expr::Coalesce(es) => {
            s.push_str("coalesce(");
            for (i, x) in es.iter().enumerate() {
                if i > 0 {
                    s.push_str(", ");
                }
                expr(x, s);
            }
            s.push(')');
        }
        Expr::NullIf(a, b) => {
            s.push_str("nullif(");
            expr(a, s);
            s.push_str(", ");
            expr(b, s);
            s.push(')');
        }
        Expr::Cast(e, ty) => {
            s.push_str("CAST(");
            expr(e, s);
            s.push_str(" AS ");
            s.push_str(ty.sql());
            s.push(')');
        }
        Expr::Func(f, args) => {
            let name = match f {
                Func::Abs => "abs",
                Func::Upper => "upper",
                Func::Lower => "lower",
                Func::Length => "character_length",
                Func::ConcatFn => "concat",
                Func::Greatest => "greatest",
                Func::Least => "least",
            };
            if *f == Func::Length {
                s.push_str("CAST(");
            }
            s.push_str(name);
            s.push('(');
            for (i, x) in args.iter().enumerate() {
                if i > 0 {
                    s.push_str(", ");
                }
                expr(x, s);
            }
            s.push(')');
            if *f == Func::Length {
                s.push_str(" AS BIGINT)");
            }
        }
        Expr::Agg(a) => agg_call(a.f, a.distinct, a.arg.as_ref(), a.filter.as_ref(), s),
        Expr::Win(w) => {
            let unsigned = matches!(w.f, WinFunc::RowNumber | WinFunc::Rank | WinFunc::DenseRank | WinFunc::Ntile);
            if unsigned {
                s.push_str("CAST(");
            }
            match w.f {
                WinFunc::Agg(f) => agg_call(f, false, w.args.first(), None, s),
                _ => {
                    s.push_str(match w.f {
                        WinFunc::RowNumber => "row_number",
                        WinFunc::Rank => "rank",
                        WinFunc::DenseRank => "dense_rank",
                        WinFunc::Ntile => "ntile",
                        WinFunc::Lag => "lag",
                        WinFunc::Lead => "lead",
                        WinFunc::FirstValue => "first_value",
                        WinFunc::LastValue => "last_value",
                        WinFunc::NthValue => "nth_value",
                        WinFunc::Agg(_) => unreachable!(),
                    });
                    s.push('(');
                    for (i, x) in w.args.iter().enumerate() {
                        if i > 0 {
                            s.push_str(", ");
                        }
                        // offsets / n must print as bare literals
                        match x {
                            Expr::Lit(Value::Int(n)) if i > 0 && *n >= 0 => s.push_str(&n.to_string()),
                            _ => expr(x, s),
                        }
                    }
                    s.push(')');
                }
            }
            s.push_str(" OVER (");
            let mut sp = false;
            if !w.partition_by.is_empty() {
                s.push_str("PARTITION BY ");
                for (i, x) in w.partition_by.iter().enumerate() {
                    if i > 0 {
                        s.push_str(", ");
                    }
                    expr(x, s);
                }
                sp = true;
            }
            if !w.order_by.is_empty() {
                if sp {
                    s.push(' ');
                }
                s.push_str("ORDER BY ");
                order_items(&w.order_by, s);
                sp = true;
            }
            if let Some(fr) = &w.frame {
                if sp {
                    s.push(' ');
                }
                s.push_str(match fr.units {
                    FrameUnits::Rows => "ROWS BETWEEN ",
                    FrameUnits::Range => "RANGE BETWEEN ",
                    FrameUnits::Groups => "GROUPS BETWEEN ",
                });
                frame_bound(&fr.start, s);
                s.push_str(" AND ");
                frame_bound(&fr.end, s);
            }
            s.push(')');
            if unsigned {
                s.push_str(" AS BIGINT)");
            }
        }
        Expr::Grouping(e) => {
            s.push_str("CAST(grouping(");
            expr(e, s);
            s.push_str(") AS BIGINT)");
        }
        Expr::Exists { q, negated } => {
            s.push('(');
            if *negated {
                s.push_str("NOT ");
            }
            s.push_str("EXISTS ");
            subq(q, s);
            s.push(')');
        }
        Expr::InSubquery { e, q, negated } => {
            s.push('(');
            expr(e, s);
            s.push_str(if *negated { " NOT IN " } else { " IN " });
            subq(q, s);
            s.push(')');
        }
        Expr::Scalar(q) => subq(q, s),
        Expr::Quantified { e, op, all, q } => {
            s.push('(');
            expr(e, s);
            s.push(' ');
            s.push_str(op.sql());
            s.push_str(if *all { " ALL " } else { " ANY " });
            subq(q, s);
            s.push(')');
        }
    }
}
