//! Window functions evaluated per row straight from the frame definition (no incremental state).
use super::ast::*;
use super::eval::{Ctx, agg_over_values, cmp_keys};
use super::expr::*;
use super::value::*;
use std::cmp::Ordering;

/// inclusive frame [s, e] as positions in the sorted partition, or None when empty
fn frame_of(
    w: &WinCall,
    i: usize,
    n: usize,
    keys: &[Vec<Value>],
    peer_first: &[usize],
    peer_last: &[usize],
    group_of: &[usize],
    group_bounds: &[(usize, usize)],
) -> R<Option<(usize, usize)>> {
    let default_frame;
    let fr = match &w.frame {
        Some(f) => f,
        None => {
            default_frame = Frame {
                units: FrameUnits::Range,
                start: FrameBound::UnboundedPreceding,
                end: if w.order_by.is_empty() { FrameBound::UnboundedFollowing } else { FrameBound::CurrentRow },
            };
            &default_frame
        }
    };
    let int_off = |v: &Value| -> R<i128> {
        match v {
            Value::Int(k) if *k >= 0 => Ok(*k as i128),
            o => Err(RefError::Type(format!("frame offset {o:?}"))),
        }
    };
    let (s, e): (i128, i128) = match fr.units {
        FrameUnits::Rows => {
            let s = match &fr.start {
                FrameBound::UnboundedPreceding => 0,
                FrameBound::Preceding(k) => i as i128 - int_off(k)?,
                FrameBound::CurrentRow => i as i128,
                FrameBound::Following(k) => i as i128 + int_off(k)?,
                FrameBound::UnboundedFollowing => return Err(RefError::Type("frame start UNBOUNDED FOLLOWING".into())),
            };
            let e = match &fr.end {
                FrameBound::UnboundedPreceding => return Err(RefError::Type("frame end UNBOUNDED PRECEDING".into())),
                FrameBound::Preceding(k) => i as i128 - int_off(k)?,
                FrameBound::CurrentRow => i as i128,
                FrameBound::Following(k) => i as i128 + int_off(k)?,
                FrameBound::UnboundedFollowing => n as i128 - 1,
            };
            (s, e)
        }
        FrameUnits::Groups => {
            let g = group_of[i] as i128;
            let ng = group_bounds.len() as i128;
            let sg = match &fr.start {
                FrameBound::UnboundedPreceding => 0,
                FrameBound::Preceding(k) => g - int_off(k)?,
                FrameBound::CurrentRow => g,
                FrameBound::Following(k) => g + int_off(k)?,
                FrameBound::UnboundedFollowing => return Err(RefError::Type("frame start UNBOUNDED FOLLOWING".into())),
            };
            let eg = match &fr.end {
                FrameBound::UnboundedPreceding => return Err(RefError::Type("frame end UNBOUNDED PRECEDING".into())),
                FrameBound::Preceding(k) => g - int_off(k)?,
                FrameBound::CurrentRow => g,
                FrameBound::Following(k) => g + int_off(k)?,
                FrameBound::UnboundedFollowing => ng - 1,
            };
            let sg = sg.max(0);
            let eg = eg.min(ng - 1);
            if sg > eg || sg >= ng || eg < 0 {
                return Ok(None);
            }
            (group_bounds[sg as usize].0 as i128, group_bounds[eg as usize].1 as i128)
        }
        FrameUnits::Range => {
            let needs_key = matches!(fr.start, FrameBound::Preceding(_) | FrameBound::Following(_)) || matches!(fr.end, FrameBound::Preceding(_) | FrameBound::Following(_));
            if needs_key && w.order_by.len() != 1 {
                return Err(RefError::Type("RANGE with offset needs exactly one ORDER BY key".into()));
            }
            let (desc, nulls_first) = w.order_by.first().map(|o| (o.desc, o.nulls_first_resolved())).unwrap_or((false, false));
            let cur = keys[i].first().cloned().unwrap_or(Value::Null);
            // shifted(k, towards_following): the key value at distance k in frame direction
            let shifted = |k: &Value, following: bool| -> R<Value> {
                // following in ASC order = larger values; in DESC order = smaller values
                let plus = following != desc;
                let mut inexact = false;
                let r = arith(if plus { BinOp::Add } else { BinOp::Sub }, &cur, k, &mut inexact)?;
                Ok(r)
            };
            // position of the first row that is not before `bound` (a value), in sort order
            let first_not_before = |bound: &Value| -> usize {
                for j in 0..n {
                    let kj = &keys[j][0];
                    if kj.is_null() {
                        if !nulls_first {
                            return j;
                        }
                        continue;
                    }
                    let c = sql_cmp(kj, bound).unwrap_or(Ordering::Equal);
                    let not_before = if desc { c != Ordering::Greater } else { c != Ordering::Less };
                    if not_before {
                        return j;
                    }
                }
                n
            };
            // position of the last row that is not after `bound`
            let last_not_after = |bound: &Value| -> i128 {
                for j in (0..n).rev() {
                    let kj = &keys[j][0];
                    if kj.is_null() {
                        if nulls_first {
                            return j as i128;
                        }
                        continue;
                    }
                    let c = sql_cmp(kj, bound).unwrap_or(Ordering::Equal);
                    let not_after = if desc { c != Ordering::Less } else { c != Ordering::Greater };
                    if not_after {
                        return j as i128;
                    }
                }
                -1
            };
            let s = match &fr.start {
                FrameBound::UnboundedPreceding => 0,
                FrameBound::CurrentRow => peer_first[i] as i128,
                FrameBound::Preceding(k) | FrameBound::Following(k) => {
                    if cur.is_null() {
                        peer_first[i] as i128
                    } else {
                        first_not_before(&shifted(k, matches!(fr.start, FrameBound::Following(_)))?) as i128
                    }
                }
                FrameBound::UnboundedFollowing => return Err(RefError::Type("frame start UNBOUNDED FOLLOWING".into())),
            };
            let e = match &fr.end {
                FrameBound::UnboundedFollowing => n as i128 - 1,
                FrameBound::CurrentRow => peer_last[i] as i128,
                FrameBound::Preceding(k) | FrameBound::Following(k) => {
                    if cur.is_null() {
                        peer_last[i] as i128
                    } else {
                        last_not_after(&shifted(k, matches!(fr.end, FrameBound::Following(_)))?)
                    }
                }
                FrameBound::UnboundedPreceding => return Err(RefError::Type("frame end UNBOUNDED PRECEDING".into())),
            };
            (s, e)
        }
    };
    let s = s.max(0);
    let e = e.min(n as i128 - 1);
    if s > e { Ok(None) } else { Ok(Some((s as usize, e as usize))) }
}

/// Values of one window call for `n` input rows. `ev(i, e)` evaluates an expression on input row `i`;
/// `ident[i]` identifies row `i` for the determinism analysis (rows with equal identity are interchangeable
/// unless `strict`: then any tie under an order-sensitive function is non-deterministic).
pub(crate) fn compute(ctx: &Ctx<'_>, w: &WinCall, n: usize, ev: &dyn Fn(usize, &Expr) -> R<Value>, ident: &[Vec<Value>], strict: bool) -> R<Vec<Value>> {
    let mut out = vec![Value::Null; n];
    // partition
    let mut parts: Vec<(Vec<Value>, Vec<usize>)> = vec![];
    for i in 0..n {
        let mut k = Vec::with_capacity(w.partition_by.len());
        for p in &w.partition_by {
            k.push(ev(i, p)?);
        }
        ctx.burn(parts.len() as u64 + 1)?;
        match parts.iter_mut().find(|(pk, _)| row_group_eq(pk, &k)) {
            Some((_, v)) => v.push(i),
            None => parts.push((k, vec![i])),
        }
    }
    let whole_partition_frame = match &w.frame {
        None => w.order_by.is_empty(),
        Some(f) => matches!(f.start, FrameBound::UnboundedPreceding) && matches!(f.end, FrameBound::UnboundedFollowing),
    };
    let order_sensitive = match w.f {
        WinFunc::RowNumber | WinFunc::Ntile | WinFunc::Lag | WinFunc::Lead => true,
        WinFunc::FirstValue | WinFunc::LastValue | WinFunc::NthValue => true,
        WinFunc::Rank | WinFunc::DenseRank => false,
        WinFunc::Agg(_) => !whole_partition_frame && matches!(w.frame.as_ref().map(|f| f.units), Some(FrameUnits::Rows)),
    };
    for (_, members) in parts {
        let m = members.len();
        // sort
        let mut keyed: Vec<(Vec<Value>, usize)> = vec![];
        for &i in &members {
            let mut k = Vec::with_capacity(w.order_by.len());
            for o in &w.order_by {
                k.push(ev(i, &o.expr)?);
            }
            keyed.push((k, i));
        }
        ctx.burn((m as u64) * (m as u64) + 1)?;
        keyed.sort_by(|a, b| cmp_keys(&a.0, &b.0, &w.order_by));
        let keys: Vec<Vec<Value>> = keyed.iter().map(|(k, _)| k.clone()).collect();
        let idx: Vec<usize> = keyed.iter().map(|(_, i)| *i).collect();
        // peer groups
        let mut group_of = vec![0usize; m];
        let mut group_bounds: Vec<(usize, usize)> = vec![];
        for j in 0..m {
            if j > 0 && cmp_keys(&keys[j - 1], &keys[j], &w.order_by) == Ordering::Equal {
                group_of[j] = group_of[j - 1];
                group_bounds.last_mut().unwrap().1 = j;
            } else {
                group_of[j] = group_bounds.len();
                group_bounds.push((j, j));
            }
        }
        let peer_first: Vec<usize> = (0..m).map(|j| group_bounds[group_of[j]].0).collect();
        let peer_last: Vec<usize> = (0..m).map(|j| group_bounds[group_of[j]].1).collect();
        if order_sensitive {
            for &(a, b) in &group_bounds {
                for j in a + 1..=b {
                    // with several window calls in one select even identical tied rows are distinguishable
                    // through the other calls' outputs (`strict`)
                    if strict || !row_group_eq(&ident[idx[j]], &ident[idx[a]]) {
                        return Err(RefError::Nondeterministic("order-sensitive window function over tied rows".into()));
                    }
                }
            }
        }
        // argument column
        let arg_col = |k: usize| -> R<Vec<Value>> {
            let mut v = Vec::with_capacity(m);
            for &i in &idx {
                v.push(ev(i, &w.args[k])?);
            }
            Ok(v)
        };
        let lit_int = |k: usize, default: i64| -> R<i64> {
            match w.args.get(k) {
                None => Ok(default),
                Some(Expr::Lit(Value::Int(i))) => Ok(*i),
                Some(o) => Err(RefError::Unsupported(format!("non-literal window argument {o:?}"))),
            }
        };
        match w.f {
            WinFunc::RowNumber => {
                for j in 0..m {
                    out[idx[j]] = Value::Int(j as i64 + 1);
                }
            }
            WinFunc::Rank => {
                for j in 0..m {
                    out[idx[j]] = Value::Int(peer_first[j] as i64 + 1);
                }
            }
            WinFunc::DenseRank => {
                for j in 0..m {
                    out[idx[j]] = Value::Int(group_of[j] as i64 + 1);
                }
            }
            WinFunc::Ntile => {
                let k = lit_int(0, 1)?;
                if k <= 0 {
                    return Err(RefError::Unsupported("ntile(<=0)".into()));
                }
                let k = k as usize;
                let (base, extra) = (m / k, m % k);
                let mut j = 0;
                let mut bucket = 1usize;
                while j < m {
                    let size = base + if bucket <= extra { 1 } else { 0 };
                    for _ in 0..size {
                        out[idx[j]] = Value::Int(bucket as i64);
                        j += 1;
                    }
                    bucket += 1;
                }
            }
            WinFunc::Lag | WinFunc::Lead => {
                let vals = arg_col(0)?;
                let off = lit_int(1, 1)?;
                for j in 0..m {
                    let t = if w.f == WinFunc::Lag { j as i64 - off } else { j as i64 + off };
                    out[idx[j]] = if t >= 0 && (t as usize) < m {
                        vals[t as usize].clone()
                    } else {
                        match w.args.get(2) {
                            None => Value::Null,
                            Some(d) => ev(idx[j], d)?,
                        }
                    };
                }
            }
            WinFunc::FirstValue | WinFunc::LastValue | WinFunc::NthValue | WinFunc::Agg(_) => {
                let vals = if w.args.is_empty() { vec![] } else { arg_col(0)? };
                let nth = if w.f == WinFunc::NthValue { lit_int(1, 1)? } else { 1 };
                if w.f == WinFunc::NthValue && nth <= 0 {
                    return Err(RefError::Unsupported("nth_value(n <= 0)".into()));
                }
                for j in 0..m {
                    ctx.burn(m as u64)?;
                    let fr = frame_of(w, j, m, &keys, &peer_first, &peer_last, &group_of, &group_bounds)?;
                    out[idx[j]] = match w.f {
                        WinFunc::FirstValue => fr.map(|(s, _)| vals[s].clone()).unwrap_or(Value::Null),
                        WinFunc::LastValue => fr.map(|(_, e)| vals[e].clone()).unwrap_or(Value::Null),
                        WinFunc::NthValue => match fr {
                            Some((s, e)) if s + (nth as usize) - 1 <= e => vals[s + nth as usize - 1].clone(),
                            _ => Value::Null,
                        },
                        WinFunc::Agg(f) => {
                            let (star, fv) = match fr {
                                None => (0, vec![]),
                                Some((s, e)) => ((e - s + 1) as i64, if vals.is_empty() { vec![] } else { vals[s..=e].to_vec() }),
                            };
                            agg_over_values(f, false, w.args.is_empty(), star, fv, &ctx.flags)?
                        }
                        _ => unreachable!(),
                    };
                }
            }
        }
    }
    Ok(out)
}
