//! Static analyses over the AST: deep visitors, `may_fail_static`, conservative `deterministic`.
use super::ast::*;
use super::value::Value;

/// Visit every expression node of the query, including those of nested queries (pre-order).
pub fn visit_exprs<'a>(q: &'a Query, f: &mut dyn FnMut(&'a Expr)) {
    visit_queries(q, &mut |qq| {
        shallow_query_exprs(qq, &mut |e| visit_expr_nodes(e, f));
    });
}

/// the expressions directly owned by this query level (not those of nested queries)
fn shallow_query_exprs<'a>(q: &'a Query, f: &mut dyn FnMut(&'a Expr)) {
    fn set<'a>(e: &'a SetExpr, f: &mut dyn FnMut(&'a Expr)) {
        match e {
            SetExpr::Select(s) => {
                for it in &s.items {
                    f(&it.expr)
                }
                if let Some(t) = &s.from {
                    tref(t, f)
                }
                if let Some(w) = &s.where_ {
                    f(w)
                }
                match &s.group_by {
                    GroupBy::None => {}
                    GroupBy::Plain(es) | GroupBy::Rollup(es) | GroupBy::Cube(es) => {
                        for e in es {
                            f(e)
                        }
                    }
                    GroupBy::Sets(ss) => {
                        for s in ss {
                            for e in s {
                                f(e)
                            }
                        }
                    }
                }
                if let Some(h) = &s.having {
                    f(h)
                }
                if let Some(h) = &s.qualify {
                    f(h)
                }
            }
            SetExpr::SetOp { left, right, .. } => {
                set(left, f);
                set(right, f)
            }
            SetExpr::Query(_) => {}
        }
    }
    fn tref<'a>(t: &'a TableRef, f: &mut dyn FnMut(&'a Expr)) {
        match t {
            TableRef::Join { left, right, on, .. } => {
                tref(left, f);
                tref(right, f);
                if let Some(o) = on {
                    f(o)
                }
            }
            TableRef::Values { rows, .. } => {
                for r in rows {
                    for e in r {
                        f(e)
                    }
                }
            }
            _ => {}
        }
    }
    set(&q.body, f);
    for o in &q.order_by {
        f(&o.expr)
    }
}

/// every node of one expression tree, not entering subqueries
fn visit_expr_nodes<'a>(e: &'a Expr, f: &mut dyn FnMut(&'a Expr)) {
    super::eval::walk_expr_shallow(e, f)
}

/// Visit this query and every nested query (CTEs, derived tables, set-operation operands, subqueries in expressions).
pub fn visit_queries<'a>(q: &'a Query, f: &mut dyn FnMut(&'a Query)) {
    f(q);
    for c in &q.with {
        visit_queries(&c.q, f);
    }
    fn set<'a>(e: &'a SetExpr, f: &mut dyn FnMut(&'a Query)) {
        match e {
            SetExpr::Select(s) => {
                if let Some(t) = &s.from {
                    tref(t, f)
                }
            }
            SetExpr::SetOp { left, right, .. } => {
                set(left, f);
                set(right, f)
            }
            SetExpr::Query(q) => visit_queries(q, f),
        }
    }
    fn tref<'a>(t: &'a TableRef, f: &mut dyn FnMut(&'a Query)) {
        match t {
            TableRef::Join { left, right, .. } => {
                tref(left, f);
                tref(right, f)
            }
            TableRef::Derived { q, .. } => visit_queries(q, f),
            _ => {}
        }
    }
    set(&q.body, f);
    // subqueries inside expressions of this level
    shallow_query_exprs(q, &mut |e| {
        visit_expr_nodes(e, &mut |x| match x {
            Expr::Exists { q, .. } | Expr::InSubquery { q, .. } | Expr::Quantified { q, .. } => visit_queries(q, f),
            Expr::Scalar(q) => visit_queries(q, f),
            _ => {}
        })
    });
}

fn divisor_is_safe(d: &Expr) -> bool {
    match d {
        Expr::Lit(Value::Int(i)) => *i != 0 && *i != -1,
        Expr::Lit(Value::Float(f)) => *f != 0.0,
        // NULLIF(x, 0): NULL instead of zero
        Expr::NullIf(_, z) => matches!(**z, Expr::Lit(Value::Int(0))),
        _ => false,
    }
}

/// Does the query contain an operation that can raise a division-by-zero error on some data? (`/` or `%`
/// with a divisor that is neither a non-zero literal nor `NULLIF(_, 0)`. Casts and scalar subqueries are
/// not counted — the generator only emits total casts over a bounded domain and single-row subqueries.)
pub fn may_fail_static(q: &Query) -> bool {
    let mut found = false;
    visit_exprs(q, &mut |e| match e {
        Expr::Bin(BinOp::Div | BinOp::Mod, _, d) => {
            if !divisor_is_safe(d) {
                found = true
            }
        }
        _ => {}
    });
    found
}

fn output_names(e: &SetExpr) -> Vec<String> {
    match e {
        SetExpr::Select(s) => s.items.iter().map(|i| i.alias.clone()).collect(),
        SetExpr::SetOp { left, .. } => output_names(left),
        SetExpr::Query(q) => output_names(&q.body),
    }
}

/// Conservative static determinism: every query level with LIMIT/OFFSET orders by *all* of its output
/// columns (ties are then identical rows), and window calls are order-insensitive or carry an ORDER BY
/// (the generator makes those total; the dynamic check `deterministic_on` is the precise one).
pub fn deterministic(q: &Query) -> bool {
    let mut ok = true;
    visit_queries(q, &mut |qq| {
        if qq.limit.is_some() || qq.offset.is_some() {
            let names = output_names(&qq.body);
            let ordered: Vec<&str> = qq
                .order_by
                .iter()
                .filter_map(|o| match &o.expr {
                    Expr::Col { rel: None, name } => Some(name.as_str()),
                    _ => None,
                })
                .collect();
            if !names.iter().all(|n| ordered.contains(&n.as_str())) && qq.limit != Some(0) {
                ok = false;
            }
        }
    });
    visit_exprs(q, &mut |e| {
        if let Expr::Win(w) = e {
            let sensitive = !matches!(w.f, WinFunc::Rank | WinFunc::DenseRank)
                && !(matches!(w.f, WinFunc::Agg(_)) && !matches!(w.frame.as_ref().map(|f| f.units), Some(FrameUnits::Rows)));
            if sensitive && w.order_by.is_empty() {
                ok = false;
            }
        }
    });
    ok
}
