//! `refsql` — an independent reference implementation of a SQL fragment (oracle of C01, reused widely).
//!
//! # Public API (everything is re-exported from `vf_kit::refsql`)
//!
//! **Data** (`value`, `ast`; all `Serialize + Deserialize + Clone + Debug + PartialEq`)
//! * [`Value`] = `Null | Bool | Int(i64) | Float(f64) | Str`; [`Ty`] = `Int | Float | Str | Bool`
//!   (`Ty::sql()` = `BIGINT/DOUBLE/VARCHAR/BOOLEAN`). Ordering helpers: `sql_cmp`, `order_cmp`,
//!   `group_eq` (NULL = NULL), `canon_cmp` / `canon_row_cmp` (total order for canonical sorting).
//! * [`Table`]`{name, cols: Vec<ColDef{name, ty}>, rows: Vec<Vec<Value>>}`, [`Db`]`{tables}`.
//! * AST: [`Query`]`{with, body: SetExpr, order_by, limit, offset}`, [`SetExpr`], [`Select`]`{distinct,
//!   items, from, where_, group_by, having, qualify}`, [`TableRef`] (`Table | Join | Derived | Series |
//!   Values`), [`Expr`], [`AggCall`], [`WinCall`]/[`Frame`]/[`FrameBound`], [`OrderItem`], [`Cte`].
//!   Naming convention: see the header of `ast.rs` (unique relation aliases, qualified column
//!   references, unique select-item aliases, top-level ORDER BY over output aliases).
//!
//! **Printer** (`print`): [`to_sql`]`(&Query) -> String`, [`expr_to_sql`]`(&Expr) -> String` (DataFusion dialect).
//!
//! **Evaluator** (`eval`, `expr`, `window`)
//! * [`eval`]`(&Query, &Db) -> Result<RefResult, RefError>`; [`eval_with`] takes [`EvalOptions`]
//!   (fuel, recursion cap, row cap). [`RefResult`]`{cols, rows, order_by, inexact, topk}`.
//! * [`RefError`]: `DivZero | Overflow | CastError | FloatDomain | Nondeterministic | TooBig |
//!   ScalarCardinality | Type | Unsupported` — see [`classify`] for what each means for an oracle.
//! * [`deterministic_on`]`(&Query, &Db) -> bool` (dynamic: no LIMIT over ties, no order-sensitive
//!   window over distinguishable tied rows; evaluation succeeded), [`deterministic`]`(&Query) -> bool`
//!   (static, conservative: every LIMIT/OFFSET sits under an ORDER BY that lists every output column;
//!   order-sensitive windows carry an ORDER BY — what `gen` emits with `GenConfig::topk_ties = false`).
//!   With more than one window call in a select, *any* tie under an order-sensitive call is reported as
//!   non-deterministic (identical tied rows are distinguishable through the other call's output).
//! * Row-level expressions for other oracles: `expr::`[`eval_expr`]`(&Expr, &impl ExprCtx)`,
//!   [`RowCtx`]`::new(&cols, &row)`, and the scalar kernels `arith`, `compare`, `and3/or3/not3`, `in3`,
//!   `quantified3`, `like_match`, `cast`.
//! * [`may_fail_static`]`(&Query) -> bool`: the query contains an operation that can raise a run-time
//!   error on *some* data (unguarded integer division/remainder, float→int cast, …).
//!
//! **Comparison** (`cmp`): [`check_result`]`(&RefResult, &got_rows)` (multiset + sortedness + tie-aware
//! top-k), `multiset_diff`, `sequence_diff`, `sortedness_violation`, `value_matches`, `fmt_rows`.
//!
//! **Generator** (`gen`): [`GenConfig`]`::standard(n_tables, max_rows, depth)` (feature switches, depth, schema),
//! [`query_strategy`]`(cfg)`, [`tables_strategy`]`(cfg)`, [`case_strategy`]`(cfg) -> BoxedStrategy<SqlCase>`,
//! [`build_query`]`(cfg, tape: Vec<u8>)`; [`SqlCase`]`{tables: Vec<Table>, query: Query}`;
//! [`features`]`(&Query) -> Vec<String>` (label set), [`is_correlated`], [`has_outer_refs`].
//! The query is built from a variable-length `Vec<u8>` choice tape (simplest alternative at 0, exhausted tape =
//! simplest choice), so proptest shrinking (delete / zero cells) yields small queries.
//!
//! # Semantics implemented (pinned against the engine with CLI probes; see DESIGN.md Appendix A)
//! three-valued logic; `ORDER BY` ASC = NULLS LAST, DESC = NULLS FIRST; byte-wise string order;
//! `false < true`; Int64 `/` truncates, `%` takes the dividend's sign; `||` is NULL-propagating,
//! `concat` skips NULLs; empty-input aggregates: `count = 0`, others NULL; `sum(int)` Int, `avg` Float;
//! bag semantics of `UNION/INTERSECT/EXCEPT [ALL]`; recursive CTEs by fixpoint; window frames
//! ROWS/RANGE/GROUPS evaluated per row. AND/OR evaluate both operands; CASE/COALESCE are lazy.
//!
//! # Deviations from DESIGN.md §3.2/B.4
//! * `Value::Int` is `i64` (arithmetic in i128 with range checks) — no Date/Decimal/Bytes.
//! * determinism is primarily *dynamic*: the evaluator detects a cut through distinguishable tied rows
//!   (`RefError::Nondeterministic`, or `RefResult::topk` at the top level) instead of proving totality.
//! * ordered results are checked as "multiset equal + sorted by the ORDER BY keys", which is exactly
//!   what ORDER BY promises (sequence equality would over-constrain ties on equal keys).
pub mod ast;
pub mod cmp;
pub mod eval;
pub mod expr;
pub mod r#gen;
pub mod print;
pub mod value;
mod window;

#[cfg(test)]
mod tests;

pub use ast::*;
pub use cmp::{Mismatch, check_result, fmt_row, fmt_rows, multiset_diff, sequence_diff, sortedness_violation, value_matches};
pub use eval::{EvalOptions, RefResult, TopK, deterministic_on, eval, eval_with};
pub use expr::{ExprCtx, Flags, RefError, RowCtx, eval_expr};
pub use r#gen::{GenConfig, SqlCase, TableSchema, build_query, case_strategy, features, has_outer_refs, is_correlated, query_strategy, tables_strategy};
pub use print::{expr_to_sql, to_sql};
pub use value::*;

/// How an oracle should treat a reference error.
#[derive(Clone, Copy, Debug, PartialEq, Eq)]
pub enum RefErrorClass {
    /// the engine must fail as well if it evaluates the same operation (division by zero, scalar
    /// subquery cardinality); it may also succeed when it can avoid the evaluation
    EngineMayFail,
    /// nothing is required of the engine (overflow wraps, float domain left, result not a function of the input, too big)
    NoRequirement,
    /// harness problem: ill-typed tree or construct outside the evaluator
    HarnessBug,
}

pub fn classify(e: &RefError) -> RefErrorClass {
    match e {
        RefError::DivZero | RefError::ScalarCardinality | RefError::CastError => RefErrorClass::EngineMayFail,
        RefError::Overflow | RefError::FloatDomain(_) | RefError::Nondeterministic(_) | RefError::TooBig(_) => RefErrorClass::NoRequirement,
        RefError::Type(_) | RefError::Unsupported(_) => RefErrorClass::HarnessBug,
    }
}

mod analysis;
pub use analysis::{deterministic, may_fail_static, visit_exprs, visit_queries};
