//! Logical values of the reference evaluator and their SQL comparison / ordering rules.
use serde::{Deserialize, Serialize};
use std::cmp::Ordering;

/// The four scalar types of the reference fragment (BIGINT, DOUBLE, VARCHAR, BOOLEAN).
#[derive(Clone, Copy, Debug, PartialEq, Eq, Hash, PartialOrd, Ord, Serialize, Deserialize)]
pub enum Ty {
    Int,
    Float,
    Str,
    Bool,
}

impl Ty {
    pub const ALL: [Ty; 4] = [Ty::Int, Ty::Float, Ty::Str, Ty::Bool];
    /// SQL type name understood by DataFusion
    pub fn sql(self) -> &'static str {
        match self {
            Ty::Int => "BIGINT",
            Ty::Float => "DOUBLE",
            Ty::Str => "VARCHAR",
            Ty::Bool => "BOOLEAN",
        }
    }
    pub fn is_numeric(self) -> bool {
        matches!(self, Ty::Int | Ty::Float)
    }
}

mod f64_serde {
    //! finite floats as JSON numbers, non-finite ones as strings (JSON has no NaN/inf)
    use serde::{Deserialize, Deserializer, Serializer};
    pub fn serialize<S: Serializer>(v: &f64, s: S) -> Result<S::Ok, S::Error> {
        if v.is_finite() {
            s.serialize_f64(*v)
        } else if v.is_nan() {
            s.serialize_str("NaN")
        } else if *v > 0.0 {
            s.serialize_str("inf")
        } else {
            s.serialize_str("-inf")
        }
    }
    #[derive(Deserialize)]
    #[serde(untagged)]
    enum NumOrStr {
        N(f64),
        S(String),
    }
    pub fn deserialize<'de, D: Deserializer<'de>>(d: D) -> Result<f64, D::Error> {
        Ok(match NumOrStr::deserialize(d)? {
            NumOrStr::N(n) => n,
            NumOrStr::S(s) => match s.as_str() {
                "inf" => f64::INFINITY,
                "-inf" => f64::NEG_INFINITY,
                _ => f64::NAN,
            },
        })
    }
}

/// A logical SQL value. `Int` covers every integer width of the engine (range of Int64; the
/// evaluator computes in i128 and range-checks), `Str` every string encoding.
#[derive(Clone, Debug, PartialEq, Serialize, Deserialize)]
pub enum Value {
    Null,
    Bool(bool),
    Int(i64),
    Float(#[serde(with = "f64_serde")] f64),
    Str(String),
}

impl Value {
    pub fn is_null(&self) -> bool {
        matches!(self, Value::Null)
    }
    pub fn ty(&self) -> Option<Ty> {
        match self {
            Value::Null => None,
            Value::Bool(_) => Some(Ty::Bool),
            Value::Int(_) => Some(Ty::Int),
            Value::Float(_) => Some(Ty::Float),
            Value::Str(_) => Some(Ty::Str),
        }
    }
    pub fn as_bool(&self) -> Option<bool> {
        match self {
            Value::Bool(b) => Some(*b),
            _ => None,
        }
    }
    /// SQL truth: only TRUE passes a filter
    pub fn is_true(&self) -> bool {
        matches!(self, Value::Bool(true))
    }
    fn rank(&self) -> u8 {
        match self {
            Value::Null => 0,
            Value::Bool(_) => 1,
            Value::Int(_) => 2,
            Value::Float(_) => 3,
            Value::Str(_) => 4,
        }
    }
    /// SQL literal text (DataFusion dialect). NULL prints bare.
    pub fn to_sql_literal(&self) -> String {
        match self {
            Value::Null => "NULL".into(),
            Value::Bool(b) => if *b { "true".into() } else { "false".into() },
            Value::Int(i) => {
                if *i == i64::MIN {
                    "(-9223372036854775807 - 1)".into()
                } else if *i < 0 {
                    format!("({i})")
                } else {
                    format!("{i}")
                }
            }
            Value::Float(f) => {
                if f.is_nan() {
                    "CAST('NaN' AS DOUBLE)".into()
                } else if f.is_infinite() {
                    if *f > 0.0 { "CAST('inf' AS DOUBLE)".into() } else { "CAST('-inf' AS DOUBLE)".into() }
                } else {
                    // `{:?}` always keeps a '.' or an exponent, so the engine reads a Float64
                    let t = format!("{f:?}");
                    let t = if t.contains('e') && !t.contains('.') {
                        // 1e16 -> 1.0e16
                        let (m, e) = t.split_once('e').unwrap();
                        format!("{m}.0e{e}")
                    } else {
                        t
                    };
                    if *f < 0.0 || (*f == 0.0 && f.is_sign_negative()) { format!("({t})") } else { t }
                }
            }
            Value::Str(s) => format!("'{}'", s.replace('\'', "''")),
        }
    }
}

/// SQL comparison of two non-NULL values of the same type; `None` if either is NULL.
/// Int/Float mixes compare numerically (used only by callers that coerce explicitly).
pub fn sql_cmp(a: &Value, b: &Value) -> Option<Ordering> {
    match (a, b) {
        (Value::Null, _) | (_, Value::Null) => None,
        _ => Some(total_cmp_nonnull(a, b)),
    }
}

fn total_cmp_nonnull(a: &Value, b: &Value) -> Ordering {
    match (a, b) {
        (Value::Bool(x), Value::Bool(y)) => x.cmp(y),
        (Value::Int(x), Value::Int(y)) => x.cmp(y),
        (Value::Float(x), Value::Float(y)) => float_cmp(*x, *y),
        (Value::Int(x), Value::Float(y)) => float_cmp(*x as f64, *y),
        (Value::Float(x), Value::Int(y)) => float_cmp(*x, *y as f64),
        (Value::Str(x), Value::Str(y)) => x.as_bytes().cmp(y.as_bytes()),
        _ => a.rank().cmp(&b.rank()),
    }
}

/// numeric order with -0.0 == 0.0 and NaN greatest (NaN == NaN), as the engine sorts
fn float_cmp(x: f64, y: f64) -> Ordering {
    match (x.is_nan(), y.is_nan()) {
        (true, true) => Ordering::Equal,
        (true, false) => Ordering::Greater,
        (false, true) => Ordering::Less,
        _ => x.partial_cmp(&y).unwrap(),
    }
}

/// Grouping / DISTINCT / set-operation equality: NULL equals NULL.
pub fn group_eq(a: &Value, b: &Value) -> bool {
    match (a, b) {
        (Value::Null, Value::Null) => true,
        (Value::Null, _) | (_, Value::Null) => false,
        _ => a.rank() == b.rank() && total_cmp_nonnull(a, b) == Ordering::Equal,
    }
}

pub fn row_group_eq(a: &[Value], b: &[Value]) -> bool {
    a.len() == b.len() && a.iter().zip(b).all(|(x, y)| group_eq(x, y))
}

/// A total order over all values (NULL first, then by type, then by value) used for canonical
/// sorting of result multisets. Not an SQL order.
pub fn canon_cmp(a: &Value, b: &Value) -> Ordering {
    match (a, b) {
        (Value::Null, Value::Null) => Ordering::Equal,
        (Value::Null, _) => Ordering::Less,
        (_, Value::Null) => Ordering::Greater,
        _ => a.rank().cmp(&b.rank()).then_with(|| total_cmp_nonnull(a, b)),
    }
}

pub fn canon_row_cmp(a: &[Value], b: &[Value]) -> Ordering {
    for (x, y) in a.iter().zip(b) {
        let c = canon_cmp(x, y);
        if c != Ordering::Equal {
            return c;
        }
    }
    a.len().cmp(&b.len())
}

/// ORDER BY comparison of one key: `desc`, `nulls_first` resolved (default: ASC → NULLS LAST,
/// DESC → NULLS FIRST).
pub fn order_cmp(a: &Value, b: &Value, desc: bool, nulls_first: bool) -> Ordering {
    match (a.is_null(), b.is_null()) {
        (true, true) => Ordering::Equal,
        (true, false) => if nulls_first { Ordering::Less } else { Ordering::Greater },
        (false, true) => if nulls_first { Ordering::Greater } else { Ordering::Less },
        _ => {
            let c = total_cmp_nonnull(a, b);
            if desc { c.reverse() } else { c }
        }
    }
}
