//! Typed AST of the reference SQL fragment. Plain serde data: a JSON case file is an AST + tables.
//!
//! Name resolution convention (what the generator emits and the evaluator implements):
//! * every relation in a FROM clause carries an alias that is unique in the whole statement, and every
//!   column reference to a FROM relation is qualified (`Col{rel: Some(alias), name}`);
//! * every select item carries an alias that is unique in the whole statement; the query-level
//!   `ORDER BY` refers to output columns by that alias, unqualified (`Col{rel: None, name}`);
//! * an unqualified name is looked up among the output columns first (ORDER BY scope), then in FROM scopes.
use super::value::{Ty, Value};
use serde::{Deserialize, Serialize};

#[derive(Clone, Copy, Debug, PartialEq, Eq, Serialize, Deserialize)]
pub enum BinOp {
    Add,
    Sub,
    Mul,
    Div,
    Mod,
    Eq,
    Ne,
    Lt,
    Le,
    Gt,
    Ge,
    And,
    Or,
    Concat,
}

impl BinOp {
    pub fn sql(self) -> &'static str {
        match self {
            BinOp::Add => "+",
            BinOp::Sub => "-",
            BinOp::Mul => "*",
            BinOp::Div => "/",
            BinOp::Mod => "%",
            BinOp::Eq => "=",
            BinOp::Ne => "<>",
            BinOp::Lt => "<",
            BinOp::Le => "<=",
            BinOp::Gt => ">",
            BinOp::Ge => ">=",
            BinOp::And => "AND",
            BinOp::Or => "OR",
            BinOp::Concat => "||",
        }
    }
    pub fn is_cmp(self) -> bool {
        matches!(self, BinOp::Eq | BinOp::Ne | BinOp::Lt | BinOp::Le | BinOp::Gt | BinOp::Ge)
    }
    pub const CMPS: [BinOp; 6] = [BinOp::Eq, BinOp::Ne, BinOp::Lt, BinOp::Le, BinOp::Gt, BinOp::Ge];
}

/// `e IS <test>`
#[derive(Clone, Copy, Debug, PartialEq, Eq, Serialize, Deserialize)]
pub enum BoolTest {
    IsTrue,
    IsNotTrue,
    IsFalse,
    IsNotFalse,
    IsUnknown,
    IsNotUnknown,
}

#[derive(Clone, Copy, Debug, PartialEq, Eq, Serialize, Deserialize)]
pub enum Func {
    /// abs(int|float)
    Abs,
    /// upper(str)
    Upper,
    /// lower(str)
    Lower,
    /// character_length(str), printed with a cast to BIGINT
    Length,
    /// concat(str, ...) — skips NULLs
    ConcatFn,
    /// greatest / least (NULLs skipped; NULL only when all NULL)
    Greatest,
    Least,
}

#[derive(Clone, Copy, Debug, PartialEq, Eq, Serialize, Deserialize)]
pub enum AggFunc {
    /// `count(*)` when the argument is absent
    Count,
    Sum,
    Avg,
    Min,
    Max,
    BoolAnd,
    BoolOr,
}

impl AggFunc {
    pub fn sql(self) -> &'static str {
        match self {
            AggFunc::Count => "count",
            AggFunc::Sum => "sum",
            AggFunc::Avg => "avg",
            AggFunc::Min => "min",
            AggFunc::Max => "max",
            AggFunc::BoolAnd => "bool_and",
            AggFunc::BoolOr => "bool_or",
        }
    }
}

#[derive(Clone, Debug, PartialEq, Serialize, Deserialize)]
pub struct AggCall {
    pub f: AggFunc,
    pub distinct: bool,
    /// None = `count(*)`
    pub arg: Option<Expr>,
    pub filter: Option<Expr>,
}

#[derive(Clone, Copy, Debug, PartialEq, Eq, Serialize, Deserialize)]
pub enum WinFunc {
    RowNumber,
    Rank,
    DenseRank,
    /// ntile(args[0]) — literal
    Ntile,
    /// lag(x [, offset literal [, default]])
    Lag,
    Lead,
    FirstValue,
    LastValue,
    /// nth_value(x, n literal)
    NthValue,
    /// an aggregate evaluated over the frame
    Agg(AggFunc),
}

#[derive(Clone, Copy, Debug, PartialEq, Eq, Serialize, Deserialize)]
pub enum FrameUnits {
    Rows,
    Range,
    Groups,
}

#[derive(Clone, Debug, PartialEq, Serialize, Deserialize)]
pub enum FrameBound {
    UnboundedPreceding,
    /// offset literal: Int for ROWS/GROUPS, Int or Float (type of the key) for RANGE
    Preceding(Value),
    CurrentRow,
    Following(Value),
    UnboundedFollowing,
}

#[derive(Clone, Debug, PartialEq, Serialize, Deserialize)]
pub struct Frame {
    pub units: FrameUnits,
    pub start: FrameBound,
    pub end: FrameBound,
}

#[derive(Clone, Debug, PartialEq, Serialize, Deserialize)]
pub struct WinCall {
    pub f: WinFunc,
    pub args: Vec<Expr>,
    pub partition_by: Vec<Expr>,
    pub order_by: Vec<OrderItem>,
    /// None = the SQL default frame
    pub frame: Option<Frame>,
}

#[derive(Clone, Debug, PartialEq, Serialize, Deserialize)]
pub struct OrderItem {
    pub expr: Expr,
    pub desc: bool,
    /// None = engine default (ASC → NULLS LAST, DESC → NULLS FIRST)
    pub nulls_first: Option<bool>,
}

impl OrderItem {
    pub fn nulls_first_resolved(&self) -> bool {
        self.nulls_first.unwrap_or(self.desc)
    }
}

#[derive(Clone, Debug, PartialEq, Serialize, Deserialize)]
pub enum Expr {
    Col { rel: Option<String>, name: String },
    /// a non-NULL literal
    Lit(Value),
    /// typed NULL, printed `CAST(NULL AS ty)`
    Null(Ty),
    Bin(BinOp, Box<Expr>, Box<Expr>),
    Not(Box<Expr>),
    Neg(Box<Expr>),
    IsNull { e: Box<Expr>, negated: bool },
    /// `negated` = IS NOT DISTINCT FROM
    IsDistinctFrom { l: Box<Expr>, r: Box<Expr>, negated: bool },
    BoolTest { e: Box<Expr>, test: BoolTest },
    Between { e: Box<Expr>, lo: Box<Expr>, hi: Box<Expr>, negated: bool },
    InList { e: Box<Expr>, list: Vec<Expr>, negated: bool },
    Like { e: Box<Expr>, pat: Box<Expr>, negated: bool, ilike: bool },
    Case { operand: Option<Box<Expr>>, whens: Vec<(Expr, Expr)>, else_: Option<Box<Expr>> },
    Coalesce(Vec<Expr>),
    NullIf(Box<Expr>, Box<Expr>),
    Cast(Box<Expr>, Ty),
    Func(Func, Vec<Expr>),
    Agg(Box<AggCall>),
    Win(Box<WinCall>),
    /// `grouping(e)` for GROUPING SETS / ROLLUP / CUBE
    Grouping(Box<Expr>),
    Exists { q: Box<Query>, negated: bool },
    InSubquery { e: Box<Expr>, q: Box<Query>, negated: bool },
    Scalar(Box<Query>),
    /// `e op ANY|ALL (q)`
    Quantified { e: Box<Expr>, op: BinOp, all: bool, q: Box<Query> },
}

impl Expr {
    pub fn col(rel: &str, name: &str) -> Expr {
        Expr::Col { rel: Some(rel.to_string()), name: name.to_string() }
    }
    pub fn out(name: &str) -> Expr {
        Expr::Col { rel: None, name: name.to_string() }
    }
    pub fn int(i: i64) -> Expr {
        Expr::Lit(Value::Int(i))
    }
    pub fn float(f: f64) -> Expr {
        Expr::Lit(Value::Float(f))
    }
    pub fn str(s: &str) -> Expr {
        Expr::Lit(Value::Str(s.to_string()))
    }
    pub fn bool(b: bool) -> Expr {
        Expr::Lit(Value::Bool(b))
    }
    pub fn bin(op: BinOp, l: Expr, r: Expr) -> Expr {
        Expr::Bin(op, Box::new(l), Box::new(r))
    }
    pub fn and(l: Expr, r: Expr) -> Expr {
        Expr::bin(BinOp::And, l, r)
    }
    pub fn eq(l: Expr, r: Expr) -> Expr {
        Expr::bin(BinOp::Eq, l, r)
    }
}

#[derive(Clone, Copy, Debug, PartialEq, Eq, Serialize, Deserialize)]
pub enum JoinKind {
    Inner,
    Left,
    Right,
    Full,
    Cross,
    LeftSemi,
    LeftAnti,
    RightSemi,
    RightAnti,
}

impl JoinKind {
    pub fn sql(self) -> &'static str {
        match self {
            JoinKind::Inner => "INNER JOIN",
            JoinKind::Left => "LEFT JOIN",
            JoinKind::Right => "RIGHT JOIN",
            JoinKind::Full => "FULL JOIN",
            JoinKind::Cross => "CROSS JOIN",
            JoinKind::LeftSemi => "LEFT SEMI JOIN",
            JoinKind::LeftAnti => "LEFT ANTI JOIN",
            JoinKind::RightSemi => "RIGHT SEMI JOIN",
            JoinKind::RightAnti => "RIGHT ANTI JOIN",
        }
    }
}

#[derive(Clone, Debug, PartialEq, Serialize, Deserialize)]
pub enum TableRef {
    /// base table or CTE `name AS alias` (CTEs shadow base tables)
    Table { name: String, alias: String },
    /// `on` is None exactly for `Cross`
    Join { kind: JoinKind, left: Box<TableRef>, right: Box<TableRef>, on: Option<Expr> },
    /// `(query) AS alias`; `lateral` prints `LATERAL (query)`
    Derived { q: Box<Query>, alias: String },
    /// `generate_series(start, stop, step) AS alias` (column `value`) — inclusive; `range` = exclusive end
    Series { start: i64, stop: i64, step: i64, exclusive: bool, alias: String },
    /// `(VALUES (..), (..)) AS alias(cols)`; all rows same arity and column types
    Values { rows: Vec<Vec<Expr>>, alias: String, cols: Vec<String> },
}

#[derive(Clone, Debug, PartialEq, Serialize, Deserialize)]
pub enum GroupBy {
    /// no GROUP BY clause (aggregates in the select list make one global group)
    None,
    Plain(Vec<Expr>),
    Sets(Vec<Vec<Expr>>),
    Rollup(Vec<Expr>),
    Cube(Vec<Expr>),
}

#[derive(Clone, Debug, PartialEq, Serialize, Deserialize)]
pub struct SelectItem {
    pub expr: Expr,
    pub alias: String,
}

#[derive(Clone, Debug, PartialEq, Serialize, Deserialize)]
pub struct Select {
    pub distinct: bool,
    pub items: Vec<SelectItem>,
    pub from: Option<TableRef>,
    pub where_: Option<Expr>,
    pub group_by: GroupBy,
    pub having: Option<Expr>,
    pub qualify: Option<Expr>,
}

#[derive(Clone, Copy, Debug, PartialEq, Eq, Serialize, Deserialize)]
pub enum SetOp {
    Union,
    Intersect,
    Except,
}

#[derive(Clone, Debug, PartialEq, Serialize, Deserialize)]
pub enum SetExpr {
    Select(Box<Select>),
    SetOp { op: SetOp, all: bool, left: Box<SetExpr>, right: Box<SetExpr> },
    /// parenthesised query with its own ORDER BY / LIMIT
    Query(Box<Query>),
}

#[derive(Clone, Debug, PartialEq, Serialize, Deserialize)]
pub struct Cte {
    pub name: String,
    /// column list `name(c1, c2)`; empty = take the query's output names
    pub cols: Vec<String>,
    pub recursive: bool,
    pub q: Box<Query>,
}

#[derive(Clone, Debug, PartialEq, Serialize, Deserialize)]
pub struct Query {
    pub with: Vec<Cte>,
    pub body: SetExpr,
    pub order_by: Vec<OrderItem>,
    pub limit: Option<u64>,
    pub offset: Option<u64>,
}

impl Query {
    pub fn simple(sel: Select) -> Query {
        Query { with: vec![], body: SetExpr::Select(Box::new(sel)), order_by: vec![], limit: None, offset: None }
    }
}

/// Column description of a base table.
#[derive(Clone, Debug, PartialEq, Serialize, Deserialize)]
pub struct ColDef {
    pub name: String,
    pub ty: Ty,
}

/// A base table with its contents.
#[derive(Clone, Debug, PartialEq, Serialize, Deserialize)]
pub struct Table {
    pub name: String,
    pub cols: Vec<ColDef>,
    pub rows: Vec<Vec<Value>>,
}

/// The database a query runs on.
#[derive(Clone, Debug, PartialEq, Serialize, Deserialize, Default)]
pub struct Db {
    pub tables: Vec<Table>,
}

impl Db {
    pub fn table(&self, name: &str) -> Option<&Table> {
        self.tables.iter().find(|t| t.name == name)
    }
}
