//! Logical read-back of any Arrow array.
use super::*;
use arrow::array::cast::AsArray;

fn prim_vals<T: ArrowPrimitiveType>(a: &dyn Array, f: impl Fn(T::Native) -> Value) -> Vec<Value> {
    let a = a.as_primitive::<T>();
    (0..a.len()).map(|i| if a.is_null(i) { Value::Null } else { f(a.value(i)) }).collect()
}

fn list_vals<O: OffsetSizeTrait>(a: &dyn Array) -> Vec<Value> {
    let a = a.as_list::<O>();
    (0..a.len()).map(|i| if a.is_null(i) { Value::Null } else { Value::List(array_to_values(a.value(i).as_ref())) }).collect()
}

fn list_view_vals<O: OffsetSizeTrait>(a: &dyn Array) -> Vec<Value> {
    let a = a.as_list_view::<O>();
    (0..a.len()).map(|i| if a.is_null(i) { Value::Null } else { Value::List(array_to_values(a.value(i).as_ref())) }).collect()
}

fn dict_vals<K: adt::ArrowDictionaryKeyType>(a: &dyn Array) -> Vec<Value> {
    let a = a.as_dictionary::<K>();
    let vals = array_to_values(a.values().as_ref());
    let keys = a.keys();
    (0..a.len()).map(|i| if keys.is_null(i) { Value::Null } else { vals.get(keys.value(i).as_usize()).cloned().unwrap_or(Value::Null) }).collect()
}

fn run_vals<R: adt::RunEndIndexType>(a: &dyn Array) -> Vec<Value> {
    let a = a.as_any().downcast_ref::<RunArray<R>>().expect("run array");
    let vals = array_to_values(a.values().as_ref());
    (0..a.len()).map(|i| vals[a.get_physical_index(i)].clone()).collect()
}

/// The logical values of an array, independent of its physical layout: dictionaries and run-end
/// encoding are resolved, all integer-backed types become `Int`, all floats `Float` (f16/f32 widened
/// exactly), strings of all three flavours `Str`, binaries `Bytes`. A NULL struct / list / map row is
/// `Value::Null` whatever its children hold. Union rows are `Union(type_id, child value)`.
pub fn array_to_values(a: &dyn Array) -> Vec<Value> {
    use DataType as D;
    let int = |v: i128| Value::Int(v);
    match a.data_type() {
        D::Null => vec![Value::Null; a.len()],
        D::Boolean => {
            let b = a.as_boolean();
            (0..b.len()).map(|i| if b.is_null(i) { Value::Null } else { Value::Bool(b.value(i)) }).collect()
        }
        D::Int8 => prim_vals::<adt::Int8Type>(a, |v| int(v as i128)),
        D::Int16 => prim_vals::<adt::Int16Type>(a, |v| int(v as i128)),
        D::Int32 => prim_vals::<adt::Int32Type>(a, |v| int(v as i128)),
        D::Int64 => prim_vals::<adt::Int64Type>(a, |v| int(v as i128)),
        D::UInt8 => prim_vals::<adt::UInt8Type>(a, |v| int(v as i128)),
        D::UInt16 => prim_vals::<adt::UInt16Type>(a, |v| int(v as i128)),
        D::UInt32 => prim_vals::<adt::UInt32Type>(a, |v| int(v as i128)),
        D::UInt64 => prim_vals::<adt::UInt64Type>(a, |v| int(v as i128)),
        D::Float16 => prim_vals::<adt::Float16Type>(a, |v| Value::Float(v.to_f64())),
        D::Float32 => prim_vals::<adt::Float32Type>(a, |v| Value::Float(v as f64)),
        D::Float64 => prim_vals::<adt::Float64Type>(a, Value::Float),
        D::Decimal32(..) => prim_vals::<adt::Decimal32Type>(a, |v| int(v as i128)),
        D::Decimal64(..) => prim_vals::<adt::Decimal64Type>(a, |v| int(v as i128)),
        D::Decimal128(..) => prim_vals::<adt::Decimal128Type>(a, int),
        D::Decimal256(..) => prim_vals::<adt::Decimal256Type>(a, Value::i256),
        D::Date32 => prim_vals::<adt::Date32Type>(a, |v| int(v as i128)),
        D::Date64 => prim_vals::<adt::Date64Type>(a, |v| int(v as i128)),
        D::Time32(TimeUnit::Second) => prim_vals::<adt::Time32SecondType>(a, |v| int(v as i128)),
        D::Time32(_) => prim_vals::<adt::Time32MillisecondType>(a, |v| int(v as i128)),
        D::Time64(TimeUnit::Microsecond) => prim_vals::<adt::Time64MicrosecondType>(a, |v| int(v as i128)),
        D::Time64(_) => prim_vals::<adt::Time64NanosecondType>(a, |v| int(v as i128)),
        D::Timestamp(TimeUnit::Second, _) => prim_vals::<adt::TimestampSecondType>(a, |v| int(v as i128)),
        D::Timestamp(TimeUnit::Millisecond, _) => prim_vals::<adt::TimestampMillisecondType>(a, |v| int(v as i128)),
        D::Timestamp(TimeUnit::Microsecond, _) => prim_vals::<adt::TimestampMicrosecondType>(a, |v| int(v as i128)),
        D::Timestamp(TimeUnit::Nanosecond, _) => prim_vals::<adt::TimestampNanosecondType>(a, |v| int(v as i128)),
        D::Duration(TimeUnit::Second) => prim_vals::<adt::DurationSecondType>(a, |v| int(v as i128)),
        D::Duration(TimeUnit::Millisecond) => prim_vals::<adt::DurationMillisecondType>(a, |v| int(v as i128)),
        D::Duration(TimeUnit::Microsecond) => prim_vals::<adt::DurationMicrosecondType>(a, |v| int(v as i128)),
        D::Duration(TimeUnit::Nanosecond) => prim_vals::<adt::DurationNanosecondType>(a, |v| int(v as i128)),
        D::Interval(IntervalUnit::YearMonth) => prim_vals::<adt::IntervalYearMonthType>(a, |v| int(v as i128)),
        D::Interval(IntervalUnit::DayTime) => prim_vals::<adt::IntervalDayTimeType>(a, |v| Value::DayTime(v.days, v.milliseconds)),
        D::Interval(IntervalUnit::MonthDayNano) => prim_vals::<adt::IntervalMonthDayNanoType>(a, |v| Value::MonthDayNano(v.months, v.days, v.nanoseconds)),
        D::Utf8 => {
            let s = a.as_string::<i32>();
            (0..s.len()).map(|i| if s.is_null(i) { Value::Null } else { Value::Str(s.value(i).to_string()) }).collect()
        }
        D::LargeUtf8 => {
            let s = a.as_string::<i64>();
            (0..s.len()).map(|i| if s.is_null(i) { Value::Null } else { Value::Str(s.value(i).to_string()) }).collect()
        }
        D::Utf8View => {
            let s = a.as_string_view();
            (0..s.len()).map(|i| if s.is_null(i) { Value::Null } else { Value::Str(s.value(i).to_string()) }).collect()
        }
        D::Binary => {
            let s = a.as_binary::<i32>();
            (0..s.len()).map(|i| if s.is_null(i) { Value::Null } else { Value::Bytes(s.value(i).to_vec()) }).collect()
        }
        D::LargeBinary => {
            let s = a.as_binary::<i64>();
            (0..s.len()).map(|i| if s.is_null(i) { Value::Null } else { Value::Bytes(s.value(i).to_vec()) }).collect()
        }
        D::BinaryView => {
            let s = a.as_binary_view();
            (0..s.len()).map(|i| if s.is_null(i) { Value::Null } else { Value::Bytes(s.value(i).to_vec()) }).collect()
        }
        D::FixedSizeBinary(_) => {
            let s = a.as_fixed_size_binary();
            (0..s.len()).map(|i| if s.is_null(i) { Value::Null } else { Value::Bytes(s.value(i).to_vec()) }).collect()
        }
        D::List(_) => list_vals::<i32>(a),
        D::LargeList(_) => list_vals::<i64>(a),
        D::ListView(_) => list_view_vals::<i32>(a),
        D::LargeListView(_) => list_view_vals::<i64>(a),
        D::FixedSizeList(..) => {
            let l = a.as_fixed_size_list();
            (0..l.len()).map(|i| if l.is_null(i) { Value::Null } else { Value::List(array_to_values(l.value(i).as_ref())) }).collect()
        }
        D::Struct(_) => {
            let s = a.as_struct();
            let cols: Vec<Vec<Value>> = s.columns().iter().map(|c| array_to_values(c.as_ref())).collect();
            (0..s.len()).map(|i| if s.is_null(i) { Value::Null } else { Value::Struct(cols.iter().map(|c| c[i].clone()).collect()) }).collect()
        }
        D::Map(..) => {
            let m = a.as_map();
            (0..m.len())
                .map(|i| {
                    if m.is_null(i) {
                        Value::Null
                    } else {
                        let e = m.value(i);
                        let k = array_to_values(e.column(0).as_ref());
                        let v = array_to_values(e.column(1).as_ref());
                        Value::Map(k.into_iter().zip(v).collect())
                    }
                })
                .collect()
        }
        D::Union(..) => {
            let u = a.as_any().downcast_ref::<UnionArray>().expect("union array");
            (0..u.len())
                .map(|i| {
                    let v = array_to_values(u.value(i).as_ref());
                    Value::Union(u.type_id(i), Box::new(v.into_iter().next().unwrap_or(Value::Null)))
                })
                .collect()
        }
        D::Dictionary(k, _) => match k.as_ref() {
            D::Int8 => dict_vals::<adt::Int8Type>(a),
            D::Int16 => dict_vals::<adt::Int16Type>(a),
            D::Int32 => dict_vals::<adt::Int32Type>(a),
            D::Int64 => dict_vals::<adt::Int64Type>(a),
            D::UInt8 => dict_vals::<adt::UInt8Type>(a),
            D::UInt16 => dict_vals::<adt::UInt16Type>(a),
            D::UInt32 => dict_vals::<adt::UInt32Type>(a),
            _ => dict_vals::<adt::UInt64Type>(a),
        },
        D::RunEndEncoded(r, _) => match r.data_type() {
            D::Int16 => run_vals::<adt::Int16Type>(a),
            D::Int64 => run_vals::<adt::Int64Type>(a),
            _ => run_vals::<adt::Int32Type>(a),
        },
    }
}
