//! `Encoding` (layout tree) and `render`.
use super::*;

/// how a NULL row of a dictionary column is represented
#[derive(Clone, Copy, Debug, PartialEq, Eq, Serialize, Deserialize)]
pub enum NullVia {
    /// NULL key
    Key,
    /// valid key pointing at a NULL dictionary value
    Value,
    /// per row, either of the two
    Mixed,
}

/// Layout of one array; children carry their own `Encoding`. A layout that does not fit the dtype it is
/// applied to is replaced by the plain layout of that dtype (so hand-edited replay files cannot panic).
#[derive(Clone, Debug, PartialEq, Serialize, Deserialize)]
pub enum Layout {
    /// Null, Bool, primitives, decimals, temporal, intervals, Utf8/LargeUtf8/Binary/LargeBinary, FixedSizeBinary
    Flat,
    /// Utf8View / BinaryView: long (> 12 B) strings are spread over `buffers` (≥ 1) data buffers, `gap`
    /// junk bytes in front of each; `share`: equal long strings point at the same bytes; `spare`: an
    /// extra unreferenced data buffer in front (also makes an all-inline array carry a buffer).
    View { buffers: u8, gap: u8, share: bool, spare: bool },
    /// `dup` extra duplicate dictionary values, `unused` unreferenced ones, `shuffle` permutes the
    /// dictionary, `null_via` chooses the NULL representation
    Dict { dup: u8, unused: u8, shuffle: bool, null_via: NullVia, values: Box<Encoding> },
    /// runs end wherever adjacent values differ and additionally at `cuts` (positions scaled by u16/65536)
    Ree { cuts: Vec<u16>, values: Box<Encoding> },
    /// List / LargeList: `lead` / `trail` unreferenced child rows before the first / after the last offset
    List { lead: u8, trail: u8, child: Box<Encoding> },
    /// ListView / LargeListView: child segments in shuffled order, `gap` junk rows between them, equal
    /// lists may share one segment
    ListView { lead: u8, gap: u8, shuffle: bool, share: bool, child: Box<Encoding> },
    FixedList { child: Box<Encoding> },
    Struct { children: Vec<Encoding> },
    Map { lead: u8, trail: u8, keys: Box<Encoding>, values: Box<Encoding> },
    /// dense: up to `gap` unreferenced junk rows in front of each referenced child row
    Union { gap: u8, children: Vec<Encoding> },
}

#[derive(Clone, Debug, PartialEq, Serialize, Deserialize)]
pub struct Encoding {
    /// the array is sliced out of a longer one: junk rows before / after
    pub pad_before: u8,
    pub pad_after: u8,
    /// carry a validity buffer even when no row is NULL
    pub explicit_validity: bool,
    /// non-default physical content under NULL slots (values, byte ranges, child rows, keys)
    pub junk: bool,
    /// source of all junk
    pub seed: u32,
    pub layout: Layout,
}

impl Encoding {
    /// the canonical layout: offset 0, validity only when needed, zeroes under NULLs, one run per
    /// distinct neighbourhood, dictionary in first-occurrence order
    pub fn plain(dt: &DType) -> Encoding {
        use DType::*;
        let b = |d: &DType| Box::new(Encoding::plain(d));
        let layout = match dt {
            Utf8View | BinaryView => Layout::View { buffers: 1, gap: 0, share: false, spare: false },
            Dictionary(_, v) => Layout::Dict { dup: 0, unused: 0, shuffle: false, null_via: NullVia::Key, values: b(v) },
            RunEndEncoded(_, v) => Layout::Ree { cuts: vec![], values: b(v) },
            List(c) | LargeList(c) => Layout::List { lead: 0, trail: 0, child: b(c) },
            ListView(c) | LargeListView(c) => Layout::ListView { lead: 0, gap: 0, shuffle: false, share: false, child: b(c) },
            FixedSizeList(c, _) => Layout::FixedList { child: b(c) },
            Struct(fs) => Layout::Struct { children: fs.iter().map(|(_, d)| Encoding::plain(d)).collect() },
            Map(k, v) => Layout::Map { lead: 0, trail: 0, keys: b(k), values: b(v) },
            Union(fs, _) => Layout::Union { gap: 0, children: fs.iter().map(|(_, _, d)| Encoding::plain(d)).collect() },
            _ => Layout::Flat,
        };
        Encoding { pad_before: 0, pad_after: 0, explicit_validity: false, junk: false, seed: 0, layout }
    }
}

/// Names of the buffer-level features an encoding uses (anywhere in the tree); the plain encoding has none.
pub fn encoding_features(e: &Encoding) -> BTreeSet<&'static str> {
    let mut s = BTreeSet::new();
    feats(e, &mut s);
    s
}
fn feats(e: &Encoding, s: &mut BTreeSet<&'static str>) {
    if e.pad_before > 0 {
        s.insert("offset");
    }
    if e.pad_after > 0 {
        s.insert("tail-pad");
    }
    if e.explicit_validity {
        s.insert("explicit-validity");
    }
    if e.junk {
        s.insert("junk-under-null");
    }
    match &e.layout {
        Layout::Flat => {}
        Layout::View { buffers, gap, share, spare } => {
            if *buffers > 1 {
                s.insert("view-multi-buffer");
            }
            if *gap > 0 {
                s.insert("view-gap");
            }
            if *share {
                s.insert("view-share");
            }
            if *spare {
                s.insert("view-spare-buffer");
            }
        }
        Layout::Dict { dup, unused, shuffle, null_via, values } => {
            if *dup > 0 {
                s.insert("dict-dup");
            }
            if *unused > 0 {
                s.insert("dict-unused");
            }
            if *shuffle {
                s.insert("dict-shuffle");
            }
            if *null_via != NullVia::Key {
                s.insert("dict-null-value");
            }
            feats(values, s);
        }
        Layout::Ree { cuts, values } => {
            if !cuts.is_empty() {
                s.insert("ree-cuts");
            }
            feats(values, s);
        }
        Layout::List { lead, trail, child } => {
            if *lead > 0 {
                s.insert("list-first-offset");
            }
            if *trail > 0 {
                s.insert("list-trail");
            }
            feats(child, s);
        }
        Layout::ListView { lead, gap, shuffle, share, child } => {
            if *lead > 0 || *gap > 0 {
                s.insert("listview-gaps");
            }
            if *shuffle {
                s.insert("listview-shuffle");
            }
            if *share {
                s.insert("listview-share");
            }
            feats(child, s);
        }
        Layout::FixedList { child } => feats(child, s),
        Layout::Struct { children } => children.iter().for_each(|c| feats(c, s)),
        Layout::Map { lead, trail, keys, values } => {
            if *lead > 0 {
                s.insert("map-first-offset");
            }
            if *trail > 0 {
                s.insert("map-trail");
            }
            feats(keys, s);
            feats(values, s);
        }
        Layout::Union { gap, children } => {
            if *gap > 0 {
                s.insert("union-gap");
            }
            children.iter().for_each(|c| feats(c, s));
        }
    }
}

// ---------------------------------------------------------------------------------------------
// junk

pub(super) struct Junk(u64);
impl Junk {
    pub(super) fn new(seed: u32) -> Junk {
        Junk(0x9E37_79B9_7F4A_7C15 ^ ((seed as u64) << 17) ^ seed as u64)
    }
    pub(super) fn next(&mut self) -> u64 {
        self.0 = self.0.wrapping_add(0x9E37_79B9_7F4A_7C15);
        let mut z = self.0;
        z = (z ^ (z >> 30)).wrapping_mul(0xBF58_476D_1CE4_E5B9);
        z = (z ^ (z >> 27)).wrapping_mul(0x94D0_49BB_1331_11EB);
        z ^ (z >> 31)
    }
    pub(super) fn below(&mut self, n: usize) -> usize {
        if n == 0 { 0 } else { (self.next() % n as u64) as usize }
    }
    fn flip(&mut self) -> bool {
        self.next() & 1 == 1
    }
}

const JUNK_STR: &[&str] = &["", "j", "junk", "JUNKJUNKJUNK", "junk-junk-junk-junk-junk", "zzzzzzzzzzzzzzzzzzzzzzzzzzzzzzzzzzzzzzzz", "ж", "junk ünder null"];

pub(super) fn pow10(p: u8) -> i128 {
    10i128.pow(p.min(38) as u32)
}

/// inclusive range of the integers representable in an integer-backed dtype
pub(super) fn int_range(dt: &DType) -> (i128, i128) {
    use DType::*;
    match dt {
        Int8 => (i8::MIN as i128, i8::MAX as i128),
        Int16 => (i16::MIN as i128, i16::MAX as i128),
        Int32 | Date32 | IntervalYM => (i32::MIN as i128, i32::MAX as i128),
        Time32(TUnit::S) => (0, 86_399),
        Time32(_) => (0, 86_399_999),
        Time64(TUnit::Us) => (0, 86_399_999_999),
        Time64(_) => (0, 86_399_999_999_999),
        Int64 | Date64 | Timestamp(..) | Duration(_) => (i64::MIN as i128, i64::MAX as i128),
        UInt8 => (0, u8::MAX as i128),
        UInt16 => (0, u16::MAX as i128),
        UInt32 => (0, u32::MAX as i128),
        UInt64 => (0, u64::MAX as i128),
        Decimal32(p, _) | Decimal64(p, _) | Decimal128(p, _) => (-(pow10(*p) - 1), pow10(*p) - 1),
        _ => (0, 0),
    }
}

/// a non-NULL physical content value for `dt` (for Null: `Value::Null`; for Union the child may be NULL)
fn junk_content(dt: &DType, r: &mut Junk, depth: u32) -> Value {
    use DType::*;
    match dt {
        Null => Value::Null,
        Bool => Value::Bool(r.flip()),
        Float16 | Float32 | Float64 => Value::Float([0.0, -0.0, 1.5, -2.0, 7.0, f64::NAN, f64::INFINITY, 65504.0][r.below(8)]),
        Decimal256(p, _) => Value::i256(i256::from_i128((r.next() as i128 % pow10((*p).min(18))) - 3)),
        IntervalDT => Value::DayTime(r.next() as i32 % 100, r.next() as i32 % 1000),
        IntervalMDN => Value::MonthDayNano(r.next() as i32 % 100, r.next() as i32 % 100, r.next() as i64 % 1_000_000),
        Utf8 | LargeUtf8 | Utf8View => Value::Str(JUNK_STR[r.below(JUNK_STR.len())].to_string()),
        Binary | LargeBinary | BinaryView => {
            let n = [0usize, 1, 3, 12, 13, 30][r.below(6)];
            Value::Bytes((0..n).map(|_| r.next() as u8).collect())
        }
        FixedSizeBinary(n) => Value::Bytes((0..*n).map(|_| r.next() as u8 | 1).collect()),
        List(c) | LargeList(c) | ListView(c) | LargeListView(c) => {
            let n = if depth >= 2 { r.below(2) } else { r.below(4) };
            Value::List((0..n).map(|_| junk_value(c, r, true, depth + 1)).collect())
        }
        FixedSizeList(c, n) => Value::List((0..*n).map(|_| junk_value(c, r, true, depth + 1)).collect()),
        Struct(fs) => Value::Struct(fs.iter().map(|(_, d)| junk_value(d, r, true, depth + 1)).collect()),
        Map(k, v) => {
            let n = r.below(3);
            Value::Map((0..n).map(|_| (junk_value(k, r, false, depth + 1), junk_value(v, r, true, depth + 1))).collect())
        }
        Union(fs, _) => {
            let (id, _, d) = &fs[r.below(fs.len())];
            Value::Union(*id, Box::new(junk_value(d, r, true, depth + 1)))
        }
        Dictionary(_, v) | RunEndEncoded(_, v) => junk_content(v, r, depth),
        _ => {
            let (lo, hi) = int_range(dt);
            let span = (hi.wrapping_sub(lo) as u128).saturating_add(1);
            let pick = match r.below(4) {
                0 => lo,
                1 => hi,
                2 => lo.wrapping_add((r.next() as u128 % span.min(7)) as i128).min(hi),
                _ => lo.wrapping_add((r.next() as u128 % span) as i128),
            };
            Value::Int(pick)
        }
    }
}

/// a junk logical value (NULL one time in three where allowed)
fn junk_value(dt: &DType, r: &mut Junk, nullable: bool, depth: u32) -> Value {
    if nullable && dt.top_level_nullable() && !matches!(dt, DType::Null) && r.below(3) == 0 { Value::Null } else { junk_content(dt, r, depth) }
}

/// all-zero / empty content
fn default_content(dt: &DType) -> Value {
    use DType::*;
    match dt {
        Null => Value::Null,
        Bool => Value::Bool(false),
        Float16 | Float32 | Float64 => Value::Float(0.0),
        Decimal256(..) => Value::Int256 { hi: 0, lo: 0 },
        IntervalDT => Value::DayTime(0, 0),
        IntervalMDN => Value::MonthDayNano(0, 0, 0),
        Utf8 | LargeUtf8 | Utf8View => Value::Str(String::new()),
        Binary | LargeBinary | BinaryView => Value::Bytes(vec![]),
        FixedSizeBinary(n) => Value::Bytes(vec![0; *n as usize]),
        List(_) | LargeList(_) | ListView(_) | LargeListView(_) => Value::List(vec![]),
        FixedSizeList(c, n) => Value::List(vec![if c.top_level_nullable() { Value::Null } else { default_content(c) }; *n as usize]),
        Struct(fs) => Value::Struct(fs.iter().map(|(_, d)| if d.top_level_nullable() { Value::Null } else { default_content(d) }).collect()),
        Map(..) => Value::Map(vec![]),
        Union(fs, _) => Value::Union(fs[0].0, Box::new(if fs[0].2.top_level_nullable() { Value::Null } else { default_content(&fs[0].2) })),
        Dictionary(_, v) | RunEndEncoded(_, v) => default_content(v),
        _ => Value::Int(0),
    }
}

// ---------------------------------------------------------------------------------------------
// render

thread_local! {
    /// set when a dictionary needed more entries than its key width can address
    static DICT_OVERFLOW: std::cell::Cell<bool> = const { std::cell::Cell::new(false) };
}

/// Render the logical column under the encoding. `array_to_values(&render(c, e)) == c.values`.
///
/// Panics if the column cannot be represented in its dtype (more distinct values below an 8-bit-keyed
/// dictionary than the key can address) — use [`try_render`] where that can happen.
pub fn render(col: &ColumnSpec, enc: &Encoding) -> ArrayRef {
    try_render(col, enc).expect("vf-kit data: render")
}

/// [`render`], returning `Err` when the column does not fit its dtype (dictionary key width overflow).
pub fn try_render(col: &ColumnSpec, enc: &Encoding) -> Result<ArrayRef, String> {
    DICT_OVERFLOW.with(|f| f.set(false));
    let a = build(&col.dtype, &col.values, enc, true);
    if DICT_OVERFLOW.with(|f| f.replace(false)) { Err("dictionary key width overflow".into()) } else { Ok(a) }
}

/// Like [`render`] for a column that must not carry NULLs or a validity buffer (e.g. map keys, non-nullable fields).
pub fn render_nonnull(col: &ColumnSpec, enc: &Encoding) -> ArrayRef {
    build(&col.dtype, &col.values, enc, false)
}

struct Slot {
    valid: bool,
    /// physical content, never `Value::Null` (except for dtype Null and under Union children)
    content: Value,
}

fn layout_fits(dt: &DType, l: &Layout) -> bool {
    use DType::*;
    match (dt, l) {
        (Utf8View | BinaryView, Layout::View { .. }) => true,
        (Dictionary(..), Layout::Dict { .. }) => true,
        (RunEndEncoded(..), Layout::Ree { .. }) => true,
        (List(_) | LargeList(_), Layout::List { .. }) => true,
        (ListView(_) | LargeListView(_), Layout::ListView { .. }) => true,
        (FixedSizeList(..), Layout::FixedList { .. }) => true,
        (Struct(fs), Layout::Struct { children }) => fs.len() == children.len(),
        (Map(..), Layout::Map { .. }) => true,
        (Union(fs, _), Layout::Union { children, .. }) => fs.len() == children.len(),
        (Utf8View | BinaryView | Dictionary(..) | RunEndEncoded(..) | List(_) | LargeList(_) | ListView(_) | LargeListView(_) | FixedSizeList(..) | Struct(_) | Map(..) | Union(..), _) => false,
        (_, Layout::Flat) => true,
        _ => false,
    }
}

fn build(dt: &DType, vals: &[Value], enc: &Encoding, nullable: bool) -> ArrayRef {
    let fixed;
    let enc = if layout_fits(dt, &enc.layout) {
        enc
    } else {
        fixed = Encoding { layout: Encoding::plain(dt).layout, ..enc.clone() };
        &fixed
    };
    let mut r = Junk::new(enc.seed);
    let before = enc.pad_before as usize;
    let after = enc.pad_after as usize;
    let padded: Vec<Value>;
    let logical: &[Value] = if before + after == 0 {
        vals
    } else {
        let mut p = Vec::with_capacity(vals.len() + before + after);
        for _ in 0..before {
            p.push(junk_value(dt, &mut r, nullable, 0));
        }
        p.extend(vals.iter().cloned());
        for _ in 0..after {
            p.push(junk_value(dt, &mut r, nullable, 0));
        }
        padded = p;
        &padded
    };
    let arr = build_layout(dt, logical, enc, nullable, &mut r);
    assert_eq!(arr.len(), logical.len(), "vf-kit data: rendered length mismatch for {dt:?}");
    let arr = if before + after == 0 { arr } else { arr.slice(before, vals.len()) };
    debug_assert_eq!(arr.data_type(), &dt.to_arrow());
    arr
}

fn slots_of(dt: &DType, logical: &[Value], junk: bool, r: &mut Junk) -> Vec<Slot> {
    logical
        .iter()
        .map(|v| {
            if v.is_null() {
                Slot { valid: false, content: if junk { junk_content(dt, r, 1) } else { default_content(dt) } }
            } else {
                Slot { valid: true, content: v.clone() }
            }
        })
        .collect()
}

fn nulls_of(slots: &[Slot], explicit: bool, nullable: bool) -> Option<NullBuffer> {
    if !nullable {
        return None;
    }
    if explicit || slots.iter().any(|s| !s.valid) { Some(NullBuffer::from(slots.iter().map(|s| s.valid).collect::<Vec<bool>>())) } else { None }
}

fn as_int(v: &Value) -> i128 {
    match v {
        Value::Int(i) => *i,
        Value::Bool(b) => *b as i128,
        Value::Float(f) => *f as i128,
        _ => 0,
    }
}
fn as_f64(v: &Value) -> f64 {
    match v {
        Value::Float(f) => *f,
        Value::Int(i) => *i as f64,
        _ => 0.0,
    }
}
fn as_i256(v: &Value) -> i256 {
    match v {
        Value::Int256 { hi, lo } => i256::from_parts(*lo, *hi),
        Value::Int(i) => i256::from_i128(*i),
        _ => i256::ZERO,
    }
}
fn as_bytes(v: &Value) -> &[u8] {
    match v {
        Value::Str(s) => s.as_bytes(),
        Value::Bytes(b) => b,
        _ => &[],
    }
}
fn as_list(v: &Value) -> &[Value] {
    match v {
        Value::List(l) | Value::Struct(l) => l,
        _ => &[],
    }
}

fn prim<T: ArrowPrimitiveType>(dt: &DType, slots: &[Slot], nulls: Option<NullBuffer>, f: impl Fn(&Value) -> T::Native) -> ArrayRef {
    let vals: Vec<T::Native> = slots.iter().map(|s| f(&s.content)).collect();
    Arc::new(PrimitiveArray::<T>::new(ScalarBuffer::from(vals), nulls).with_data_type(dt.to_arrow()))
}

fn bytes_arr<T: adt::ByteArrayType>(slots: &[Slot], nulls: Option<NullBuffer>) -> ArrayRef {
    let mut data: Vec<u8> = vec![];
    let mut lens = Vec::with_capacity(slots.len());
    for s in slots {
        let b = as_bytes(&s.content);
        data.extend_from_slice(b);
        lens.push(b.len());
    }
    Arc::new(GenericByteArray::<T>::try_new(OffsetBuffer::from_lengths(lens), Buffer::from(data), nulls).expect("vf-kit data: byte array"))
}

fn view_arr<T: adt::ByteViewType>(slots: &[Slot], nulls: Option<NullBuffer>, buffers: u8, gap: u8, share: bool, spare: bool, r: &mut Junk) -> ArrayRef {
    let nbuf = buffers.clamp(1, 8) as usize;
    let shift = spare as usize;
    let mut bufs: Vec<Vec<u8>> = vec![vec![]; nbuf];
    let mut seen: Vec<(Vec<u8>, u32, u32)> = vec![];
    let mut views: Vec<u128> = Vec::with_capacity(slots.len());
    for s in slots {
        let b = as_bytes(&s.content);
        if b.len() <= 12 {
            views.push(make_view(b, 0, 0));
            continue;
        }
        if share {
            if let Some((_, bi, off)) = seen.iter().find(|(x, _, _)| x.as_slice() == b) {
                views.push(make_view(b, *bi, *off));
                continue;
            }
        }
        let bi = r.below(nbuf);
        for _ in 0..r.below(gap as usize + 1) {
            bufs[bi].push(b'#');
        }
        let off = bufs[bi].len() as u32;
        bufs[bi].extend_from_slice(b);
        let bi = (bi + shift) as u32;
        seen.push((b.to_vec(), bi, off));
        views.push(make_view(b, bi, off));
    }
    // drop trailing empty buffers (an array without long strings and without `spare` has no data buffers)
    while bufs.last().map(|b| b.is_empty()).unwrap_or(false) {
        bufs.pop();
    }
    let mut buffers: Vec<Buffer> = vec![];
    if spare {
        buffers.push(Buffer::from(b"spare buffer that no view points into".to_vec()));
    }
    buffers.extend(bufs.into_iter().map(Buffer::from));
    Arc::new(GenericByteViewArray::<T>::try_new(ScalarBuffer::from(views), buffers, nulls).expect("vf-kit data: view array"))
}

fn offsets<O: OffsetSizeTrait>(v: &[usize]) -> ScalarBuffer<O> {
    ScalarBuffer::from(v.iter().map(|x| O::usize_as(*x)).collect::<Vec<O>>())
}

fn list_arr<O: OffsetSizeTrait>(c: &DType, slots: &[Slot], nulls: Option<NullBuffer>, lead: u8, trail: u8, child: &Encoding, r: &mut Junk) -> ArrayRef {
    let mut cv: Vec<Value> = (0..lead).map(|_| junk_value(c, r, true, 1)).collect();
    let mut offs = vec![cv.len()];
    for s in slots {
        cv.extend(as_list(&s.content).iter().cloned());
        offs.push(cv.len());
    }
    for _ in 0..trail {
        cv.push(junk_value(c, r, true, 1));
    }
    let values = build(c, &cv, child, true);
    let field = Arc::new(Field::new("item", c.to_arrow(), true));
    Arc::new(GenericListArray::<O>::try_new(field, OffsetBuffer::new(offsets::<O>(&offs)), values, nulls).expect("vf-kit data: list array"))
}

#[allow(clippy::too_many_arguments)]
fn list_view_arr<O: OffsetSizeTrait>(c: &DType, slots: &[Slot], nulls: Option<NullBuffer>, lead: u8, gap: u8, shuffle: bool, share: bool, child: &Encoding, r: &mut Junk) -> ArrayRef {
    let n = slots.len();
    let mut order: Vec<usize> = (0..n).collect();
    if shuffle {
        for i in (1..n).rev() {
            order.swap(i, r.below(i + 1));
        }
    }
    let mut cv: Vec<Value> = (0..lead).map(|_| junk_value(c, r, true, 1)).collect();
    let mut offs = vec![0usize; n];
    let mut sizes = vec![0usize; n];
    let mut placed: Vec<usize> = vec![];
    for &i in &order {
        let elems = as_list(&slots[i].content);
        sizes[i] = elems.len();
        if share {
            if let Some(&j) = placed.iter().find(|&&j| as_list(&slots[j].content) == elems) {
                offs[i] = offs[j];
                continue;
            }
        }
        for _ in 0..r.below(gap as usize + 1) {
            cv.push(junk_value(c, r, true, 1));
        }
        offs[i] = cv.len();
        cv.extend(elems.iter().cloned());
        placed.push(i);
    }
    let values = build(c, &cv, child, true);
    let field = Arc::new(Field::new("item", c.to_arrow(), true));
    Arc::new(GenericListViewArray::<O>::try_new(field, offsets::<O>(&offs), offsets::<O>(&sizes), values, nulls).expect("vf-kit data: list view array"))
}

fn keys_arr<K: adt::ArrowDictionaryKeyType>(keys: &[usize], nulls: Option<NullBuffer>, values: ArrayRef) -> ArrayRef {
    let k: Vec<K::Native> = keys.iter().map(|x| K::Native::usize_as(*x)).collect();
    Arc::new(DictionaryArray::<K>::try_new(PrimitiveArray::<K>::new(ScalarBuffer::from(k), nulls), values).expect("vf-kit data: dictionary array"))
}

fn run_arr<R: adt::RunEndIndexType>(ends: &[usize], values: ArrayRef) -> ArrayRef {
    let e: Vec<R::Native> = ends.iter().map(|x| R::Native::usize_as(*x)).collect();
    let run_ends = PrimitiveArray::<R>::new(ScalarBuffer::from(e), None);
    Arc::new(RunArray::<R>::try_new(&run_ends, values.as_ref()).expect("vf-kit data: run array"))
}

fn build_layout(dt: &DType, logical: &[Value], enc: &Encoding, nullable: bool, r: &mut Junk) -> ArrayRef {
    use DType::*;
    let n = logical.len();
    // wrappers that work on logical values
    match (dt, &enc.layout) {
        (Dictionary(kw, vt), Layout::Dict { dup, unused, shuffle, null_via, values }) => {
            let mut entries: Vec<Value> = vec![];
            for v in logical {
                if !v.is_null() && !entries.contains(v) {
                    entries.push(v.clone());
                }
            }
            let cap = kw.capacity();
            if entries.len() > cap {
                // not representable: keep the array valid, report through `try_render`
                DICT_OVERFLOW.with(|f| f.set(true));
                entries.truncate(cap);
            }
            let distinct = entries.len();
            for _ in 0..*dup {
                if distinct > 0 && entries.len() < cap {
                    let e = entries[r.below(distinct)].clone();
                    entries.push(e);
                }
            }
            for _ in 0..*unused {
                if entries.len() < cap {
                    entries.push(junk_value(vt, r, true, 1));
                }
            }
            let any_null = logical.iter().any(|v| v.is_null());
            if any_null && *null_via != NullVia::Key && !entries.iter().any(|e| e.is_null()) && vt.top_level_nullable() && !matches!(**vt, Null) && entries.len() < cap {
                entries.push(Value::Null);
            }
            if *shuffle {
                for i in (1..entries.len()).rev() {
                    entries.swap(i, r.below(i + 1));
                }
            }
            let null_entries: Vec<usize> = entries.iter().enumerate().filter(|(_, e)| e.is_null()).map(|(i, _)| i).collect();
            let mut keys = Vec::with_capacity(n);
            let mut valid = Vec::with_capacity(n);
            for v in logical {
                if v.is_null() {
                    let via_value = !null_entries.is_empty()
                        && match null_via {
                            NullVia::Key => false,
                            NullVia::Value => true,
                            NullVia::Mixed => r.flip(),
                        };
                    if via_value {
                        keys.push(null_entries[r.below(null_entries.len())]);
                        valid.push(true);
                    } else {
                        keys.push(if enc.junk { r.below(entries.len()) } else { 0 });
                        valid.push(false);
                    }
                } else {
                    let m: Vec<usize> = entries.iter().enumerate().filter(|(_, e)| *e == v).map(|(i, _)| i).collect();
                    // an entry always exists unless the dictionary overflowed its key width (not generated)
                    keys.push(if m.is_empty() { 0 } else { m[r.below(m.len())] });
                    valid.push(!m.is_empty());
                }
            }
            let nulls = if enc.explicit_validity || valid.iter().any(|v| !v) { Some(NullBuffer::from(valid)) } else { None };
            let values = build(vt, &entries, values, true);
            return match kw {
                IntW::I8 => keys_arr::<adt::Int8Type>(&keys, nulls, values),
                IntW::I16 => keys_arr::<adt::Int16Type>(&keys, nulls, values),
                IntW::I32 => keys_arr::<adt::Int32Type>(&keys, nulls, values),
                IntW::I64 => keys_arr::<adt::Int64Type>(&keys, nulls, values),
                IntW::U8 => keys_arr::<adt::UInt8Type>(&keys, nulls, values),
                IntW::U16 => keys_arr::<adt::UInt16Type>(&keys, nulls, values),
                IntW::U32 => keys_arr::<adt::UInt32Type>(&keys, nulls, values),
                IntW::U64 => keys_arr::<adt::UInt64Type>(&keys, nulls, values),
            };
        }
        (RunEndEncoded(rw, vt), Layout::Ree { cuts, values }) => {
            let mut cut = vec![false; n + 1];
            for c in cuts {
                if n > 1 {
                    cut[1 + (((*c as usize) * (n - 1)) >> 16)] = true;
                }
            }
            let mut ends = vec![];
            let mut run_vals = vec![];
            for i in 0..n {
                if i == 0 || cut[i] || logical[i] != logical[i - 1] {
                    if i > 0 {
                        ends.push(i);
                    }
                    run_vals.push(logical[i].clone());
                }
            }
            if n > 0 {
                ends.push(n);
            }
            let values = build(vt, &run_vals, values, true);
            return match rw {
                IntW::I16 => run_arr::<adt::Int16Type>(&ends, values),
                IntW::I64 => run_arr::<adt::Int64Type>(&ends, values),
                _ => run_arr::<adt::Int32Type>(&ends, values),
            };
        }
        (Union(fs, dense), Layout::Union { gap, children }) => {
            let rows: Vec<(i8, Value)> = logical
                .iter()
                .map(|v| match v {
                    Value::Union(id, inner) if fs.iter().any(|(i, _, _)| i == id) => (*id, (**inner).clone()),
                    _ => (fs[0].0, Value::Null),
                })
                .collect();
            let type_ids: Vec<i8> = rows.iter().map(|(i, _)| *i).collect();
            let mut offs: Vec<i32> = vec![0; n];
            let mut arrays = vec![];
            for ((id, _, cdt), cenc) in fs.iter().zip(children) {
                let mut cv: Vec<Value> = vec![];
                for (row, (rid, v)) in rows.iter().enumerate() {
                    if *dense {
                        if rid == id {
                            for _ in 0..r.below(*gap as usize + 1) {
                                cv.push(junk_value(cdt, r, true, 1));
                            }
                            offs[row] = cv.len() as i32;
                            cv.push(v.clone());
                        }
                    } else if rid == id {
                        cv.push(v.clone());
                    } else {
                        cv.push(if enc.junk { junk_value(cdt, r, true, 1) } else if cdt.top_level_nullable() { Value::Null } else { default_content(cdt) });
                    }
                }
                // a union child of union type cannot be NULL itself
                let cv: Vec<Value> = if cdt.top_level_nullable() { cv } else { cv.into_iter().map(|v| if v.is_null() { default_content(cdt) } else { v }).collect() };
                arrays.push(build(cdt, &cv, cenc, true));
            }
            let offsets = if *dense { Some(ScalarBuffer::from(offs)) } else { None };
            return Arc::new(UnionArray::try_new(union_fields(fs), ScalarBuffer::from(type_ids), offsets, arrays).expect("vf-kit data: union array"));
        }
        _ => {}
    }

    let slots = slots_of(dt, logical, enc.junk, r);
    let nulls = nulls_of(&slots, enc.explicit_validity, nullable);
    match dt {
        Null => Arc::new(NullArray::new(n)),
        Bool => Arc::new(BooleanArray::new(BooleanBuffer::from(slots.iter().map(|s| matches!(s.content, Value::Bool(true))).collect::<Vec<bool>>()), nulls)),
        Int8 => prim::<adt::Int8Type>(dt, &slots, nulls, |v| as_int(v) as i8),
        Int16 => prim::<adt::Int16Type>(dt, &slots, nulls, |v| as_int(v) as i16),
        Int32 => prim::<adt::Int32Type>(dt, &slots, nulls, |v| as_int(v) as i32),
        Int64 => prim::<adt::Int64Type>(dt, &slots, nulls, |v| as_int(v) as i64),
        UInt8 => prim::<adt::UInt8Type>(dt, &slots, nulls, |v| as_int(v) as u8),
        UInt16 => prim::<adt::UInt16Type>(dt, &slots, nulls, |v| as_int(v) as u16),
        UInt32 => prim::<adt::UInt32Type>(dt, &slots, nulls, |v| as_int(v) as u32),
        UInt64 => prim::<adt::UInt64Type>(dt, &slots, nulls, |v| as_int(v) as u64),
        Float16 => prim::<adt::Float16Type>(dt, &slots, nulls, |v| f16::from_f64(as_f64(v))),
        Float32 => prim::<adt::Float32Type>(dt, &slots, nulls, |v| as_f64(v) as f32),
        Float64 => prim::<adt::Float64Type>(dt, &slots, nulls, as_f64),
        Decimal32(..) => prim::<adt::Decimal32Type>(dt, &slots, nulls, |v| as_int(v) as i32),
        Decimal64(..) => prim::<adt::Decimal64Type>(dt, &slots, nulls, |v| as_int(v) as i64),
        Decimal128(..) => prim::<adt::Decimal128Type>(dt, &slots, nulls, as_int),
        Decimal256(..) => prim::<adt::Decimal256Type>(dt, &slots, nulls, as_i256),
        Date32 => prim::<adt::Date32Type>(dt, &slots, nulls, |v| as_int(v) as i32),
        Date64 => prim::<adt::Date64Type>(dt, &slots, nulls, |v| as_int(v) as i64),
        Time32(TUnit::S) => prim::<adt::Time32SecondType>(dt, &slots, nulls, |v| as_int(v) as i32),
        Time32(_) => prim::<adt::Time32MillisecondType>(dt, &slots, nulls, |v| as_int(v) as i32),
        Time64(TUnit::Us) => prim::<adt::Time64MicrosecondType>(dt, &slots, nulls, |v| as_int(v) as i64),
        Time64(_) => prim::<adt::Time64NanosecondType>(dt, &slots, nulls, |v| as_int(v) as i64),
        Timestamp(TUnit::S, _) => prim::<adt::TimestampSecondType>(dt, &slots, nulls, |v| as_int(v) as i64),
        Timestamp(TUnit::Ms, _) => prim::<adt::TimestampMillisecondType>(dt, &slots, nulls, |v| as_int(v) as i64),
        Timestamp(TUnit::Us, _) => prim::<adt::TimestampMicrosecondType>(dt, &slots, nulls, |v| as_int(v) as i64),
        Timestamp(TUnit::Ns, _) => prim::<adt::TimestampNanosecondType>(dt, &slots, nulls, |v| as_int(v) as i64),
        Duration(TUnit::S) => prim::<adt::DurationSecondType>(dt, &slots, nulls, |v| as_int(v) as i64),
        Duration(TUnit::Ms) => prim::<adt::DurationMillisecondType>(dt, &slots, nulls, |v| as_int(v) as i64),
        Duration(TUnit::Us) => prim::<adt::DurationMicrosecondType>(dt, &slots, nulls, |v| as_int(v) as i64),
        Duration(TUnit::Ns) => prim::<adt::DurationNanosecondType>(dt, &slots, nulls, |v| as_int(v) as i64),
        IntervalYM => prim::<adt::IntervalYearMonthType>(dt, &slots, nulls, |v| as_int(v) as i32),
        IntervalDT => prim::<adt::IntervalDayTimeType>(dt, &slots, nulls, |v| match v {
            Value::DayTime(d, ms) => adt::IntervalDayTime::new(*d, *ms),
            _ => adt::IntervalDayTime::new(0, 0),
        }),
        IntervalMDN => prim::<adt::IntervalMonthDayNanoType>(dt, &slots, nulls, |v| match v {
            Value::MonthDayNano(m, d, ns) => adt::IntervalMonthDayNano::new(*m, *d, *ns),
            _ => adt::IntervalMonthDayNano::new(0, 0, 0),
        }),
        Utf8 => bytes_arr::<adt::Utf8Type>(&slots, nulls),
        LargeUtf8 => bytes_arr::<adt::LargeUtf8Type>(&slots, nulls),
        Binary => bytes_arr::<adt::BinaryType>(&slots, nulls),
        LargeBinary => bytes_arr::<adt::LargeBinaryType>(&slots, nulls),
        FixedSizeBinary(w) => {
            let w = (*w).max(0) as usize;
            let mut data = Vec::with_capacity(w * n);
            for s in &slots {
                let b = as_bytes(&s.content);
                data.extend((0..w).map(|i| b.get(i).copied().unwrap_or(0)));
            }
            Arc::new(FixedSizeBinaryArray::try_new_with_len(w as i32, Buffer::from(data), nulls, n).expect("vf-kit data: fixed size binary"))
        }
        Utf8View | BinaryView => {
            let Layout::View { buffers, gap, share, spare } = &enc.layout else { unreachable!() };
            if matches!(dt, Utf8View) { view_arr::<adt::StringViewType>(&slots, nulls, *buffers, *gap, *share, *spare, r) } else { view_arr::<adt::BinaryViewType>(&slots, nulls, *buffers, *gap, *share, *spare, r) }
        }
        List(c) | LargeList(c) => {
            let Layout::List { lead, trail, child } = &enc.layout else { unreachable!() };
            if matches!(dt, List(_)) { list_arr::<i32>(c, &slots, nulls, *lead, *trail, child, r) } else { list_arr::<i64>(c, &slots, nulls, *lead, *trail, child, r) }
        }
        ListView(c) | LargeListView(c) => {
            let Layout::ListView { lead, gap, shuffle, share, child } = &enc.layout else { unreachable!() };
            if matches!(dt, ListView(_)) { list_view_arr::<i32>(c, &slots, nulls, *lead, *gap, *shuffle, *share, child, r) } else { list_view_arr::<i64>(c, &slots, nulls, *lead, *gap, *shuffle, *share, child, r) }
        }
        FixedSizeList(c, w) => {
            let Layout::FixedList { child } = &enc.layout else { unreachable!() };
            let w = (*w).max(0) as usize;
            let mut cv = Vec::with_capacity(w * n);
            for s in &slots {
                let l = as_list(&s.content);
                for i in 0..w {
                    cv.push(l.get(i).cloned().unwrap_or_else(|| if c.top_level_nullable() { Value::Null } else { default_content(c) }));
                }
            }
            let values = build(c, &cv, child, true);
            let field = Arc::new(Field::new("item", c.to_arrow(), true));
            Arc::new(FixedSizeListArray::try_new_with_length(field, w as i32, values, nulls, n).expect("vf-kit data: fixed size list"))
        }
        Struct(fs) => {
            let Layout::Struct { children } = &enc.layout else { unreachable!() };
            let mut arrays = vec![];
            for (i, ((_, cdt), cenc)) in fs.iter().zip(children).enumerate() {
                let cv: Vec<Value> = slots
                    .iter()
                    .map(|s| {
                        let v = as_list(&s.content).get(i).cloned().unwrap_or(Value::Null);
                        if v.is_null() && !cdt.top_level_nullable() { default_content(cdt) } else { v }
                    })
                    .collect();
                arrays.push(build(cdt, &cv, cenc, true));
            }
            Arc::new(StructArray::try_new_with_length(struct_fields(fs), arrays, nulls, n).expect("vf-kit data: struct array"))
        }
        Map(k, v) => {
            let Layout::Map { lead, trail, keys, values } = &enc.layout else { unreachable!() };
            let mut kv: Vec<Value> = vec![];
            let mut vv: Vec<Value> = vec![];
            for _ in 0..*lead {
                kv.push(junk_value(k, r, false, 1));
                vv.push(junk_value(v, r, true, 1));
            }
            let mut offs = vec![kv.len()];
            for s in &slots {
                if let Value::Map(es) = &s.content {
                    for (a, b) in es {
                        kv.push(if a.is_null() { default_content(k) } else { a.clone() });
                        vv.push(b.clone());
                    }
                }
                offs.push(kv.len());
            }
            for _ in 0..*trail {
                kv.push(junk_value(k, r, false, 1));
                vv.push(junk_value(v, r, true, 1));
            }
            let vv: Vec<Value> = if v.top_level_nullable() { vv } else { vv.into_iter().map(|x| if x.is_null() { default_content(v) } else { x }).collect() };
            let len = kv.len();
            let ka = build(k, &kv, keys, false);
            let va = build(v, &vv, values, true);
            let entries = StructArray::try_new_with_length(map_entries_fields(k, v), vec![ka, va], None, len).expect("vf-kit data: map entries");
            Arc::new(MapArray::try_new(map_entries_field(k, v), OffsetBuffer::new(offsets::<i32>(&offs)), entries, nulls, false).expect("vf-kit data: map array"))
        }
        Dictionary(..) | RunEndEncoded(..) | Union(..) => unreachable!("handled above"),
    }
}
