//! proptest strategies for dtypes, values, columns and encodings, plus `retype` and the self check.
use super::render::{Encoding, Layout, NullVia, int_range, pow10};
use super::*;
use crate::engine::pick_index;

/// Which data types `dtype_strategy` may produce.
#[derive(Clone, Debug)]
pub struct DTypeCfg {
    /// nesting levels above the leaves (0 = leaf types, possibly dictionary / REE wrapped)
    pub depth: u32,
    pub null_type: bool,
    pub floats: bool,
    pub decimals: bool,
    pub temporal: bool,
    pub intervals: bool,
    pub views: bool,
    pub fixed_binary: bool,
    pub dict: bool,
    pub ree: bool,
    pub lists: bool,
    pub list_views: bool,
    pub fixed_lists: bool,
    pub structs: bool,
    pub maps: bool,
    pub unions: bool,
    /// time zones to draw from for timestamps (besides none)
    pub time_zones: Vec<String>,
}

impl DTypeCfg {
    pub fn all(depth: u32) -> DTypeCfg {
        DTypeCfg {
            depth,
            null_type: true,
            floats: true,
            decimals: true,
            temporal: true,
            intervals: true,
            views: true,
            fixed_binary: true,
            dict: true,
            ree: true,
            lists: true,
            list_views: true,
            fixed_lists: true,
            structs: true,
            maps: true,
            unions: true,
            time_zones: vec!["UTC".into(), "+05:30".into(), "America/New_York".into()],
        }
    }
    /// leaf types only, no dictionary / REE
    pub fn leaves() -> DTypeCfg {
        DTypeCfg { dict: false, ree: false, ..DTypeCfg::all(0) }
    }
}

fn tunit() -> BoxedStrategy<TUnit> {
    prop::sample::select(vec![TUnit::S, TUnit::Ms, TUnit::Us, TUnit::Ns]).boxed()
}

fn decimal_ps(maxp: u8) -> BoxedStrategy<(u8, i8)> {
    (1..=maxp).prop_flat_map(move |p| (Just(p), prop_oneof![Just(0i8), 0..=(p as i8), Just(p as i8), -3i8..0])).boxed()
}

/// leaf (non-nested, non-wrapped) types
pub fn leaf_dtype_strategy(cfg: &DTypeCfg) -> BoxedStrategy<DType> {
    use DType::*;
    let mut v: Vec<(u32, BoxedStrategy<DType>)> = vec![
        (2, Just(Bool).boxed()),
        (6, prop::sample::select(vec![Int8, Int16, Int32, Int64, UInt8, UInt16, UInt32, UInt64]).boxed()),
        (6, prop::sample::select(vec![Utf8, LargeUtf8, Binary, LargeBinary]).boxed()),
    ];
    if cfg.null_type {
        v.push((1, Just(Null).boxed()));
    }
    if cfg.floats {
        v.push((4, prop::sample::select(vec![Float16, Float32, Float64]).boxed()));
    }
    if cfg.decimals {
        v.push((1, decimal_ps(9).prop_map(|(p, s)| Decimal32(p, s)).boxed()));
        v.push((1, decimal_ps(18).prop_map(|(p, s)| Decimal64(p, s)).boxed()));
        v.push((2, decimal_ps(38).prop_map(|(p, s)| Decimal128(p, s)).boxed()));
        v.push((1, decimal_ps(76).prop_map(|(p, s)| Decimal256(p, s)).boxed()));
    }
    if cfg.temporal {
        let tzs = cfg.time_zones.clone();
        let tz = if tzs.is_empty() { Just(None).boxed() } else { prop_oneof![Just(None), prop::sample::select(tzs).prop_map(Some)].boxed() };
        v.push((2, prop::sample::select(vec![Date32, Date64, Time32(TUnit::S), Time32(TUnit::Ms), Time64(TUnit::Us), Time64(TUnit::Ns)]).boxed()));
        v.push((3, (tunit(), tz).prop_map(|(u, tz)| Timestamp(u, tz)).boxed()));
        v.push((1, tunit().prop_map(Duration).boxed()));
    }
    if cfg.intervals {
        v.push((2, prop::sample::select(vec![IntervalYM, IntervalDT, IntervalMDN]).boxed()));
    }
    if cfg.views {
        v.push((5, prop::sample::select(vec![Utf8View, BinaryView]).boxed()));
    }
    if cfg.fixed_binary {
        v.push((1, prop::sample::select(vec![1i32, 2, 5, 16]).prop_map(FixedSizeBinary).boxed()));
    }
    proptest::strategy::Union::new_weighted(v).boxed()
}

fn key_width() -> BoxedStrategy<IntW> {
    prop::sample::select(vec![IntW::I8, IntW::I16, IntW::I32, IntW::I64, IntW::U8, IntW::U16, IntW::U32, IntW::U64]).boxed()
}
fn run_width() -> BoxedStrategy<IntW> {
    prop::sample::select(vec![IntW::I16, IntW::I32, IntW::I64]).boxed()
}

fn map_key_dtype(cfg: &DTypeCfg) -> BoxedStrategy<DType> {
    use DType::*;
    let mut v = vec![Int32, Int64, UInt8, Utf8, LargeUtf8, Binary];
    if cfg.views {
        v.push(Utf8View);
    }
    prop::sample::select(v).boxed()
}

/// Make the type tree legal: no Dictionary inside Dictionary, no REE directly inside REE / Dictionary,
/// no Union directly under Dictionary / REE / Union, no Null type under wrappers.
fn sanitize(d: DType) -> DType {
    use DType::*;
    let bx = |d: DType| Box::new(sanitize(d));
    match d {
        Dictionary(k, v) => match sanitize(*v) {
            Dictionary(_, x) | RunEndEncoded(_, x) => Dictionary(k, x),
            x @ (Union(..) | Null) => x,
            x => Dictionary(k, Box::new(x)),
        },
        RunEndEncoded(k, v) => match sanitize(*v) {
            RunEndEncoded(_, x) => RunEndEncoded(k, x),
            x @ (Union(..) | Null) => x,
            x => RunEndEncoded(k, Box::new(x)),
        },
        List(c) => List(bx(*c)),
        LargeList(c) => LargeList(bx(*c)),
        ListView(c) => ListView(bx(*c)),
        LargeListView(c) => LargeListView(bx(*c)),
        FixedSizeList(c, n) => FixedSizeList(bx(*c), n),
        Struct(fs) => Struct(fs.into_iter().map(|(n, d)| (n, sanitize(d))).collect()),
        Map(k, v) => Map(k, bx(*v)),
        Union(fs, dense) => Union(
            fs.into_iter()
                .map(|(i, n, d)| {
                    let d = match sanitize(d) {
                        Union(..) => Int32,
                        x => x,
                    };
                    (i, n, d)
                })
                .collect(),
            dense,
        ),
        x => x,
    }
}

/// Arrow data types according to `cfg` (type-directed, every result renders).
pub fn dtype_strategy(cfg: &DTypeCfg) -> BoxedStrategy<DType> {
    use DType::*;
    let leaf = leaf_dtype_strategy(cfg);
    let cfg = cfg.clone();
    let wrap = {
        let cfg = cfg.clone();
        move |inner: BoxedStrategy<DType>| -> BoxedStrategy<DType> {
            let mut v: Vec<(u32, BoxedStrategy<DType>)> = vec![(6, inner.clone())];
            if cfg.dict {
                v.push((2, (key_width(), inner.clone()).prop_map(|(k, d)| Dictionary(k, Box::new(d))).boxed()));
            }
            if cfg.ree {
                v.push((1, (run_width(), inner.clone()).prop_map(|(k, d)| RunEndEncoded(k, Box::new(d))).boxed()));
            }
            proptest::strategy::Union::new_weighted(v).boxed()
        }
    };
    let base = wrap(leaf);
    if cfg.depth == 0 {
        return base.prop_map(sanitize).boxed();
    }
    let cfg2 = cfg.clone();
    base.prop_recursive(cfg.depth, 12, 3, move |inner| {
        let cfg = &cfg2;
        let mut v: Vec<(u32, BoxedStrategy<DType>)> = vec![];
        if cfg.lists {
            v.push((3, inner.clone().prop_map(|d| List(Box::new(d))).boxed()));
            v.push((1, inner.clone().prop_map(|d| LargeList(Box::new(d))).boxed()));
        }
        if cfg.list_views {
            v.push((2, inner.clone().prop_map(|d| ListView(Box::new(d))).boxed()));
            v.push((1, inner.clone().prop_map(|d| LargeListView(Box::new(d))).boxed()));
        }
        if cfg.fixed_lists {
            v.push((2, (inner.clone(), 1..=3i32).prop_map(|(d, n)| FixedSizeList(Box::new(d), n)).boxed()));
        }
        if cfg.structs {
            v.push((3, prop::collection::vec(inner.clone(), 1..=3).prop_map(|ds| Struct(ds.into_iter().enumerate().map(|(i, d)| (format!("f{i}"), d)).collect())).boxed()));
        }
        if cfg.maps {
            v.push((2, (map_key_dtype(cfg), inner.clone()).prop_map(|(k, d)| Map(Box::new(k), Box::new(d))).boxed()));
        }
        if cfg.unions {
            let ids = prop::sample::select(vec![vec![0i8, 1, 2, 3], vec![0, 2, 5, 7], vec![3, 1, 0, 9], vec![1, 4, 6, 8]]);
            v.push((2, (prop::collection::vec(inner.clone(), 1..=4), ids, any::<bool>()).prop_map(|(ds, ids, dense)| Union(ds.into_iter().enumerate().map(|(i, d)| (ids[i], format!("u{i}"), d)).collect(), dense)).boxed()));
        }
        if v.is_empty() {
            return inner.boxed();
        }
        let nested = proptest::strategy::Union::new_weighted(v).boxed();
        // nested types may be dictionary / REE wrapped, too
        let mut w: Vec<(u32, BoxedStrategy<DType>)> = vec![(8, nested.clone())];
        if cfg.dict {
            w.push((1, (key_width(), nested.clone()).prop_map(|(k, d)| Dictionary(k, Box::new(d))).boxed()));
        }
        if cfg.ree {
            w.push((1, (run_width(), nested).prop_map(|(k, d)| RunEndEncoded(k, Box::new(d))).boxed()));
        }
        proptest::strategy::Union::new_weighted(w).boxed()
    })
    .prop_map(sanitize)
    .boxed()
}

// ---------------------------------------------------------------------------------------------
// values

const STRS: &[&str] = &[
    "",
    "a",
    "b",
    "ab",
    "abc",
    "A",
    " ",
    "é",
    "日本",
    "😀",
    "hello world!",          // 12 bytes: largest inline view
    "hello world!!",         // 13 bytes: smallest buffer-backed view
    "hello world!?",         // same length, same prefix
    "hello world, hello sun", // long
    "prefix-prefix-A",
    "prefix-prefix-B",
    "0123456789abcdefghijklmnopqrstuvwxyz0123456789",
    "\u{0}",
    "a\u{0}",
];

fn str_strategy() -> BoxedStrategy<String> {
    prop_oneof![
        6 => prop::sample::select(STRS.to_vec()).prop_map(|s| s.to_string()),
        2 => "[a-c]{0,16}",
        1 => "[a-zé日 ]{10,20}",
        1 => any::<String>().prop_map(|s| s.chars().take(20).collect::<String>()),
    ]
    .boxed()
}

fn bytes_strategy() -> BoxedStrategy<Vec<u8>> {
    prop_oneof![
        4 => prop::sample::select(STRS.to_vec()).prop_map(|s| s.as_bytes().to_vec()),
        2 => prop::collection::vec(prop::sample::select(vec![0u8, 1, 0x7f, 0x80, 0xff, b'a']), 0..18),
        1 => prop::collection::vec(any::<u8>(), 0..40),
    ]
    .boxed()
}

fn int_in(lo: i128, hi: i128) -> BoxedStrategy<Value> {
    let span = hi.wrapping_sub(lo) as u128;
    let mut picks = vec![lo, hi, lo.wrapping_add((span / 2) as i128)];
    for c in [0i128, 1, -1, 2, 1 << 53, (1 << 53) + 1, (1 << 53) - 1, i32::MAX as i128, i32::MIN as i128, i64::MAX as i128 - 1] {
        if c >= lo && c <= hi {
            picks.push(c);
        }
    }
    let near = move |d: u8| -> i128 { (lo.max(-3).min(hi) + d as i128).min(hi) };
    prop_oneof![
        3 => prop::sample::select(picks).prop_map(Value::Int),
        3 => (0u8..7).prop_map(move |d| Value::Int(near(d))),
        2 => any::<u128>().prop_map(move |x| Value::Int(if span == u128::MAX { x as i128 } else { lo.wrapping_add((x % (span + 1)) as i128) })),
    ]
    .boxed()
}

fn float_strategy(dt: &DType) -> BoxedStrategy<Value> {
    let special = prop::sample::select(vec![0.0f64, -0.0, 1.0, -1.0, 0.5, 2.0, 1.5, f64::NAN, f64::INFINITY, f64::NEG_INFINITY, 65504.0, -65504.0, 16777216.0, 9007199254740992.0]);
    let any_bits: BoxedStrategy<f64> = match dt {
        DType::Float16 => any::<u16>().prop_map(|b| f16::from_bits(b).to_f64()).boxed(),
        DType::Float32 => any::<u32>().prop_map(|b| f32::from_bits(b) as f64).boxed(),
        _ => any::<u64>().prop_map(f64::from_bits).boxed(),
    };
    let dt = dt.clone();
    prop_oneof![4 => special, 2 => (-4i32..5).prop_map(|i| i as f64 / 2.0), 2 => any_bits]
        .prop_map(move |f| {
            // keep exactly what the column type can hold, so that read-back equals the spec
            Value::Float(match dt {
                DType::Float16 => f16::from_f64(f).to_f64(),
                DType::Float32 => (f as f32) as f64,
                _ => f,
            })
        })
        .boxed()
}

/// Non-NULL values of the (logical) type; nested values may contain NULLs inside.
pub fn nonnull_value_strategy(dt: &DType) -> BoxedStrategy<Value> {
    use DType::*;
    match dt {
        Null => Just(Value::Null).boxed(),
        Bool => any::<bool>().prop_map(Value::Bool).boxed(),
        Float16 | Float32 | Float64 => float_strategy(dt),
        Decimal256(p, _) => {
            let p = *p;
            prop_oneof![
                3 => int_in(-(pow10(p.min(38)) - 1), pow10(p.min(38)) - 1).prop_map(|v| match v { Value::Int(i) => Value::i256(i256::from_i128(i)), x => x }),
                1 => (any::<i128>(), any::<u128>()).prop_map(move |(hi, lo)| {
                    // any 256-bit pattern reduced into the precision
                    let mut m = i256::from_i128(1);
                    for _ in 0..p { m = m.wrapping_mul(i256::from_i128(10)); }
                    Value::i256(i256::from_parts(lo, hi).wrapping_rem(m))
                }),
            ]
            .boxed()
        }
        IntervalDT => prop_oneof![
            2 => (-2i32..3, -2i32..3).prop_map(|(d, m)| Value::DayTime(d, m)),
            1 => (any::<i32>(), any::<i32>()).prop_map(|(d, m)| Value::DayTime(d, m)),
        ]
        .boxed(),
        IntervalMDN => prop_oneof![
            2 => (-1i32..2, -1i32..2, -1i64..2).prop_map(|(a, b, c)| Value::MonthDayNano(a, b, c)),
            1 => (any::<i32>(), any::<i32>(), any::<i64>()).prop_map(|(a, b, c)| Value::MonthDayNano(a, b, c)),
        ]
        .boxed(),
        Utf8 | LargeUtf8 | Utf8View => str_strategy().prop_map(Value::Str).boxed(),
        Binary | LargeBinary | BinaryView => bytes_strategy().prop_map(Value::Bytes).boxed(),
        FixedSizeBinary(n) => prop::collection::vec(prop::sample::select(vec![0u8, 1, b'a', 0x80, 0xff]), *n as usize).prop_map(Value::Bytes).boxed(),
        List(c) | LargeList(c) | ListView(c) | LargeListView(c) => prop::collection::vec(value_strategy(c), 0..4).prop_map(Value::List).boxed(),
        FixedSizeList(c, n) => prop::collection::vec(value_strategy(c), *n as usize).prop_map(Value::List).boxed(),
        Struct(fs) => fs.iter().map(|(_, d)| value_strategy(d)).collect::<Vec<_>>().prop_map(Value::Struct).boxed(),
        Map(k, v) => prop::collection::vec((nonnull_value_strategy(k), value_strategy(v)), 0..3)
            .prop_map(|es| {
                let mut out: Vec<(Value, Value)> = vec![];
                for (k, v) in es {
                    if !out.iter().any(|(k2, _)| *k2 == k) {
                        out.push((k, v));
                    }
                }
                Value::Map(out)
            })
            .boxed(),
        Union(fs, _) => {
            let alts: Vec<BoxedStrategy<Value>> = fs
                .iter()
                .map(|(id, _, d)| {
                    let id = *id;
                    value_strategy(d).prop_map(move |v| Value::Union(id, Box::new(v))).boxed()
                })
                .collect();
            proptest::strategy::Union::new(alts).boxed()
        }
        Dictionary(_, v) | RunEndEncoded(_, v) => nonnull_value_strategy(v),
        _ => {
            let (lo, hi) = int_range(dt);
            int_in(lo, hi)
        }
    }
}

/// Values of the type, NULL about one time in four (never for Union columns; always for Null columns).
pub fn value_strategy(dt: &DType) -> BoxedStrategy<Value> {
    if matches!(dt.logical(), DType::Null) {
        return Just(Value::Null).boxed();
    }
    if !dt.top_level_nullable() {
        return nonnull_value_strategy(dt);
    }
    prop_oneof![1 => Just(Value::Null), 3 => nonnull_value_strategy(dt)].boxed()
}

/// Row values for a column of `dt` with `rows` rows: mostly drawn from a pool of 1–5 values
/// (duplicate- and NULL-heavy), sometimes independent.
pub fn values_strategy(dt: &DType, rows: std::ops::RangeInclusive<usize>) -> BoxedStrategy<Vec<Value>> {
    let pooled = (prop::collection::vec(value_strategy(dt), 1..=5), prop::collection::vec(any::<u16>(), rows.clone())).prop_map(|(pool, picks)| picks.into_iter().map(|p| pool[pick_index(p, pool.len())].clone()).collect::<Vec<_>>());
    let free = prop::collection::vec(value_strategy(dt), rows);
    prop_oneof![3 => pooled, 1 => free].boxed()
}

pub fn column_strategy(dt: &DType, rows: std::ops::RangeInclusive<usize>) -> BoxedStrategy<ColumnSpec> {
    let dt = dt.clone();
    values_strategy(&dt, rows).prop_map(move |values| ColumnSpec { dtype: dt.clone(), values }).boxed()
}

// ---------------------------------------------------------------------------------------------
// encodings

fn small_pad() -> BoxedStrategy<u8> {
    prop_oneof![3 => Just(0u8), 2 => 1u8..4, 1 => prop::sample::select(vec![7u8, 8, 9])].boxed()
}

/// A layout for `dt`; about one in five is the plain layout at each level.
pub fn encoding_strategy(dt: &DType) -> BoxedStrategy<Encoding> {
    use DType::*;
    let b = |e: Encoding| Box::new(e);
    let layout: BoxedStrategy<Layout> = match dt {
        Utf8View | BinaryView => (1u8..4, 0u8..4, any::<bool>(), any::<bool>()).prop_map(|(buffers, gap, share, spare)| Layout::View { buffers, gap, share, spare }).boxed(),
        Dictionary(_, v) => (0u8..3, 0u8..3, any::<bool>(), prop::sample::select(vec![NullVia::Key, NullVia::Value, NullVia::Mixed]), encoding_strategy(v))
            .prop_map(move |(dup, unused, shuffle, null_via, values)| Layout::Dict { dup, unused, shuffle, null_via, values: b(values) })
            .boxed(),
        RunEndEncoded(_, v) => (prop::collection::vec(any::<u16>(), 0..4), encoding_strategy(v)).prop_map(move |(cuts, values)| Layout::Ree { cuts, values: b(values) }).boxed(),
        List(c) | LargeList(c) => (small_pad(), small_pad(), encoding_strategy(c)).prop_map(move |(lead, trail, child)| Layout::List { lead, trail, child: b(child) }).boxed(),
        ListView(c) | LargeListView(c) => (small_pad(), 0u8..3, any::<bool>(), any::<bool>(), encoding_strategy(c)).prop_map(move |(lead, gap, shuffle, share, child)| Layout::ListView { lead, gap, shuffle, share, child: b(child) }).boxed(),
        FixedSizeList(c, _) => encoding_strategy(c).prop_map(move |child| Layout::FixedList { child: b(child) }).boxed(),
        Struct(fs) => fs.iter().map(|(_, d)| encoding_strategy(d)).collect::<Vec<_>>().prop_map(|children| Layout::Struct { children }).boxed(),
        Map(k, v) => (small_pad(), small_pad(), encoding_strategy(k), encoding_strategy(v)).prop_map(move |(lead, trail, keys, values)| Layout::Map { lead, trail, keys: b(keys), values: b(values) }).boxed(),
        Union(fs, _) => (0u8..3, fs.iter().map(|(_, _, d)| encoding_strategy(d)).collect::<Vec<_>>()).prop_map(|(gap, children)| Layout::Union { gap, children }).boxed(),
        _ => Just(Layout::Flat).boxed(),
    };
    let plain = Encoding::plain(dt);
    let plain_layout = plain.layout.clone();
    let varied = (small_pad(), small_pad(), any::<bool>(), any::<bool>(), any::<u32>(), prop_oneof![1 => Just(plain_layout), 4 => layout]).prop_map(|(pad_before, pad_after, explicit_validity, junk, seed, layout)| Encoding { pad_before, pad_after, explicit_validity, junk, seed, layout });
    prop_oneof![1 => Just(plain), 5 => varied].boxed()
}

// ---------------------------------------------------------------------------------------------
// retype

/// Data types that can hold exactly the same logical values as `dt` (including `dt` itself): string and
/// binary flavours are swapped, list flavours are swapped, and any non-Union type may be wrapped into a
/// Dictionary or RunEndEncoded. `ColumnSpec{dtype: retyped, values: same}` is the same logical column.
pub fn retype_strategy(dt: &DType) -> BoxedStrategy<DType> {
    use DType::*;
    let inner: BoxedStrategy<DType> = match dt.clone() {
        Utf8 | LargeUtf8 | Utf8View => prop::sample::select(vec![Utf8, LargeUtf8, Utf8View]).boxed(),
        Binary | LargeBinary | BinaryView => prop::sample::select(vec![Binary, LargeBinary, BinaryView]).boxed(),
        List(c) | LargeList(c) | ListView(c) | LargeListView(c) => (retype_strategy(&c), 0u8..4)
            .prop_map(|(c, k)| match k {
                0 => List(Box::new(c)),
                1 => LargeList(Box::new(c)),
                2 => ListView(Box::new(c)),
                _ => LargeListView(Box::new(c)),
            })
            .boxed(),
        FixedSizeList(c, n) => retype_strategy(&c).prop_map(move |c| FixedSizeList(Box::new(c), n)).boxed(),
        Struct(fs) => {
            let names: Vec<String> = fs.iter().map(|(n, _)| n.clone()).collect();
            fs.iter().map(|(_, d)| retype_strategy(d)).collect::<Vec<_>>().prop_map(move |ds| Struct(names.iter().cloned().zip(ds).collect())).boxed()
        }
        Map(k, v) => retype_strategy(&v).prop_map(move |v| Map(k.clone(), Box::new(v))).boxed(),
        Dictionary(_, v) | RunEndEncoded(_, v) => retype_strategy(&v),
        other => Just(other).boxed(),
    };
    (inner, 0u8..6, key_width(), run_width())
        .prop_map(|(d, w, k, r)| match (w, &d) {
            (_, Union(..) | Null) => d,
            (0, Dictionary(..) | RunEndEncoded(..)) | (1, RunEndEncoded(..)) => d,
            (0, _) => Dictionary(k, Box::new(d)),
            (1, _) => RunEndEncoded(r, Box::new(d)),
            _ => d,
        })
        .boxed()
}

// ---------------------------------------------------------------------------------------------
// self check

/// Render the column under the encoding, validate the Arrow array fully and read it back; `Err` names the
/// first disagreement. Used by the harness' own tests of this module.
pub fn self_check(col: &ColumnSpec, enc: &Encoding) -> Result<(), String> {
    let arr = super::render::render(col, enc);
    if arr.data_type() != &col.dtype.to_arrow() {
        return Err(format!("data type {} instead of {}", arr.data_type(), col.dtype.to_arrow()));
    }
    if arr.len() != col.values.len() {
        return Err(format!("length {} instead of {}", arr.len(), col.values.len()));
    }
    arr.to_data().validate_full().map_err(|e| format!("invalid array: {e}"))?;
    let back = array_to_values(arr.as_ref());
    for (i, (a, b)) in back.iter().zip(&col.values).enumerate() {
        if a != b {
            return Err(format!("row {i}: read back {a:?}, expected {b:?}"));
        }
    }
    Ok(())
}

#[cfg(test)]
mod tests {
    use super::*;
    use proptest::test_runner::{Config, RngSeed, TestRunner};

    #[test]
    fn render_round_trips() {
        let strat = dtype_strategy(&DTypeCfg::all(2)).prop_flat_map(|dt| (column_strategy(&dt, 0..=20), encoding_strategy(&dt)));
        let mut runner = TestRunner::new(Config { cases: 3000, rng_seed: RngSeed::Fixed(7), failure_persistence: None, ..Config::default() });
        runner
            .run(&strat, |(col, enc)| {
                self_check(&col, &enc).map_err(proptest::test_runner::TestCaseError::fail)?;
                let js = serde_json::to_string(&(&col, &enc)).unwrap();
                let (c2, e2): (ColumnSpec, Encoding) = serde_json::from_str(&js).map_err(|e| proptest::test_runner::TestCaseError::fail(format!("json: {e} in {js}")))?;
                if c2 != col || e2 != enc {
                    return Err(proptest::test_runner::TestCaseError::fail(format!("json round trip changed the case: {js}")));
                }
                Ok(())
            })
            .unwrap();
    }

    #[test]
    fn retype_keeps_values() {
        let strat = dtype_strategy(&DTypeCfg::all(1)).prop_flat_map(|dt| (values_strategy(&dt, 0..=12), retype_strategy(&dt))).prop_flat_map(|(values, dt)| {
            let e = encoding_strategy(&dt);
            (Just(ColumnSpec { dtype: dt, values }), e)
        });
        let mut runner = TestRunner::new(Config { cases: 1500, rng_seed: RngSeed::Fixed(11), failure_persistence: None, ..Config::default() });
        runner.run(&strat, |(col, enc)| self_check(&col, &enc).map_err(proptest::test_runner::TestCaseError::fail)).unwrap();
    }
}
