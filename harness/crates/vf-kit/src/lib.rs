//! Shared kit of the verification harness: engine, generators, reference evaluators, scheduler.
pub mod data;
pub mod engine;
pub mod refsql;
pub mod sched;
pub use engine::{Budget, CaseResult, Outcome, Property, Tier};
pub fn hello() {}
