//! Shared kit of the verification harness: engine, generators, reference evaluators, scheduler.
pub mod engine;
pub mod sched;
pub use engine::{Budget, CaseResult, Outcome, Property, Tier};
pub fn hello() {}
