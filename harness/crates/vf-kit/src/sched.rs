//! Harness-owned **baton scheduler** (DESIGN.md §3.7, B.2, B.3) — used by C15, C16, C17, C31b.
//!
//! A *run* executes a handful of **actors** (closures, each on its own OS thread — taken from a
//! per-caller pool of worker threads that is reused across runs and pinned to the caller's CPU) of which exactly
//! one — the baton holder — executes at any time. The baton changes hands only inside the
//! scheduler's entry points: [`yield_point`] / [`blocked`] (called by the synchronisation shims of
//! the code under test), [`ActorCtx::park`] (a future returned `Pending`), [`ActorCtx::yield_now`]
//! (explicit harness-level yield) and the end of an actor. Which actor runs next is decided by a
//! generated [`Schedule`]; a run is a **pure function of the actors' code and the `Schedule`**
//! (no clock, no OS scheduling influence), so a saved case replays identically.
//!
//! # API in one screen
//!
//! ```ignore
//! // (1) once per crate that links datafusion: expands to `fn verif_install()` which installs a
//! //     `datafusion_common::verif::Sched` adapter forwarding to `vf_kit::sched::{yield_point, blocked}`.
//! vf_kit::df_sched_adapter!();
//!
//! // (2) the case carries a schedule (plain serde data, shrinks towards "no preemption, round robin")
//! #[derive(Clone, Debug, Serialize, Deserialize)]
//! struct Case { /* ... */ schedule: sched::Schedule }
//! fn strategy() -> impl Strategy<Value = Schedule> { Schedule::strategy(3 /*≤ preemptions*/, 40 /*max gap*/, 12 /*forced choices*/) }
//!
//! // (3) inside Property::run
//! let history = std::sync::Mutex::new(vec![]);            // shared state may be borrowed: threads are scoped
//! let actors = vec![
//!     Actor::new("sender0", |ctx: &ActorCtx| { let r = ctx.block_on(tx.send(1)); history.lock().unwrap().push(..); drop(tx); }),
//!     Actor::new("recv0",   |ctx: &ActorCtx| { while let Some(v) = ctx.block_on(rx.recv()) { .. } }),
//! ];
//! let report = sched::run(&case.schedule, &Options::default(), &verif_install, actors);
//! match &report.verdict {
//!     Verdict::Completed       => { /* check the history oracle */ }
//!     Verdict::Deadlock{..}    => return CaseResult::violation(report.describe(40)),  // logical deadlock / lost wake-up
//!     Verdict::StepLimit       => return CaseResult::inconclusive("step limit"),
//! }
//! if let Some(p) = report.panics.first() { /* a panic inside an actor: p.message, p.location */ }
//!
//! // (4) optional: enumerate *all* schedules of a small configuration (Property::extra)
//! let stats = sched::explore(&Bounds{ max_preemptions: 2, max_forced_deviations: 1, max_runs: 200_000 },
//!                            |schedule| { let r = run_case(schedule); oracle(&r)?; Ok(r) })?;   // Err carries the failing Schedule
//! ```
//!
//! * [`Actor::new(name, closure)`](Actor::new) — the closure gets an [`ActorCtx`]. Everything an actor owns (senders,
//!   receivers, reservations…) must be **moved into / dropped inside the closure** so that the `Drop`
//!   code runs under the baton. Objects dropped by the calling thread after `run` returned run
//!   un-instrumented (no scheduler installed there), which is fine for clean-up.
//! * [`ActorCtx::block_on(fut)`](ActorCtx::block_on) polls `fut` with a waker that marks the actor runnable; on `Pending`
//!   the actor parks (a forced switch). [`ActorCtx::poll`] + [`ActorCtx::park`] are the two halves for
//!   actors that want to do something between a `Pending` and parking (drop the future, flush
//!   outstanding I/O, …). [`ActorCtx::yield_now(label)`](ActorCtx::yield_now) is a harness-level preemption point
//!   (put one between script operations); [`ActorCtx::note`] adds a line to the trace.
//! * [`run`] returns a [`Report`]: [`Verdict`], the full trace (`actor, op, file:line`), the indices
//!   of the trace events at which a preemption happened, the decision log, per-actor park counts,
//!   panics captured inside actors.
//!
//! # Scheduling semantics
//!
//! *Decision points.* (a) **Preemptible**: the current actor reaches `yield_point`/`yield_now`
//! (or `park` with a wake already recorded) and could continue; option 0 = continue, option k =
//! switch to the k-th other candidate (a *preemption*). (b) **Forced**: the current actor cannot
//! continue (parked, lock-blocked, finished); option k = k-th candidate. Candidates are listed
//! round-robin starting after the current actor, so option 0 is always the "fair default".
//! A decision is logged only where more than one option exists.
//!
//! *Candidates* = runnable actors ∪ lock-blocked actors for which somebody else has executed code
//! since their `try_lock` failed (only then can the lock have been released).
//!
//! *Schedule interpretation* (PCT-style, bounded preemptions): `Schedule.preempt` is a list of
//! `(gap, pick)`: skip `gap` preemptible decision points, then preempt to candidate
//! `pick·n >> 8`; at most `preempt.len()` preemptions happen, afterwards the current actor always
//! continues. `Schedule.forced` is consumed one byte per forced decision (`byte·n >> 8`), and
//! exhausted → option 0 (round robin). Both mappings are monotone, so shrinking a schedule removes
//! preemptions, moves them earlier and reverts forced choices to round robin.
//! (Deviation from DESIGN §3.7, which sketched a single `Vec<u8>` consumed at every preemptible
//! point: with ~100 yield points per run a byte per point concentrates all preemptions at the
//! very start of the run; the `(gap, pick)` form places them uniformly and shrinks better.)
//!
//! *Verdicts.* `Completed`: every actor finished. `Deadlock`: no candidate exists and some actor
//! is not finished — every live actor is parked without a pending wake, or spins on a lock whose
//! holder cannot run. This is a *logical* state, not a timeout. `StepLimit`: more than
//! `Options::step_limit` scheduling steps (→ the property reports `inconclusive`).
//! After `Deadlock`/`StepLimit` the remaining actors are torn down by unwinding their stacks with a
//! private payload (`resume_unwind`, invisible to panic hooks); while that happens the hooks are
//! no-ops. Destructors of the code under test therefore still run, but un-scheduled.
//!
//! *Wakes from foreign threads* (e.g. tokio's blocking pool completing file I/O) are accepted at any
//! time, but deadlock detection is only sound if no such wake can be outstanding when an actor
//! parks: an actor that polls I/O-backed futures must quiesce the I/O source between `poll`
//! returning `Pending` and `park()`, and must use [`ActorCtx::take_wake`] so that the timing of the
//! I/O wake never turns into a scheduling step (see vf-chan `c16` for the tokio recipe).
//!
//! *Memory model.* The scheduler is sequentially consistent: it decides which actor performs the
//! next shared access, not how hardware reorders `Relaxed` operations.
//!
//! *Threads without an actor context* (the thread calling `run`, tokio workers…): [`yield_point`]
//! is a no-op and [`blocked`] is `std::thread::yield_now()`, i.e. the shims behave like plain locks.

use proptest::prelude::*;
use serde::{Deserialize, Serialize};
use std::any::Any;
use std::borrow::Cow;
use std::cell::RefCell;
use std::future::Future;
use std::panic::{AssertUnwindSafe, catch_unwind, resume_unwind};
use std::pin::Pin;
use std::sync::{Arc, Condvar, Mutex, MutexGuard, Once};
use std::task::{Context, Poll, Wake, Waker};

// ---------------------------------------------------------------------------------------------
// schedule (case data)

/// One preemption: skip `gap` preemptible decision points, then switch to candidate `pick·n >> 8`.
#[derive(Clone, Copy, Debug, Default, PartialEq, Eq, Serialize, Deserialize)]
pub struct Preempt {
    pub gap: u16,
    pub pick: u8,
}

/// The generated part of a run: where to preempt and how to resolve forced switches.
#[derive(Clone, Debug, Default, PartialEq, Eq, Serialize, Deserialize)]
pub struct Schedule {
    pub preempt: Vec<Preempt>,
    pub forced: Vec<u8>,
}

impl Schedule {
    /// Generator: 0..=`max_preemptions` preemptions with gaps in `0..=max_gap`, and
    /// 0..=`max_forced` forced-choice bytes (biased to 0 = round robin).
    pub fn strategy(max_preemptions: usize, max_gap: u16, max_forced: usize) -> BoxedStrategy<Schedule> {
        let gap = prop_oneof![3 => 0..=max_gap, 1 => 0..=(max_gap / 4).max(1)];
        let pre = prop::collection::vec((gap, any::<u8>()).prop_map(|(gap, pick)| Preempt { gap, pick }), 0..=max_preemptions);
        let forced = prop::collection::vec(prop_oneof![2 => Just(0u8), 3 => any::<u8>()], 0..=max_forced);
        (pre, forced).prop_map(|(preempt, forced)| Schedule { preempt, forced }).boxed()
    }
}

/// Run options.
#[derive(Clone, Debug)]
pub struct Options {
    /// maximum number of scheduling steps (yield points + blocks + parks) before `StepLimit`
    pub step_limit: u64,
}

impl Default for Options {
    fn default() -> Self {
        Options { step_limit: 20_000 }
    }
}

// ---------------------------------------------------------------------------------------------
// report

#[derive(Clone, Debug, PartialEq, Eq)]
pub struct TraceEvent {
    pub actor: usize,
    pub op: Cow<'static, str>,
    pub file: &'static str,
    pub line: u32,
}

#[derive(Clone, Copy, Debug, PartialEq, Eq)]
pub enum ActorStatus {
    Runnable,
    /// spinning on a lock; `stale` = nobody else has run since the last failed attempt
    LockBlocked { stale: bool },
    Parked,
    Done,
}

#[derive(Clone, Debug, PartialEq, Eq)]
pub struct ActorInfo {
    pub name: String,
    pub status: ActorStatus,
    /// last trace event of this actor (index into `Report::trace`)
    pub last_event: Option<usize>,
}

#[derive(Clone, Debug, PartialEq, Eq)]
pub enum Verdict {
    Completed,
    /// nobody can run and somebody is not finished (logical deadlock / lost wake-up)
    Deadlock { states: Vec<ActorInfo> },
    StepLimit,
}

/// One logged decision (only points with more than one option are logged).
#[derive(Clone, Copy, Debug, PartialEq, Eq)]
pub struct Decision {
    pub preemptible: bool,
    pub options: u8,
    pub chosen: u8,
}

#[derive(Clone, Debug, PartialEq, Eq)]
pub struct ActorPanic {
    pub actor: usize,
    pub message: String,
    /// `file:line:col` of the panic (empty if unknown)
    pub location: String,
}

#[derive(Clone, Debug)]
pub struct Report {
    pub verdict: Verdict,
    pub actor_names: Vec<String>,
    pub trace: Vec<TraceEvent>,
    /// indices into `trace` of the events at which the running actor was preempted
    pub preemptions: Vec<usize>,
    pub decisions: Vec<Decision>,
    pub steps: u64,
    /// number of times each actor parked (poll returned `Pending` with no wake recorded)
    pub parks: Vec<u32>,
    pub panics: Vec<ActorPanic>,
}

impl Report {
    pub fn completed(&self) -> bool {
        self.verdict == Verdict::Completed
    }
    /// human-readable verdict + the last `last_n` trace events
    pub fn describe(&self, last_n: usize) -> String {
        let mut s = String::new();
        match &self.verdict {
            Verdict::Completed => s.push_str("completed"),
            Verdict::StepLimit => s.push_str("step limit reached"),
            Verdict::Deadlock { states } => {
                s.push_str("DEADLOCK (no actor can run, no wake pending):");
                for (i, a) in states.iter().enumerate() {
                    let at = a.last_event.map(|e| self.fmt_event(e)).unwrap_or_default();
                    s.push_str(&format!("\n  actor {i} {:<10} {:?} last: {at}", a.name, a.status));
                }
            }
        }
        for p in &self.panics {
            s.push_str(&format!("\n  PANIC in actor {} ({}) at {}: {}", p.actor, self.actor_names[p.actor], p.location, p.message));
        }
        s.push_str(&format!("\n  steps={} preemptions={} trace (last {last_n}):", self.steps, self.preemptions.len()));
        let from = self.trace.len().saturating_sub(last_n);
        for i in from..self.trace.len() {
            let mark = if self.preemptions.contains(&i) { " <preempted>" } else { "" };
            s.push_str(&format!("\n    {i:4} {}{mark}", self.fmt_event(i)));
        }
        s
    }
    fn fmt_event(&self, i: usize) -> String {
        let e = &self.trace[i];
        let name = self.actor_names.get(e.actor).map(|s| s.as_str()).unwrap_or("?");
        if e.file.is_empty() { format!("{name}: {}", e.op) } else { format!("{name}: {} @ {}:{}", e.op, short_file(e.file), e.line) }
    }
    /// true if the event at `trace[i]` comes from the code under test (a shim call), not from the harness
    pub fn is_code_event(&self, i: usize) -> bool {
        !self.trace[i].file.is_empty()
    }
}

fn short_file(f: &str) -> &str {
    match f.rfind("/src/") {
        Some(p) => {
            let head = &f[..p];
            let start = head.rfind('/').map(|x| x + 1).unwrap_or(0);
            &f[start..]
        }
        None => f,
    }
}

// ---------------------------------------------------------------------------------------------
// world

struct Slot {
    name: String,
    status: Status,
    /// a wake arrived while the actor was not parked; consumed by the next `park`
    woken: bool,
    last_event: Option<usize>,
    parks: u32,
}

#[derive(Clone, Copy, PartialEq, Eq, Debug)]
enum Status {
    Runnable,
    LockBlocked { stale: bool },
    Parked,
    Done,
}

struct World {
    slots: Vec<Slot>,
    current: Option<usize>,
    abort: bool,
    verdict: Option<Verdict>,
    // schedule interpretation
    schedule: Schedule,
    pi: usize,
    gap_left: u16,
    fi: usize,
    // log
    steps: u64,
    step_limit: u64,
    trace: Vec<TraceEvent>,
    preemptions: Vec<usize>,
    decisions: Vec<Decision>,
    panics: Vec<ActorPanic>,
}

struct Shared {
    world: Mutex<World>,
    cvs: Vec<Condvar>,
}

impl Shared {
    fn lock(&self) -> MutexGuard<'_, World> {
        self.world.lock().unwrap_or_else(|e| e.into_inner())
    }
}

struct AbortUnwind;

thread_local! {
    static ACTOR: RefCell<Option<(Arc<Shared>, usize)>> = const { RefCell::new(None) };
    static ACTOR_PANIC: RefCell<Option<(String, String)>> = const { RefCell::new(None) };
}

fn scale(b: u8, n: usize) -> usize {
    ((b as usize) * n) >> 8
}

/// smallest byte that `scale` maps to `k` of `n`
fn unscale(k: usize, n: usize) -> u8 {
    debug_assert!(k < n && n <= 256);
    ((k * 256).div_ceil(n)).min(255) as u8
}

impl World {
    fn candidates_after(&self, me: Option<usize>, include_me: bool) -> Vec<usize> {
        let n = self.slots.len();
        let start = me.map(|m| m + 1).unwrap_or(0);
        let mut out = Vec::with_capacity(n);
        for k in 0..n {
            let i = (start + k) % n;
            if Some(i) == me && !include_me {
                continue;
            }
            match self.slots[i].status {
                Status::Runnable | Status::LockBlocked { stale: false } => out.push(i),
                _ => {}
            }
        }
        out
    }

    fn event(&mut self, actor: usize, op: Cow<'static, str>, file: &'static str, line: u32) -> usize {
        self.trace.push(TraceEvent { actor, op, file, line });
        let i = self.trace.len() - 1;
        self.slots[actor].last_event = Some(i);
        i
    }

    /// somebody other than the stale lock-blocked actors executed code: their lock may be free now
    fn progress(&mut self, by: usize) {
        for (i, s) in self.slots.iter_mut().enumerate() {
            if i != by {
                if let Status::LockBlocked { stale: true } = s.status {
                    s.status = Status::LockBlocked { stale: false };
                }
            }
        }
    }

    /// preemptible decision for running actor `me`; returns the actor to run next
    fn decide_preemptible(&mut self, me: usize, ev: usize) -> usize {
        let others = self.candidates_after(Some(me), false);
        if others.is_empty() {
            return me;
        }
        let mut chosen = 0usize;
        if self.pi < self.schedule.preempt.len() {
            if self.gap_left == 0 {
                chosen = 1 + scale(self.schedule.preempt[self.pi].pick, others.len());
                self.pi += 1;
                self.gap_left = self.schedule.preempt.get(self.pi).map(|p| p.gap).unwrap_or(0);
            } else {
                self.gap_left -= 1;
            }
        }
        self.decisions.push(Decision { preemptible: true, options: (others.len() + 1).min(255) as u8, chosen: chosen as u8 });
        if chosen == 0 {
            me
        } else {
            self.preemptions.push(ev);
            others[chosen - 1]
        }
    }

    /// forced decision (current actor cannot continue); None = nobody can run
    fn decide_forced(&mut self, me: Option<usize>) -> Option<usize> {
        let cands = self.candidates_after(me, false);
        match cands.len() {
            0 => None,
            1 => Some(cands[0]),
            n => {
                let b = match self.schedule.forced.get(self.fi) {
                    Some(b) => {
                        self.fi += 1;
                        *b
                    }
                    None => 0,
                };
                let k = scale(b, n);
                self.decisions.push(Decision { preemptible: false, options: n.min(255) as u8, chosen: k as u8 });
                Some(cands[k])
            }
        }
    }

    fn all_done(&self) -> bool {
        self.slots.iter().all(|s| s.status == Status::Done)
    }

    fn infos(&self) -> Vec<ActorInfo> {
        self.slots
            .iter()
            .map(|s| ActorInfo {
                name: s.name.clone(),
                status: match s.status {
                    Status::Runnable => ActorStatus::Runnable,
                    Status::LockBlocked { stale } => ActorStatus::LockBlocked { stale },
                    Status::Parked => ActorStatus::Parked,
                    Status::Done => ActorStatus::Done,
                },
                last_event: s.last_event,
            })
            .collect()
    }
}

impl Shared {
    fn start_abort(&self, w: &mut World, verdict: Verdict) {
        if w.verdict.is_none() {
            w.verdict = Some(verdict);
        }
        w.abort = true;
        w.current = None;
        for cv in &self.cvs {
            cv.notify_all();
        }
    }

    /// Hand the baton to `next` (≠ me) and wait until it comes back. Returns false on abort.
    fn switch_and_wait<'a>(&'a self, mut w: MutexGuard<'a, World>, me: usize, next: usize) -> (MutexGuard<'a, World>, bool) {
        w.current = Some(next);
        self.cvs[next].notify_all();
        self.wait_turn(w, me)
    }

    fn wait_turn<'a>(&'a self, mut w: MutexGuard<'a, World>, me: usize) -> (MutexGuard<'a, World>, bool) {
        loop {
            if w.abort {
                return (w, false);
            }
            if w.current == Some(me) {
                return (w, true);
            }
            w = self.cvs[me].wait(w).unwrap_or_else(|e| e.into_inner());
        }
    }

    /// count a step; true if the limit is now exceeded (abort started)
    fn step(&self, w: &mut World) -> bool {
        w.steps += 1;
        if w.steps > w.step_limit {
            self.start_abort(w, Verdict::StepLimit);
            true
        } else {
            false
        }
    }
}

/// leave the actor by unwinding (abort mode) unless the thread is already unwinding
fn abort_exit() {
    if !std::thread::panicking() {
        resume_unwind(Box::new(AbortUnwind));
    }
}

fn with_actor<R>(f: impl FnOnce(&Arc<Shared>, usize) -> R) -> Option<R> {
    ACTOR.with(|a| {
        let b = a.borrow();
        b.as_ref().map(|(s, i)| (s.clone(), *i))
    })
    .map(|(s, i)| f(&s, i))
}

fn yield_impl(op: Cow<'static, str>, file: &'static str, line: u32) {
    with_actor(|sh, me| {
        let mut w = sh.lock();
        if w.abort {
            drop(w);
            abort_exit();
            return;
        }
        if w.current != Some(me) {
            return; // not ours (should not happen); behave like an un-instrumented thread
        }
        if std::thread::panicking() {
            // unwinding actor: keep the baton, do not reschedule inside destructors
            return;
        }
        let ev = w.event(me, op, file, line);
        w.progress(me);
        if sh.step(&mut w) {
            drop(w);
            abort_exit();
            return;
        }
        let next = w.decide_preemptible(me, ev);
        if next != me {
            let (w, ok) = sh.switch_and_wait(w, me, next);
            drop(w);
            if !ok {
                abort_exit();
            }
        }
    });
}

/// Entry point for the shims: the calling actor is about to perform a shared-memory operation.
/// No-op on threads that are not actors of a running schedule.
pub fn yield_point(op: &'static str, file: &'static str, line: u32) {
    yield_impl(Cow::Borrowed(op), file, line)
}

/// Entry point for the shims: a `try_lock` failed; returns when the caller should retry.
/// `std::thread::yield_now()` on threads that are not actors of a running schedule.
pub fn blocked(op: &'static str, file: &'static str, line: u32) {
    let handled = with_actor(|sh, me| {
        let mut w = sh.lock();
        if w.abort {
            drop(w);
            if std::thread::panicking() {
                std::thread::yield_now();
            } else {
                abort_exit();
            }
            return;
        }
        if w.current != Some(me) {
            drop(w);
            std::thread::yield_now();
            return;
        }
        w.event(me, Cow::Owned(format!("{op} BLOCKED")), file, line);
        w.slots[me].status = Status::LockBlocked { stale: true };
        if sh.step(&mut w) {
            drop(w);
            abort_exit();
            return;
        }
        match w.decide_forced(Some(me)) {
            None => {
                let states = w.infos();
                sh.start_abort(&mut w, Verdict::Deadlock { states });
                drop(w);
                if std::thread::panicking() {
                    std::thread::yield_now();
                } else {
                    abort_exit();
                }
            }
            Some(next) => {
                let (mut w, ok) = sh.switch_and_wait(w, me, next);
                if ok {
                    w.slots[me].status = Status::Runnable;
                }
                drop(w);
                if !ok {
                    if std::thread::panicking() {
                        std::thread::yield_now();
                    } else {
                        abort_exit();
                    }
                }
            }
        }
    });
    if handled.is_none() {
        std::thread::yield_now();
    }
}

// ---------------------------------------------------------------------------------------------
// actors

struct ActorWaker {
    shared: Arc<Shared>,
    actor: usize,
}

impl Wake for ActorWaker {
    fn wake(self: Arc<Self>) {
        self.wake_by_ref()
    }
    fn wake_by_ref(self: &Arc<Self>) {
        let mut w = self.shared.lock();
        if w.abort || w.verdict.is_some() {
            return;
        }
        match w.slots[self.actor].status {
            Status::Parked => w.slots[self.actor].status = Status::Runnable,
            Status::Done => return,
            _ => w.slots[self.actor].woken = true,
        }
        // trace the wake when it comes from the running actor (wakes from foreign threads are
        // accepted but not traced: their position in the trace would not be reproducible)
        let caller = ACTOR.with(|a| a.borrow().as_ref().map(|(_, i)| *i));
        if let Some(by) = caller {
            if w.current == Some(by) {
                let name = w.slots[self.actor].name.clone();
                w.event(by, Cow::Owned(format!("wake({name})")), "", 0);
            }
        }
    }
}

/// Handle given to an actor closure.
pub struct ActorCtx {
    shared: Arc<Shared>,
    id: usize,
    waker: Waker,
}

impl ActorCtx {
    /// index of this actor in the `actors` vector passed to [`run`]
    pub fn id(&self) -> usize {
        self.id
    }

    /// the waker of this actor (wakes mark the actor runnable)
    pub fn waker(&self) -> &Waker {
        &self.waker
    }

    /// Poll once with this actor's waker (no scheduling involved).
    pub fn poll<F: Future + ?Sized>(&self, fut: Pin<&mut F>) -> Poll<F::Output> {
        fut.poll(&mut Context::from_waker(&self.waker))
    }

    /// Drive a future to completion: poll; on `Pending` park until woken; repeat.
    pub fn block_on<F: Future>(&self, fut: F) -> F::Output {
        let mut fut = std::pin::pin!(fut);
        loop {
            match self.poll(fut.as_mut()) {
                Poll::Ready(v) => return v,
                Poll::Pending => self.park(),
            }
        }
    }

    /// Wait until this actor's waker has been invoked since the last return from `park`
    /// (returns at once — as a preemptible yield point — if a wake is already recorded).
    pub fn park(&self) {
        let sh = &self.shared;
        let me = self.id;
        let mut w = sh.lock();
        if w.abort {
            drop(w);
            abort_exit();
            return;
        }
        if std::thread::panicking() || w.current != Some(me) {
            return;
        }
        if w.slots[me].woken {
            w.slots[me].woken = false;
            drop(w);
            yield_impl(Cow::Borrowed("pending(woken)"), "", 0);
            return;
        }
        w.event(me, Cow::Borrowed("park"), "", 0);
        w.slots[me].status = Status::Parked;
        w.slots[me].parks += 1;
        w.progress(me);
        if sh.step(&mut w) {
            drop(w);
            abort_exit();
            return;
        }
        match w.decide_forced(Some(me)) {
            None => {
                let states = w.infos();
                sh.start_abort(&mut w, Verdict::Deadlock { states });
                drop(w);
                abort_exit();
            }
            Some(next) => {
                let (mut w, ok) = sh.switch_and_wait(w, me, next);
                if ok {
                    w.slots[me].woken = false;
                    w.slots[me].status = Status::Runnable;
                }
                drop(w);
                if !ok {
                    abort_exit();
                }
            }
        }
    }

    /// Clear and return the "woken since the last park" flag — no scheduling step, no trace entry.
    /// For actors whose futures are backed by foreign-thread I/O: after `poll` returned `Pending`
    /// and the I/O source was quiesced, `take_wake() == true` means "re-poll" (the I/O completed),
    /// `false` means the wait is logical → `park()`. Call it (and ignore the result) right before
    /// each poll as well, so that a stale flag left by an I/O completion that raced with the poll
    /// cannot influence anything. This keeps runs deterministic although the *timing* of I/O wakes
    /// is not.
    pub fn take_wake(&self) -> bool {
        let mut w = self.shared.lock();
        let me = self.id;
        std::mem::replace(&mut w.slots[me].woken, false)
    }

    /// Harness-level preemptible yield point (appears in the trace as `label`).
    pub fn yield_now(&self, label: impl Into<Cow<'static, str>>) {
        yield_impl(label.into(), "", 0)
    }

    /// Add a line to the trace (no scheduling).
    pub fn note(&self, text: impl Into<Cow<'static, str>>) {
        let mut w = self.shared.lock();
        if w.abort {
            return;
        }
        let me = self.id;
        w.event(me, text.into(), "", 0);
    }
}

type Body<'a> = Box<dyn FnOnce(&ActorCtx) + Send + 'a>;

/// A named actor body.
pub struct Actor<'a> {
    name: String,
    body: Body<'a>,
}

impl<'a> Actor<'a> {
    pub fn new(name: impl Into<String>, body: impl FnOnce(&ActorCtx) + Send + 'a) -> Self {
        Actor { name: name.into(), body: Box::new(body) }
    }
}

static HOOK: Once = Once::new();

fn chain_panic_hook() {
    HOOK.call_once(|| {
        let prev = std::panic::take_hook();
        std::panic::set_hook(Box::new(move |info| {
            let is_actor = ACTOR.with(|a| a.borrow().is_some());
            if is_actor {
                let message = if let Some(s) = info.payload().downcast_ref::<&str>() {
                    s.to_string()
                } else if let Some(s) = info.payload().downcast_ref::<String>() {
                    s.clone()
                } else {
                    "<non-string panic payload>".to_string()
                };
                let location = info.location().map(|l| format!("{}:{}:{}", l.file(), l.line(), l.column())).unwrap_or_default();
                ACTOR_PANIC.with(|p| *p.borrow_mut() = Some((message, location)));
            }
            prev(info)
        }));
    });
}

fn payload_message(p: &(dyn Any + Send)) -> String {
    if let Some(s) = p.downcast_ref::<&str>() {
        s.to_string()
    } else if let Some(s) = p.downcast_ref::<String>() {
        s.clone()
    } else {
        "<non-string panic payload>".into()
    }
}

/// Run `actors` under `schedule`. `on_thread_start` is called once on every actor thread before
/// its body (install the `datafusion_common::verif::Sched` adapter there — see
/// [`df_sched_adapter!`](crate::df_sched_adapter)). Blocks until every actor thread has exited.
pub fn run<'a>(schedule: &Schedule, opts: &Options, on_thread_start: &(dyn Fn() + Sync), actors: Vec<Actor<'a>>) -> Report {
    chain_panic_hook();
    let n = actors.len();
    let names: Vec<String> = actors.iter().map(|a| a.name.clone()).collect();
    let world = World {
        slots: names.iter().map(|name| Slot { name: name.clone(), status: Status::Runnable, woken: false, last_event: None, parks: 0 }).collect(),
        current: None,
        abort: false,
        verdict: None,
        schedule: schedule.clone(),
        pi: 0,
        gap_left: schedule.preempt.first().map(|p| p.gap).unwrap_or(0),
        fi: 0,
        steps: 0,
        step_limit: opts.step_limit,
        trace: Vec::with_capacity(256),
        preemptions: vec![],
        decisions: vec![],
        panics: vec![],
    };
    let shared = Arc::new(Shared { world: Mutex::new(world), cvs: (0..n).map(|_| Condvar::new()).collect() });
    if n == 0 {
        return finish(&shared, names);
    }
    let cpu = unsafe { libc::sched_getcpu() };
    let latch = Arc::new(Latch { left: Mutex::new(n), cv: Condvar::new() });
    // From here on `run` must not return before every job has finished: the jobs borrow from the
    // caller's stack ('a, `on_thread_start`). The guard waits for the latch even on unwinding.
    let guard = LatchGuard(latch.clone());
    POOL.with(|pool| {
        let mut pool = pool.borrow_mut();
        while pool.workers.len() < n {
            let k = pool.workers.len();
            pool.workers.push(Worker::spawn(k));
        }
        for (id, actor) in actors.into_iter().enumerate() {
            let shared = shared.clone();
            let body = actor.body;
            let latch = latch.clone();
            let job: Box<dyn FnOnce() + Send + '_> = Box::new(move || {
                // `actor_main` consumes (and drops) everything borrowed before the latch is released
                actor_main(shared, id, cpu, body, on_thread_start);
                latch.done();
            });
            // SAFETY: the job only borrows data that outlives this call of `run`, and `run` does not
            // return (or unwind past `guard`) before the job has signalled the latch, which it does
            // after dropping all borrowed state.
            let job: Job = unsafe { std::mem::transmute::<Box<dyn FnOnce() + Send + '_>, Job>(job) };
            if let Err(e) = pool.workers[id].tx.send(job) {
                // worker thread is gone (cannot happen: workers never exit while the pool lives);
                // run the job here so that the latch is still released
                (e.0)();
            }
        }
    });
    {
        // first decision: who starts
        let mut w = shared.lock();
        match w.decide_forced(None) {
            Some(first) => {
                w.current = Some(first);
                shared.cvs[first].notify_all();
            }
            None => unreachable!("all actors start runnable"),
        }
    }
    drop(guard); // waits until every actor job has finished
    finish(&shared, names)
}

// ---------------------------------------------------------------------------------------------
// worker threads: one pool per calling thread, reused across runs (creating and destroying 4–8 OS
// threads per run dominated the cost of a run by an order of magnitude)

type Job = Box<dyn FnOnce() + Send + 'static>;

struct Latch {
    left: Mutex<usize>,
    cv: Condvar,
}

impl Latch {
    fn done(&self) {
        let mut l = self.left.lock().unwrap_or_else(|e| e.into_inner());
        *l -= 1;
        if *l == 0 {
            self.cv.notify_all();
        }
    }
}

struct LatchGuard(Arc<Latch>);

impl Drop for LatchGuard {
    fn drop(&mut self) {
        let mut l = self.0.left.lock().unwrap_or_else(|e| e.into_inner());
        while *l > 0 {
            l = self.0.cv.wait(l).unwrap_or_else(|e| e.into_inner());
        }
    }
}

struct Worker {
    tx: std::sync::mpsc::Sender<Job>,
    handle: Option<std::thread::JoinHandle<()>>,
}

impl Worker {
    fn spawn(k: usize) -> Worker {
        let (tx, rx) = std::sync::mpsc::channel::<Job>();
        let handle = std::thread::Builder::new()
            .name(format!("vf-sched-actor-{k}"))
            .spawn(move || {
                for job in rx {
                    job();
                }
            })
            .expect("spawn scheduler worker thread");
        Worker { tx, handle: Some(handle) }
    }
}

#[derive(Default)]
struct Pool {
    workers: Vec<Worker>,
}

impl Drop for Pool {
    fn drop(&mut self) {
        for w in self.workers.drain(..) {
            let Worker { tx, handle } = w;
            drop(tx);
            if let Some(h) = handle {
                let _ = h.join();
            }
        }
    }
}

thread_local! {
    static POOL: RefCell<Pool> = RefCell::new(Pool::default());
    static PINNED: std::cell::Cell<i32> = const { std::cell::Cell::new(-1) };
}

fn finish(shared: &Arc<Shared>, names: Vec<String>) -> Report {
    let mut w = shared.lock();
    let verdict = w.verdict.clone().unwrap_or(Verdict::Completed);
    Report {
        verdict,
        actor_names: names,
        trace: std::mem::take(&mut w.trace),
        preemptions: std::mem::take(&mut w.preemptions),
        decisions: std::mem::take(&mut w.decisions),
        steps: w.steps,
        parks: w.slots.iter().map(|s| s.parks).collect(),
        panics: std::mem::take(&mut w.panics),
    }
}

/// Pin the calling thread to `cpu`. Only one actor of a run executes at any time, so keeping all of
/// them on the CPU of the thread that called `run` turns every baton hand-off into a local context
/// switch (no cross-CPU wake-up / IPI — these dominate the cost, especially inside a VM).
fn pin_to(cpu: i32) {
    if cpu < 0 || PINNED.with(|p| p.replace(cpu)) == cpu {
        return;
    }
    unsafe {
        let mut set: libc::cpu_set_t = std::mem::zeroed();
        libc::CPU_ZERO(&mut set);
        libc::CPU_SET(cpu as usize, &mut set);
        let _ = libc::sched_setaffinity(0, std::mem::size_of::<libc::cpu_set_t>(), &set);
    }
}

fn actor_main<'a>(shared: Arc<Shared>, id: usize, cpu: i32, body: Body<'a>, on_thread_start: &(dyn Fn() + Sync)) {
    pin_to(cpu);
    ACTOR_PANIC.with(|p| *p.borrow_mut() = None);
    ACTOR.with(|a| *a.borrow_mut() = Some((shared.clone(), id)));
    on_thread_start();
    let ctx = ActorCtx { shared: shared.clone(), id, waker: Waker::from(Arc::new(ActorWaker { shared: shared.clone(), actor: id })) };
    // wait for the first turn
    let (w, ok) = shared.wait_turn(shared.lock(), id);
    drop(w);
    let result = if ok {
        catch_unwind(AssertUnwindSafe(|| body(&ctx)))
    } else {
        // aborted before the first turn: drop the body (and what it owns) un-scheduled
        catch_unwind(AssertUnwindSafe(|| drop(body)))
    };
    let mut w = shared.lock();
    if let Err(payload) = result {
        if !payload.is::<AbortUnwind>() {
            let (message, location) = ACTOR_PANIC.with(|p| p.borrow_mut().take()).unwrap_or_else(|| (payload_message(&*payload), String::new()));
            w.panics.push(ActorPanic { actor: id, message, location });
            if !w.abort {
                w.event(id, Cow::Borrowed("PANICKED"), "", 0);
            }
        }
    }
    w.slots[id].status = Status::Done;
    if !w.abort && w.current == Some(id) {
        w.event(id, Cow::Borrowed("done"), "", 0);
        w.progress(id);
        match w.decide_forced(Some(id)) {
            Some(next) => {
                w.current = Some(next);
                shared.cvs[next].notify_all();
            }
            None => {
                if w.all_done() {
                    w.current = None;
                } else {
                    let states = w.infos();
                    shared.start_abort(&mut w, Verdict::Deadlock { states });
                }
            }
        }
    }
    drop(w);
    drop(ctx);
    ACTOR.with(|a| *a.borrow_mut() = None);
}

// ---------------------------------------------------------------------------------------------
// exhaustive exploration

/// Bounds of an exhaustive exploration: all schedules with at most `max_preemptions` preemptions
/// and at most `max_forced_deviations` forced decisions resolved differently from round robin.
#[derive(Clone, Debug)]
pub struct Bounds {
    pub max_preemptions: usize,
    pub max_forced_deviations: usize,
    /// stop (with `complete = false`) after this many runs
    pub max_runs: u64,
}

#[derive(Clone, Debug, Default)]
pub struct Exploration {
    pub runs: u64,
    /// the whole bounded schedule space was enumerated
    pub complete: bool,
    pub max_decisions: usize,
    pub deadlocks: u64,
    pub step_limits: u64,
}

/// explicit decision prefix → `Schedule` (remaining decisions default to "continue / round robin")
fn prefix_to_schedule(prefix: &[Decision]) -> Schedule {
    let mut s = Schedule::default();
    let mut gap = 0u16;
    for d in prefix {
        if d.preemptible {
            if d.chosen == 0 {
                gap = gap.saturating_add(1);
            } else {
                s.preempt.push(Preempt { gap, pick: unscale(d.chosen as usize - 1, d.options as usize - 1) });
                gap = 0;
            }
        } else {
            s.forced.push(unscale(d.chosen as usize, d.options as usize));
        }
    }
    s
}

/// Depth-first enumeration of every schedule within `bounds`. `run_one` executes the (fixed)
/// scenario under the given schedule, applies the oracle and returns the `Report` (whose decision
/// log drives the enumeration) or an error, which stops the exploration and is returned together
/// with the failing schedule (a replayable case).
pub fn explore<E>(bounds: &Bounds, mut run_one: impl FnMut(&Schedule) -> Result<Report, E>) -> Result<Exploration, (Schedule, E)> {
    let mut stats = Exploration::default();
    let mut prefix: Vec<Decision> = vec![];
    loop {
        let schedule = prefix_to_schedule(&prefix);
        let report = match run_one(&schedule) {
            Ok(r) => r,
            Err(e) => return Err((schedule, e)),
        };
        stats.runs += 1;
        match report.verdict {
            Verdict::Deadlock { .. } => stats.deadlocks += 1,
            Verdict::StepLimit => stats.step_limits += 1,
            Verdict::Completed => {}
        }
        let log = &report.decisions;
        stats.max_decisions = stats.max_decisions.max(log.len());
        // the run must have followed the prefix
        debug_assert!(log.len() >= prefix.len() && log.iter().zip(prefix.iter()).all(|(a, b)| a.chosen == b.chosen && a.preemptible == b.preemptible));
        // cumulative counts before each position
        let mut pre_before = Vec::with_capacity(log.len());
        let mut dev_before = Vec::with_capacity(log.len());
        let (mut p, mut d) = (0usize, 0usize);
        for x in log {
            pre_before.push(p);
            dev_before.push(d);
            if x.preemptible && x.chosen > 0 {
                p += 1;
            }
            if !x.preemptible && x.chosen > 0 {
                d += 1;
            }
        }
        let mut next: Option<usize> = None;
        for i in (0..log.len()).rev() {
            let x = log[i];
            if x.chosen + 1 >= x.options {
                continue;
            }
            let allowed = if x.chosen > 0 {
                true
            } else if x.preemptible {
                pre_before[i] < bounds.max_preemptions
            } else {
                dev_before[i] < bounds.max_forced_deviations
            };
            if allowed {
                next = Some(i);
                break;
            }
        }
        match next {
            None => {
                stats.complete = true;
                return Ok(stats);
            }
            Some(i) => {
                prefix = log[..=i].to_vec();
                prefix[i].chosen += 1;
            }
        }
        if stats.runs >= bounds.max_runs {
            return Ok(stats);
        }
    }
}

/// Expands (in a crate that depends on `datafusion-common` built with `--cfg datafusion_verif`) to
/// `fn verif_install()`, to be passed as `on_thread_start` to [`run`]: it installs on the current
/// thread a `datafusion_common::verif::Sched` that forwards the shim calls to this scheduler.
#[macro_export]
macro_rules! df_sched_adapter {
    () => {
        struct VerifSchedAdapter;
        impl datafusion_common::verif::Sched for VerifSchedAdapter {
            fn yield_point(&self, op: &'static str, at: &'static std::panic::Location<'static>) {
                $crate::sched::yield_point(op, at.file(), at.line())
            }
            fn blocked(&self, op: &'static str, at: &'static std::panic::Location<'static>) {
                $crate::sched::blocked(op, at.file(), at.line())
            }
        }
        #[allow(dead_code)]
        fn verif_install() {
            datafusion_common::verif::install(std::sync::Arc::new(VerifSchedAdapter));
        }
    };
}

// ---------------------------------------------------------------------------------------------
// self-tests: toy primitives instrumented exactly like the real shims

#[cfg(test)]
mod tests {
    use super::*;
    use std::sync::atomic::{AtomicBool, Ordering};

    /// toy mutex instrumented like `verif_sync_shims!`'s Mutex
    struct TMutex<T>(Mutex<T>);
    impl<T> TMutex<T> {
        fn new(v: T) -> Self {
            TMutex(Mutex::new(v))
        }
        #[track_caller]
        fn lock(&self) -> MutexGuard<'_, T> {
            let at = std::panic::Location::caller();
            yield_point("mutex.lock", at.file(), at.line());
            loop {
                if let Ok(g) = self.0.try_lock() {
                    return g;
                }
                blocked("mutex.lock", at.file(), at.line());
            }
        }
    }
    struct TFlag(AtomicBool);
    impl TFlag {
        #[track_caller]
        fn load(&self) -> bool {
            let at = std::panic::Location::caller();
            yield_point("atomic.load", at.file(), at.line());
            self.0.load(Ordering::SeqCst)
        }
        #[track_caller]
        fn store(&self, v: bool) {
            let at = std::panic::Location::caller();
            yield_point("atomic.store", at.file(), at.line());
            self.0.store(v, Ordering::SeqCst)
        }
    }

    /// one-shot event; `buggy` = the waiter does not re-check the flag after registering its waker
    struct Event {
        flag: TFlag,
        waiter: TMutex<Option<Waker>>,
        buggy: bool,
    }
    struct Wait<'a>(&'a Event);
    impl Future for Wait<'_> {
        type Output = ();
        fn poll(self: Pin<&mut Self>, cx: &mut Context<'_>) -> Poll<()> {
            let ev = self.0;
            if ev.flag.load() {
                return Poll::Ready(());
            }
            let mut slot = ev.waiter.lock();
            *slot = Some(cx.waker().clone());
            if !ev.buggy && ev.flag.load() {
                return Poll::Ready(());
            }
            Poll::Pending
        }
    }
    impl Event {
        fn notify(&self) {
            self.flag.store(true);
            let w = self.waiter.lock().take();
            if let Some(w) = w {
                w.wake();
            }
        }
    }

    fn event_run(buggy: bool, schedule: &Schedule) -> Report {
        let ev = Event { flag: TFlag(AtomicBool::new(false)), waiter: TMutex::new(None), buggy };
        let actors = vec![
            Actor::new("waiter", |ctx: &ActorCtx| {
                ctx.block_on(Wait(&ev));
            }),
            Actor::new("notifier", |ctx: &ActorCtx| {
                ctx.yield_now("before notify");
                ev.notify();
            }),
        ];
        run(schedule, &Options::default(), &|| {}, actors)
    }

    #[test]
    fn lost_wakeup_found_by_exhaustive_search_and_replays() {
        let bounds = Bounds { max_preemptions: 1, max_forced_deviations: 1, max_runs: 100_000 };
        let r = explore(&bounds, |s| {
            let rep = event_run(true, s);
            if rep.completed() { Ok(rep) } else { Err(rep) }
        });
        let (schedule, rep) = r.expect_err("the lost wake-up must be found");
        assert!(matches!(rep.verdict, Verdict::Deadlock { .. }), "{}", rep.describe(50));
        assert!(schedule.preempt.len() <= 1);
        // replay: identical verdict and identical trace, several times
        for _ in 0..5 {
            let again = event_run(true, &schedule);
            assert_eq!(again.verdict, rep.verdict);
            assert_eq!(again.trace, rep.trace);
            assert_eq!(again.decisions, rep.decisions);
        }
        let text = rep.describe(50);
        assert!(text.contains("DEADLOCK") && text.contains("waiter"), "{text}");
    }

    #[test]
    fn correct_event_passes_exhaustively() {
        let bounds = Bounds { max_preemptions: 2, max_forced_deviations: 2, max_runs: 1_000_000 };
        let stats = explore(&bounds, |s| {
            let rep = event_run(false, s);
            if rep.completed() { Ok(rep) } else { Err(rep.describe(50)) }
        })
        .unwrap_or_else(|(s, e)| panic!("false alarm under {s:?}: {e}"));
        assert!(stats.complete);
        assert!(stats.runs > 10, "{stats:?}");
    }

    #[test]
    fn lost_wakeup_found_by_generated_schedules() {
        use proptest::strategy::ValueTree;
        use proptest::test_runner::{Config, RngSeed, TestRunner};
        let mut runner = TestRunner::new(Config { rng_seed: RngSeed::Fixed(1), failure_persistence: None, ..Config::default() });
        let strat = Schedule::strategy(2, 8, 4);
        let mut found = 0;
        for _ in 0..300 {
            let s = strat.new_tree(&mut runner).unwrap().current();
            let rep = event_run(true, &s);
            if matches!(rep.verdict, Verdict::Deadlock { .. }) {
                found += 1;
                let again = event_run(true, &s);
                assert_eq!(again.trace, rep.trace);
            }
        }
        assert!(found > 0, "random schedules never hit the lost wake-up");
    }

    #[test]
    fn abba_lock_deadlock_detected() {
        let go = |schedule: &Schedule| {
            let a = TMutex::new(0u32);
            let b = TMutex::new(0u32);
            let actors = vec![
                Actor::new("ab", |_ctx: &ActorCtx| {
                    let _ga = a.lock();
                    let _gb = b.lock();
                }),
                Actor::new("ba", |_ctx: &ActorCtx| {
                    let _gb = b.lock();
                    let _ga = a.lock();
                }),
            ];
            run(schedule, &Options::default(), &|| {}, actors)
        };
        let bounds = Bounds { max_preemptions: 1, max_forced_deviations: 0, max_runs: 10_000 };
        let r = explore(&bounds, |s| {
            let rep = go(s);
            if rep.completed() { Ok(rep) } else { Err(rep) }
        });
        let (schedule, rep) = r.expect_err("AB-BA deadlock must be found");
        match &rep.verdict {
            Verdict::Deadlock { states } => assert!(states.iter().all(|s| matches!(s.status, ActorStatus::LockBlocked { stale: true }))),
            v => panic!("unexpected verdict {v:?}"),
        }
        let again = go(&schedule);
        assert_eq!(again.trace, rep.trace);
        // without preemption it completes
        assert!(go(&Schedule::default()).completed());
    }

    #[test]
    fn step_limit_and_panics_are_reported() {
        let flag = TFlag(AtomicBool::new(false));
        let actors = vec![Actor::new("spinner", |_ctx: &ActorCtx| {
            while !flag.load() {}
        })];
        let rep = run(&Schedule::default(), &Options { step_limit: 500 }, &|| {}, actors);
        assert_eq!(rep.verdict, Verdict::StepLimit);

        let actors = vec![
            Actor::new("boom", |ctx: &ActorCtx| {
                ctx.yield_now("x");
                panic!("toy panic");
            }),
            Actor::new("other", |ctx: &ActorCtx| ctx.yield_now("y")),
        ];
        let rep = run(&Schedule::default(), &Options::default(), &|| {}, actors);
        assert!(rep.completed());
        assert_eq!(rep.panics.len(), 1);
        assert!(rep.panics[0].message.contains("toy panic"));
        assert!(rep.panics[0].location.contains("sched.rs"));
    }

    #[test]
    fn teardown_drops_actor_state_after_deadlock() {
        struct D<'a>(&'a AtomicBool);
        impl Drop for D<'_> {
            fn drop(&mut self) {
                self.0.store(true, Ordering::SeqCst);
            }
        }
        let dropped = AtomicBool::new(false);
        let d = D(&dropped);
        let actors = vec![Actor::new("stuck", move |ctx: &ActorCtx| {
            let _keep = d;
            ctx.block_on(std::future::pending::<()>());
        })];
        let rep = run(&Schedule::default(), &Options::default(), &|| {}, actors);
        assert!(matches!(rep.verdict, Verdict::Deadlock { .. }));
        assert!(dropped.load(Ordering::SeqCst));
    }
}
