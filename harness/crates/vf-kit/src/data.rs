//! Logical values and physical encodings (DESIGN.md §3.1).
//!
//! * [`Value`] — a *logical* cell value (plain serde data, floats compared by bits).
//! * [`DType`] — a serde-able description of an Arrow data type (1:1 with `arrow::datatypes::DataType`
//!   through [`DType::to_arrow`]). `Dictionary` and `RunEndEncoded` are data types here, as in Arrow; the
//!   logical values of such a column are the values of the inner type.
//! * [`ColumnSpec`] — `{dtype, values}`: ONE logical column.
//! * [`Encoding`] — a *layout* tree mirroring the dtype: every choice in it changes buffers only, never
//!   the Arrow data type and never the logical content. [`render`] turns a `ColumnSpec` into an
//!   `ArrayRef` under an `Encoding`; [`array_to_values`] reads any Arrow array back into logical values.
//!   So `array_to_values(render(spec, e)) == spec.values` for every `e` (self-test: [`self_check`]).
//! * To vary the *physical type* of the same logical column (Utf8 ↔ LargeUtf8 ↔ Utf8View, List ↔
//!   LargeList ↔ ListView, wrap into Dictionary / RunEndEncoded) use [`retype_strategy`]: the values stay,
//!   the dtype changes.
//!
//! Deviation from the DESIGN sketch: `Encoding` does not itself pick Utf8/LargeUtf8/View or the dictionary
//! key width, because those change the Arrow `DataType` (and e.g. C12 must compare arrays "of the same
//! data types"); they live in `DType`, and `retype_strategy` provides the "same logical column, other
//! physical type" axis. All junk (padding rows, content under NULLs, unreferenced child ranges) is a
//! pure function of `Encoding::seed` — no randomness outside the proptest strategy.
//!
//! Everything rendered is *valid* Arrow (constructed through the validating `try_new` constructors):
//! inline views are zero padded, junk strings are valid UTF-8, dictionary keys under NULL stay in range.

use arrow::array::*;
use arrow::buffer::{BooleanBuffer, Buffer, NullBuffer, OffsetBuffer, ScalarBuffer};
use arrow::datatypes::{self as adt, ArrowNativeType, DataType, Field, Fields, IntervalUnit, TimeUnit, UnionFields, UnionMode, i256};
use half::f16;
use proptest::prelude::*;
use serde::{Deserialize, Serialize};
use std::collections::BTreeSet;
use std::sync::Arc;

// ---------------------------------------------------------------------------------------------
// Value

/// A logical cell value. Integers of every width, dates, times, timestamps, durations, year-month
/// intervals and decimals ≤ 128 bit are `Int`; Decimal256 is `Int256`; f16/f32/f64 are `Float`.
#[derive(Clone, Debug, Serialize, Deserialize)]
pub enum Value {
    Null,
    Bool(bool),
    Int(i128),
    /// two's complement 256-bit integer: `hi * 2^128 + lo`
    Int256 {
        hi: i128,
        lo: u128,
    },
    Float(#[serde(with = "fjson")] f64),
    Str(String),
    Bytes(Vec<u8>),
    /// (days, milliseconds)
    DayTime(i32, i32),
    /// (months, days, nanoseconds)
    MonthDayNano(i32, i32, i64),
    List(Vec<Value>),
    Struct(Vec<Value>),
    Map(Vec<(Value, Value)>),
    /// (type id, value of that child)
    Union(i8, Box<Value>),
}

/// f64 as JSON strings ("1.5", "-0.0", "NaN", "inf", "nan:0x…") with an exact round trip; plain numbers are accepted on input.
mod fjson {
    use serde::de::{self, Visitor};
    use serde::{Deserializer, Serializer};
    pub fn serialize<S: Serializer>(v: &f64, s: S) -> Result<S::Ok, S::Error> {
        if v.is_finite() {
            // as text: serde_json's number parser is not exact to the last bit without `float_roundtrip`
            s.serialize_str(&format!("{v:?}"))
        } else if v.is_nan() {
            if v.to_bits() == f64::NAN.to_bits() { s.serialize_str("NaN") } else { s.serialize_str(&format!("nan:{:#018x}", v.to_bits())) }
        } else if *v > 0.0 {
            s.serialize_str("inf")
        } else {
            s.serialize_str("-inf")
        }
    }
    struct V;
    impl Visitor<'_> for V {
        type Value = f64;
        fn expecting(&self, f: &mut std::fmt::Formatter) -> std::fmt::Result {
            f.write_str("a number or NaN/inf/-inf/nan:0x…")
        }
        fn visit_f64<E>(self, v: f64) -> Result<f64, E> {
            Ok(v)
        }
        fn visit_i64<E>(self, v: i64) -> Result<f64, E> {
            Ok(v as f64)
        }
        fn visit_u64<E>(self, v: u64) -> Result<f64, E> {
            Ok(v as f64)
        }
        fn visit_str<E: de::Error>(self, v: &str) -> Result<f64, E> {
            match v {
                "NaN" => Ok(f64::NAN),
                "inf" => Ok(f64::INFINITY),
                "-inf" => Ok(f64::NEG_INFINITY),
                _ => {
                    if let Some(h) = v.strip_prefix("nan:0x") {
                        u64::from_str_radix(h, 16).map(f64::from_bits).map_err(|e| E::custom(format!("bad float {v}: {e}")))
                    } else {
                        v.parse::<f64>().map_err(|e| E::custom(format!("bad float {v}: {e}")))
                    }
                }
            }
        }
    }
    pub fn deserialize<'de, D: Deserializer<'de>>(d: D) -> Result<f64, D::Error> {
        d.deserialize_any(V)
    }
}

impl PartialEq for Value {
    /// structural equality, floats by bit pattern (so `-0.0 != 0.0`, `NaN == NaN` for equal payloads)
    fn eq(&self, o: &Value) -> bool {
        use Value::*;
        match (self, o) {
            (Null, Null) => true,
            (Bool(a), Bool(b)) => a == b,
            (Int(a), Int(b)) => a == b,
            (Int256 { hi: a, lo: b }, Int256 { hi: c, lo: d }) => a == c && b == d,
            (Float(a), Float(b)) => a.to_bits() == b.to_bits(),
            (Str(a), Str(b)) => a == b,
            (Bytes(a), Bytes(b)) => a == b,
            (DayTime(a, b), DayTime(c, d)) => a == c && b == d,
            (MonthDayNano(a, b, c), MonthDayNano(d, e, f)) => a == d && b == e && c == f,
            (List(a), List(b)) => a == b,
            (Struct(a), Struct(b)) => a == b,
            (Map(a), Map(b)) => a == b,
            (Union(a, b), Union(c, d)) => a == c && b == d,
            _ => false,
        }
    }
}
impl Eq for Value {}

impl Value {
    pub fn is_null(&self) -> bool {
        matches!(self, Value::Null)
    }
    /// Equality of *key* values: NULL = NULL, −0.0 = +0.0, NaN equal only for identical bits,
    /// everything else structural (recursively).
    pub fn key_eq(&self, o: &Value) -> bool {
        use Value::*;
        match (self, o) {
            (Float(a), Float(b)) => a.to_bits() == b.to_bits() || (*a == 0.0 && *b == 0.0),
            (List(a), List(b)) | (Struct(a), Struct(b)) => a.len() == b.len() && a.iter().zip(b).all(|(x, y)| x.key_eq(y)),
            (Map(a), Map(b)) => a.len() == b.len() && a.iter().zip(b).all(|((k1, v1), (k2, v2))| k1.key_eq(k2) && v1.key_eq(v2)),
            (Union(a, b), Union(c, d)) => a == c && b.key_eq(d),
            _ => self == o,
        }
    }
    /// true if a non-NULL value occurs anywhere inside
    pub fn has_null_inside(&self) -> bool {
        use Value::*;
        match self {
            Null => true,
            List(v) | Struct(v) => v.iter().any(|x| x.has_null_inside()),
            Map(v) => v.iter().any(|(k, x)| k.has_null_inside() || x.has_null_inside()),
            Union(_, v) => v.has_null_inside(),
            _ => false,
        }
    }
    pub fn i256(v: i256) -> Value {
        let (lo, hi) = v.to_parts();
        Value::Int256 { hi, lo }
    }
}

// ---------------------------------------------------------------------------------------------
// DType

#[derive(Clone, Copy, Debug, PartialEq, Eq, Hash, Serialize, Deserialize)]
pub enum TUnit {
    S,
    Ms,
    Us,
    Ns,
}
impl TUnit {
    pub fn to_arrow(self) -> TimeUnit {
        match self {
            TUnit::S => TimeUnit::Second,
            TUnit::Ms => TimeUnit::Millisecond,
            TUnit::Us => TimeUnit::Microsecond,
            TUnit::Ns => TimeUnit::Nanosecond,
        }
    }
}

/// integer widths for dictionary keys (all eight) and run ends (I16/I32/I64 only)
#[derive(Clone, Copy, Debug, PartialEq, Eq, Hash, Serialize, Deserialize)]
pub enum IntW {
    I8,
    I16,
    I32,
    I64,
    U8,
    U16,
    U32,
    U64,
}
impl IntW {
    pub fn to_arrow(self) -> DataType {
        match self {
            IntW::I8 => DataType::Int8,
            IntW::I16 => DataType::Int16,
            IntW::I32 => DataType::Int32,
            IntW::I64 => DataType::Int64,
            IntW::U8 => DataType::UInt8,
            IntW::U16 => DataType::UInt16,
            IntW::U32 => DataType::UInt32,
            IntW::U64 => DataType::UInt64,
        }
    }
    /// largest number of dictionary entries addressable
    pub fn capacity(self) -> usize {
        match self {
            IntW::I8 => 127,
            IntW::U8 => 255,
            _ => 30_000,
        }
    }
}

#[derive(Clone, Debug, PartialEq, Eq, Hash, Serialize, Deserialize)]
pub enum DType {
    Null,
    Bool,
    Int8,
    Int16,
    Int32,
    Int64,
    UInt8,
    UInt16,
    UInt32,
    UInt64,
    Float16,
    Float32,
    Float64,
    Decimal32(u8, i8),
    Decimal64(u8, i8),
    Decimal128(u8, i8),
    Decimal256(u8, i8),
    Date32,
    Date64,
    /// S or Ms
    Time32(TUnit),
    /// Us or Ns
    Time64(TUnit),
    Timestamp(TUnit, Option<String>),
    Duration(TUnit),
    IntervalYM,
    IntervalDT,
    IntervalMDN,
    Utf8,
    LargeUtf8,
    Utf8View,
    Binary,
    LargeBinary,
    BinaryView,
    FixedSizeBinary(i32),
    List(Box<DType>),
    LargeList(Box<DType>),
    ListView(Box<DType>),
    LargeListView(Box<DType>),
    FixedSizeList(Box<DType>, i32),
    Struct(Vec<(String, DType)>),
    /// (key type — never NULL inside —, value type)
    Map(Box<DType>, Box<DType>),
    /// fields (type id, name, type); `dense`
    Union(Vec<(i8, String, DType)>, bool),
    Dictionary(IntW, Box<DType>),
    /// run-end width must be I16, I32 or I64
    RunEndEncoded(IntW, Box<DType>),
}

impl DType {
    pub fn to_arrow(&self) -> DataType {
        use DType::*;
        let item = |d: &DType| Arc::new(Field::new("item", d.to_arrow(), true));
        match self {
            Null => DataType::Null,
            Bool => DataType::Boolean,
            Int8 => DataType::Int8,
            Int16 => DataType::Int16,
            Int32 => DataType::Int32,
            Int64 => DataType::Int64,
            UInt8 => DataType::UInt8,
            UInt16 => DataType::UInt16,
            UInt32 => DataType::UInt32,
            UInt64 => DataType::UInt64,
            Float16 => DataType::Float16,
            Float32 => DataType::Float32,
            Float64 => DataType::Float64,
            Decimal32(p, s) => DataType::Decimal32(*p, *s),
            Decimal64(p, s) => DataType::Decimal64(*p, *s),
            Decimal128(p, s) => DataType::Decimal128(*p, *s),
            Decimal256(p, s) => DataType::Decimal256(*p, *s),
            Date32 => DataType::Date32,
            Date64 => DataType::Date64,
            Time32(u) => DataType::Time32(u.to_arrow()),
            Time64(u) => DataType::Time64(u.to_arrow()),
            Timestamp(u, tz) => DataType::Timestamp(u.to_arrow(), tz.as_deref().map(Arc::from)),
            Duration(u) => DataType::Duration(u.to_arrow()),
            IntervalYM => DataType::Interval(IntervalUnit::YearMonth),
            IntervalDT => DataType::Interval(IntervalUnit::DayTime),
            IntervalMDN => DataType::Interval(IntervalUnit::MonthDayNano),
            Utf8 => DataType::Utf8,
            LargeUtf8 => DataType::LargeUtf8,
            Utf8View => DataType::Utf8View,
            Binary => DataType::Binary,
            LargeBinary => DataType::LargeBinary,
            BinaryView => DataType::BinaryView,
            FixedSizeBinary(n) => DataType::FixedSizeBinary(*n),
            List(c) => DataType::List(item(c)),
            LargeList(c) => DataType::LargeList(item(c)),
            ListView(c) => DataType::ListView(item(c)),
            LargeListView(c) => DataType::LargeListView(item(c)),
            FixedSizeList(c, n) => DataType::FixedSizeList(item(c), *n),
            Struct(fs) => DataType::Struct(struct_fields(fs)),
            Map(k, v) => DataType::Map(map_entries_field(k, v), false),
            Union(fs, dense) => DataType::Union(union_fields(fs), if *dense { UnionMode::Dense } else { UnionMode::Sparse }),
            Dictionary(k, v) => DataType::Dictionary(Box::new(k.to_arrow()), Box::new(v.to_arrow())),
            RunEndEncoded(r, v) => DataType::RunEndEncoded(Arc::new(Field::new("run_ends", r.to_arrow(), false)), Arc::new(Field::new("values", v.to_arrow(), true))),
        }
    }

    /// the type whose values the column logically holds (strips Dictionary / RunEndEncoded wrappers at the top)
    pub fn logical(&self) -> &DType {
        match self {
            DType::Dictionary(_, v) | DType::RunEndEncoded(_, v) => v.logical(),
            d => d,
        }
    }
    pub fn is_nested(&self) -> bool {
        use DType::*;
        matches!(self.logical(), List(_) | LargeList(_) | ListView(_) | LargeListView(_) | FixedSizeList(..) | Struct(_) | Map(..) | Union(..))
    }
    /// a Union column has no validity of its own: its rows are never `Value::Null` (but `Union(id, Null)`)
    pub fn top_level_nullable(&self) -> bool {
        !matches!(self.logical(), DType::Union(..))
    }
    /// short name for labels
    pub fn kind(&self) -> &'static str {
        use DType::*;
        match self {
            Null => "null",
            Bool => "bool",
            Int8 | Int16 | Int32 | Int64 => "int",
            UInt8 | UInt16 | UInt32 | UInt64 => "uint",
            Float16 => "f16",
            Float32 => "f32",
            Float64 => "f64",
            Decimal32(..) => "dec32",
            Decimal64(..) => "dec64",
            Decimal128(..) => "dec128",
            Decimal256(..) => "dec256",
            Date32 | Date64 => "date",
            Time32(_) | Time64(_) => "time",
            Timestamp(_, None) => "timestamp",
            Timestamp(_, Some(_)) => "timestamp-tz",
            Duration(_) => "duration",
            IntervalYM | IntervalDT | IntervalMDN => "interval",
            Utf8 => "utf8",
            LargeUtf8 => "large-utf8",
            Utf8View => "utf8-view",
            Binary => "binary",
            LargeBinary => "large-binary",
            BinaryView => "binary-view",
            FixedSizeBinary(_) => "fixed-binary",
            List(_) => "list",
            LargeList(_) => "large-list",
            ListView(_) => "list-view",
            LargeListView(_) => "large-list-view",
            FixedSizeList(..) => "fixed-list",
            Struct(_) => "struct",
            Map(..) => "map",
            Union(_, true) => "union-dense",
            Union(_, false) => "union-sparse",
            Dictionary(..) => "dictionary",
            RunEndEncoded(..) => "ree",
        }
    }
    /// `kind()` of this type and of every type nested in it
    pub fn kinds(&self, out: &mut BTreeSet<&'static str>) {
        use DType::*;
        out.insert(self.kind());
        match self {
            List(c) | LargeList(c) | ListView(c) | LargeListView(c) | FixedSizeList(c, _) | Dictionary(_, c) | RunEndEncoded(_, c) => c.kinds(out),
            Struct(fs) => fs.iter().for_each(|(_, d)| d.kinds(out)),
            Map(k, v) => {
                k.kinds(out);
                v.kinds(out)
            }
            Union(fs, _) => fs.iter().for_each(|(_, _, d)| d.kinds(out)),
            _ => {}
        }
    }
}

fn struct_fields(fs: &[(String, DType)]) -> Fields {
    Fields::from(fs.iter().map(|(n, d)| Field::new(n, d.to_arrow(), true)).collect::<Vec<_>>())
}
fn map_entries_fields(k: &DType, v: &DType) -> Fields {
    Fields::from(vec![Field::new("key", k.to_arrow(), false), Field::new("value", v.to_arrow(), true)])
}
fn map_entries_field(k: &DType, v: &DType) -> Arc<Field> {
    Arc::new(Field::new("entries", DataType::Struct(map_entries_fields(k, v)), false))
}
fn union_fields(fs: &[(i8, String, DType)]) -> UnionFields {
    UnionFields::try_new(fs.iter().map(|(i, _, _)| *i), fs.iter().map(|(_, n, d)| Field::new(n, d.to_arrow(), true))).expect("valid union fields")
}

/// ONE logical column: `values[i]` is the logical value of row `i`.
#[derive(Clone, Debug, PartialEq, Serialize, Deserialize)]
pub struct ColumnSpec {
    pub dtype: DType,
    pub values: Vec<Value>,
}

mod read;
mod render;
mod strat;
pub use read::array_to_values;
pub use render::{Encoding, Layout, NullVia, encoding_features, render, render_nonnull, try_render};
pub use strat::*;
