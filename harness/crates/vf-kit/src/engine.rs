//! The one runner every property uses: proptest as a library, deterministic seeds, sharding,
//! classification counters, panic capture, watchdog, regressions, known findings, evidence parts.
//!
//! Exit codes of `main_for`: 0 = held on everything explored; 1 = violation (a line
//! `VIOLATION property=<id> replay=<path>` is printed); 2 = harness problem, watchdog, vacuous run.

use proptest::strategy::{BoxedStrategy, Strategy};
use proptest::test_runner::{Config, RngSeed, TestCaseError, TestError, TestRunner};
use serde::{Serialize, de::DeserializeOwned};
use serde_json::{Value, json};
use std::collections::{BTreeMap, HashSet};
use std::fmt::Debug;
use std::panic::{AssertUnwindSafe, catch_unwind};
use std::path::{Path, PathBuf};
use std::sync::atomic::{AtomicBool, AtomicU64, Ordering};
use std::sync::{Arc, Mutex};
use std::time::{Duration, Instant};

#[derive(Clone, Copy, Debug, PartialEq, Eq)]
pub enum Tier {
    Quick,
    Thorough,
}

impl Tier {
    pub fn name(self) -> &'static str {
        match self {
            Tier::Quick => "quick",
            Tier::Thorough => "thorough",
        }
    }
    /// pick by tier
    pub fn pick<T>(self, quick: T, thorough: T) -> T {
        match self {
            Tier::Quick => quick,
            Tier::Thorough => thorough,
        }
    }
}

#[derive(Clone, Debug)]
pub enum Outcome {
    Pass,
    /// precondition of the property not met by this case / construct unsupported by the engine
    Discard(String),
    Violation(String),
    /// resource exhaustion where allowed, step limits, ...
    Inconclusive(String),
}

#[derive(Clone, Debug)]
pub struct CaseResult {
    pub outcome: Outcome,
    pub labels: Vec<String>,
    pub nontrivial: bool,
}

impl CaseResult {
    pub fn pass() -> Self {
        CaseResult { outcome: Outcome::Pass, labels: vec![], nontrivial: false }
    }
    pub fn violation(msg: impl Into<String>) -> Self {
        CaseResult { outcome: Outcome::Violation(msg.into()), labels: vec![], nontrivial: false }
    }
    pub fn discard(msg: impl Into<String>) -> Self {
        CaseResult { outcome: Outcome::Discard(msg.into()), labels: vec![], nontrivial: false }
    }
    pub fn inconclusive(msg: impl Into<String>) -> Self {
        CaseResult { outcome: Outcome::Inconclusive(msg.into()), labels: vec![], nontrivial: false }
    }
    pub fn nontrivial(mut self, nt: bool) -> Self {
        self.nontrivial = nt;
        self
    }
    pub fn label(mut self, l: impl Into<String>) -> Self {
        self.labels.push(l.into());
        self
    }
    pub fn labels<I: IntoIterator<Item = S>, S: Into<String>>(mut self, ls: I) -> Self {
        self.labels.extend(ls.into_iter().map(Into::into));
        self
    }
    pub fn is_violation(&self) -> bool {
        matches!(self.outcome, Outcome::Violation(_))
    }
}

#[derive(Clone, Debug)]
pub struct Budget {
    /// total number of generated cases (split over shards)
    pub cases: u32,
    pub shards: usize,
    pub max_shrink_iters: u32,
    /// stop shrinking after this many seconds
    pub max_shrink_secs: u32,
    /// a run with fewer distinct non-trivial cases than this is vacuous (exit 2)
    pub min_nontrivial: u64,
    /// a run with a larger fraction of discards is a harness problem (exit 2)
    pub discard_cap: f64,
    /// a single case running longer than this trips the watchdog (exit 2, never a violation)
    pub case_timeout_s: u64,
}

impl Budget {
    pub fn new(cases: u32, shards: usize) -> Self {
        Budget {
            cases,
            shards,
            max_shrink_iters: 2000,
            max_shrink_secs: 120,
            min_nontrivial: 2,
            discard_cap: 0.5,
            case_timeout_s: 120,
        }
    }
    pub fn min_nontrivial(mut self, n: u64) -> Self {
        self.min_nontrivial = n;
        self
    }
    pub fn discard_cap(mut self, c: f64) -> Self {
        self.discard_cap = c;
        self
    }
    pub fn case_timeout(mut self, s: u64) -> Self {
        self.case_timeout_s = s;
        self
    }
    pub fn shrink(mut self, iters: u32, secs: u32) -> Self {
        self.max_shrink_iters = iters;
        self.max_shrink_secs = secs;
        self
    }
}

pub trait Property: Sync + Send + 'static {
    type Case: Serialize + DeserializeOwned + Debug + Clone + Send + 'static;
    /// property id, e.g. "C12"
    fn id(&self) -> &'static str;
    /// sub-command name, e.g. "c12" or "c42a"
    fn sub(&self) -> &'static str;
    /// Generator. Called once per shard thread (strategies are not `Send`).
    fn strategy(&self, tier: Tier) -> BoxedStrategy<Self::Case>;
    /// The property body: a pure function of the case and the code under test.
    fn run(&self, case: &Self::Case) -> CaseResult;
    fn budget(&self, tier: Tier) -> Budget;
    /// how cases are generated and what makes one non-trivial / distinct
    fn rule(&self) -> String;
    fn level(&self) -> &'static str {
        "exploration"
    }
    fn assumptions(&self) -> Vec<String> {
        vec![]
    }
    /// normalised shape used to match entries of known_findings.json (None = never matches)
    fn known_signature(&self, _case: &Self::Case) -> Option<String> {
        None
    }
    /// extra deterministic sub-runs (exhaustive enumerations, corpus passes) executed once after
    /// the generated search; returns extra coverage keys. A violation found here is returned as Err
    /// with (message, case to write as the replay file).
    fn extra(&self, _tier: Tier, _seed: u64) -> Result<Value, (String, Self::Case)> {
        Ok(Value::Null)
    }
}

// ---------------------------------------------------------------------------------------------
// panic capture

#[derive(Clone, Debug)]
pub struct PanicInfo {
    pub message: String,
    pub location: String,
}

thread_local! {
    static LAST_PANIC: std::cell::RefCell<Option<PanicInfo>> = const { std::cell::RefCell::new(None) };
}
static PANIC_LOG: Mutex<Vec<String>> = Mutex::new(Vec::new());
static PANIC_COUNT: AtomicU64 = AtomicU64::new(0);

pub fn install_panic_hook() {
    std::panic::set_hook(Box::new(|info| {
        let message = if let Some(s) = info.payload().downcast_ref::<&str>() {
            s.to_string()
        } else if let Some(s) = info.payload().downcast_ref::<String>() {
            s.clone()
        } else {
            "<non-string panic payload>".to_string()
        };
        let location = info
            .location()
            .map(|l| format!("{}:{}:{}", l.file(), l.line(), l.column()))
            .unwrap_or_else(|| "<unknown>".into());
        PANIC_COUNT.fetch_add(1, Ordering::Relaxed);
        if let Ok(mut log) = PANIC_LOG.lock() {
            if log.len() < 20 {
                log.push(format!("{location}: {}", truncate(&message, 300)));
            }
        }
        LAST_PANIC.with(|p| *p.borrow_mut() = Some(PanicInfo { message, location }));
    }));
}

/// number of panics seen by the hook on any thread so far (tokio worker threads included)
pub fn panic_count() -> u64 {
    PANIC_COUNT.load(Ordering::Relaxed)
}

fn take_last_panic() -> Option<PanicInfo> {
    LAST_PANIC.with(|p| p.borrow_mut().take())
}

pub fn truncate(s: &str, n: usize) -> String {
    if s.len() <= n {
        s.to_string()
    } else {
        let mut end = n;
        while !s.is_char_boundary(end) {
            end -= 1;
        }
        format!("{}…[{} bytes]", &s[..end], s.len())
    }
}

fn is_harness_location(loc: &str) -> bool {
    loc.contains("/harness/crates/") || loc.contains("crates/vf-")
}

/// Run the property body with panic capture. A panic raised from a source file of the code under
/// test is a violation (with sound generators a panic always replaces a result the property
/// requires); a panic raised from a harness source file is a harness bug (Err → exit 2).
pub fn run_guarded<P: Property>(p: &P, case: &P::Case) -> Result<CaseResult, String> {
    let _ = take_last_panic();
    match catch_unwind(AssertUnwindSafe(|| p.run(case))) {
        Ok(r) => Ok(r),
        Err(_) => {
            let info = take_last_panic().unwrap_or(PanicInfo {
                message: "<panic without hook info>".into(),
                location: "<unknown>".into(),
            });
            if is_harness_location(&info.location) {
                Err(format!("harness panic at {}: {}", info.location, info.message))
            } else {
                Ok(CaseResult::violation(format!(
                    "panic in code under test at {}: {}",
                    info.location,
                    truncate(&info.message, 500)
                ))
                .label("panic"))
            }
        }
    }
}

// ---------------------------------------------------------------------------------------------
// helpers

pub fn splitmix64(mut x: u64) -> u64 {
    x = x.wrapping_add(0x9E37_79B9_7F4A_7C15);
    let mut z = x;
    z = (z ^ (z >> 30)).wrapping_mul(0xBF58_476D_1CE4_E5B9);
    z = (z ^ (z >> 27)).wrapping_mul(0x94D0_49BB_1331_11EB);
    z ^ (z >> 31)
}

pub fn fnv1a(bytes: &[u8]) -> u64 {
    let mut h: u64 = 0xcbf2_9ce4_8422_2325;
    for b in bytes {
        h ^= *b as u64;
        h = h.wrapping_mul(0x0000_0100_0000_01b3);
    }
    h
}

pub fn verif_root() -> PathBuf {
    if let Ok(r) = std::env::var("VERIF_ROOT") {
        return PathBuf::from(r);
    }
    PathBuf::from("/verif")
}

pub fn verif_seed() -> u64 {
    std::env::var("VERIF_SEED").ok().and_then(|s| s.trim().parse::<i64>().ok()).map(|v| v as u64).unwrap_or(0)
}

fn shard_seed(seed: u64, sub: &str, shard: usize) -> u64 {
    splitmix64(seed ^ 0x5eed_0000_0000_0000 ^ fnv1a(sub.as_bytes()).rotate_left(17) ^ ((shard as u64) << 48 | shard as u64))
}

fn sample_value<C: Serialize>(c: &C) -> Value {
    match serde_json::to_string(c) {
        Ok(s) if s.len() <= 6000 => serde_json::from_str(&s).unwrap_or(Value::String(s)),
        Ok(s) => Value::String(truncate(&s, 6000)),
        Err(e) => Value::String(format!("<unserialisable: {e}>")),
    }
}

#[derive(Default)]
struct Counters {
    evaluations: u64,
    pass: u64,
    discards: u64,
    inconclusive: u64,
    known_excluded: u64,
    nontrivial: u64,
    labels: BTreeMap<String, u64>,
    discard_reasons: BTreeMap<String, u64>,
    inconclusive_reasons: BTreeMap<String, u64>,
    fingerprints: HashSet<u64>,
    samples: Vec<Value>,
}

impl Counters {
    fn merge(&mut self, o: Counters) {
        self.evaluations += o.evaluations;
        self.pass += o.pass;
        self.discards += o.discards;
        self.inconclusive += o.inconclusive;
        self.known_excluded += o.known_excluded;
        self.nontrivial += o.nontrivial;
        for (k, v) in o.labels {
            *self.labels.entry(k).or_default() += v;
        }
        for (k, v) in o.discard_reasons {
            *self.discard_reasons.entry(k).or_default() += v;
        }
        for (k, v) in o.inconclusive_reasons {
            *self.inconclusive_reasons.entry(k).or_default() += v;
        }
        self.fingerprints.extend(o.fingerprints);
        for s in o.samples {
            if self.samples.len() < 5 {
                self.samples.push(s);
            }
        }
    }
}

fn reason_key(s: &str) -> String {
    // keep the histogram small: first 60 chars, digits collapsed
    let t: String = s.chars().take(60).map(|c| if c.is_ascii_digit() { '#' } else { c }).collect();
    t
}

struct Failure<C> {
    message: String,
    case: C,
    shrunk: bool,
}

struct KnownFinding {
    signature: String,
    what: String,
    case_file: Option<String>,
}

fn load_known(root: &Path, id: &str, sub: &str) -> Vec<KnownFinding> {
    let path = root.join("known_findings.json");
    let Ok(text) = std::fs::read_to_string(&path) else { return vec![] };
    let Ok(v) = serde_json::from_str::<Value>(&text) else {
        eprintln!("warning: known_findings.json does not parse");
        return vec![];
    };
    let mut out = vec![];
    for e in v.get("findings").and_then(|f| f.as_array()).cloned().unwrap_or_default() {
        if e.get("property").and_then(|x| x.as_str()) != Some(id) {
            continue;
        }
        if let Some(s) = e.get("sub").and_then(|x| x.as_str()) {
            if s != sub {
                continue;
            }
        }
        if e.get("status").and_then(|x| x.as_str()) != Some("open") {
            continue;
        }
        out.push(KnownFinding {
            signature: e.get("signature").and_then(|x| x.as_str()).unwrap_or("").to_string(),
            what: e.get("what").and_then(|x| x.as_str()).unwrap_or("").to_string(),
            case_file: e.get("case").and_then(|x| x.as_str()).map(|s| s.to_string()),
        });
    }
    out
}

fn write_replay<C: Serialize>(root: &Path, sub: &str, tag: &str, case: &C) -> PathBuf {
    let dir = root.join("replays");
    let _ = std::fs::create_dir_all(&dir);
    let text = serde_json::to_string_pretty(case).unwrap_or_else(|e| format!("\"<unserialisable {e}>\""));
    let path = dir.join(format!("{sub}-{tag}-{:016x}.json", fnv1a(text.as_bytes())));
    let _ = std::fs::write(&path, text);
    path
}

fn usage(p: &impl Property) -> i32 {
    eprintln!("usage: <bin> {} quick|thorough | --replay <file>", p.sub());
    2
}

/// Entry point for one sub-command. `args` are the arguments after the sub-command name.
pub fn main_for<P: Property>(p: P, args: &[String]) -> i32 {
    install_panic_hook();
    let root = verif_root();
    if args.is_empty() {
        return usage(&p);
    }
    if args[0] == "--replay" {
        let Some(f) = args.get(1) else { return usage(&p) };
        return replay_file(&p, Path::new(f), true);
    }
    let mut tier = match args[0].as_str() {
        "quick" => Tier::Quick,
        "thorough" => Tier::Thorough,
        _ => return usage(&p),
    };
    if let Ok(t) = std::env::var("VERIF_TIER") {
        match t.as_str() {
            "quick" => tier = Tier::Quick,
            "thorough" => tier = Tier::Thorough,
            _ => {}
        }
    }
    let seed = verif_seed();
    run_tier(p, tier, seed, &root)
}

fn replay_file<P: Property>(p: &P, f: &Path, verbose: bool) -> i32 {
    let text = match std::fs::read_to_string(f) {
        Ok(t) => t,
        Err(e) => {
            eprintln!("cannot read {}: {e}", f.display());
            return 2;
        }
    };
    let case: P::Case = match serde_json::from_str(&text) {
        Ok(c) => c,
        Err(e) => {
            eprintln!("cannot parse {} as a {} case: {e}", f.display(), p.sub());
            return 2;
        }
    };
    match run_guarded(p, &case) {
        Err(h) => {
            eprintln!("{h}");
            2
        }
        Ok(r) => {
            if verbose {
                println!("replay {} -> {:?} labels={:?} nontrivial={}", f.display(), r.outcome, r.labels, r.nontrivial);
            }
            if let Outcome::Violation(_) = r.outcome {
                println!("VIOLATION property={} replay={}", p.id(), f.display());
                1
            } else {
                0
            }
        }
    }
}

fn run_tier<P: Property>(p: P, tier: Tier, seed: u64, root: &Path) -> i32 {
    let t0 = Instant::now();
    let p = Arc::new(p);
    let id = p.id();
    let sub = p.sub();
    let budget = p.budget(tier);
    let mut notes: Vec<String> = vec![];
    let mut violations: Vec<(String, PathBuf)> = vec![];
    let mut known_lines: Vec<String> = vec![];
    let mut regressions_run = 0u64;

    // 1. known findings (open): replay the stored minimal case
    let known = load_known(root, id, sub);
    for k in &known {
        if let Some(cf) = &k.case_file {
            let path = root.join(cf);
            match std::fs::read_to_string(&path).ok().and_then(|t| serde_json::from_str::<P::Case>(&t).ok()) {
                None => notes.push(format!("known finding case {} unreadable", path.display())),
                Some(case) => match run_guarded(&*p, &case) {
                    Ok(r) if r.is_violation() => known_lines.push(format!("KNOWN-FINDING: property={id} {}", k.what)),
                    Ok(_) => notes.push(format!("known finding '{}' no longer reproduces", k.what)),
                    Err(h) => {
                        eprintln!("{h}");
                        return 2;
                    }
                },
            }
        }
    }
    let known_sigs: Arc<HashSet<String>> = Arc::new(known.iter().map(|k| k.signature.clone()).filter(|s| !s.is_empty()).collect());

    // 2. regressions: saved shrunk cases, must all pass
    let reg_dir = root.join("regressions").join(id).join(sub);
    if let Ok(rd) = std::fs::read_dir(&reg_dir) {
        let mut files: Vec<PathBuf> = rd.filter_map(|e| e.ok().map(|e| e.path())).filter(|p| p.extension().map(|x| x == "json").unwrap_or(false)).collect();
        files.sort();
        for f in files {
            let Some(case) = std::fs::read_to_string(&f).ok().and_then(|t| serde_json::from_str::<P::Case>(&t).ok()) else {
                notes.push(format!("regression file {} unreadable (case type changed?)", f.display()));
                continue;
            };
            regressions_run += 1;
            match run_guarded(&*p, &case) {
                Err(h) => {
                    eprintln!("{h}");
                    return 2;
                }
                Ok(r) => {
                    if let Outcome::Violation(m) = r.outcome {
                        let sig = p.known_signature(&case);
                        if sig.as_ref().map(|s| known_sigs.contains(s)).unwrap_or(false) {
                            continue;
                        }
                        eprintln!("regression {} fails: {}", f.display(), truncate(&m, 2000));
                        violations.push((m, f.clone()));
                    }
                }
            }
        }
    }

    // 3. generated search
    let stop = Arc::new(AtomicBool::new(false));
    let shards = budget.shards.max(1);
    let per_shard = (budget.cases as usize).div_ceil(shards) as u32;
    type Slot<C> = Arc<Mutex<Option<(Instant, C)>>>;
    let slots: Vec<Slot<P::Case>> = (0..shards).map(|_| Arc::new(Mutex::new(None))).collect();
    let done = Arc::new(AtomicBool::new(false));
    let harness_error: Arc<Mutex<Option<String>>> = Arc::new(Mutex::new(None));

    // watchdog
    {
        let slots = slots.clone();
        let done = done.clone();
        let timeout = Duration::from_secs(budget.case_timeout_s);
        let root = root.to_path_buf();
        std::thread::spawn(move || {
            loop {
                std::thread::sleep(Duration::from_millis(500));
                if done.load(Ordering::SeqCst) {
                    return;
                }
                for s in &slots {
                    let guard = s.lock().unwrap();
                    if let Some((t, c)) = &*guard {
                        if t.elapsed() > timeout {
                            let path = write_replay(&root, sub, "watchdog", c);
                            println!(
                                "WATCHDOG property={id} sub={sub}: a case ran longer than {}s — inconclusive (not a violation); case saved to {}",
                                timeout.as_secs(),
                                path.display()
                            );
                            std::process::exit(2);
                        }
                    }
                }
            }
        });
    }

    let mut handles = vec![];
    for shard in 0..shards {
        let p = p.clone();
        let stop = stop.clone();
        let slot = slots[shard].clone();
        let known_sigs = known_sigs.clone();
        let harness_error = harness_error.clone();
        let budget = budget.clone();
        let h = std::thread::Builder::new()
            .name(format!("shard-{shard}"))
            .stack_size(64 << 20)
            .spawn(move || -> (Counters, Option<Failure<P::Case>>, Option<String>) {
                let counters = std::cell::RefCell::new(Counters::default());
                let failed = std::cell::Cell::new(false);
                let first_fail: std::cell::RefCell<Option<(String, P::Case)>> = std::cell::RefCell::new(None);
                let config = Config {
                    cases: per_shard,
                    rng_seed: RngSeed::Fixed(shard_seed(seed, sub, shard)),
                    failure_persistence: None,
                    max_shrink_iters: budget.max_shrink_iters,
                    max_shrink_time: budget.max_shrink_secs.saturating_mul(1000),
                    max_global_rejects: 64,
                    ..Config::default()
                };
                let mut runner = TestRunner::new(config);
                let strategy = p.strategy(tier);
                let result = runner.run(&strategy, |case| {
                    if harness_error.lock().unwrap().is_some() {
                        return Err(TestCaseError::reject("harness error"));
                    }
                    let shrinking = failed.get();
                    if !shrinking && stop.load(Ordering::SeqCst) {
                        return Err(TestCaseError::reject("stopped: another shard failed"));
                    }
                    if let Some(sig) = p.known_signature(&case) {
                        if known_sigs.contains(&sig) {
                            if !shrinking {
                                counters.borrow_mut().known_excluded += 1;
                            }
                            return Ok(());
                        }
                    }
                    *slot.lock().unwrap() = Some((Instant::now(), case.clone()));
                    let r = run_guarded(&*p, &case);
                    *slot.lock().unwrap() = None;
                    let r = match r {
                        Ok(r) => r,
                        Err(h) => {
                            let path = write_replay(&verif_root(), sub, "harness-panic", &case);
                            *harness_error.lock().unwrap() = Some(format!("{h} (case saved to {})", path.display()));
                            return Err(TestCaseError::reject("harness error"));
                        }
                    };
                    if shrinking {
                        // during shrinking only the verdict matters
                        return match r.outcome {
                            Outcome::Violation(m) => Err(TestCaseError::fail(m)),
                            _ => Ok(()),
                        };
                    }
                    let mut c = counters.borrow_mut();
                    c.evaluations += 1;
                    for l in &r.labels {
                        *c.labels.entry(l.clone()).or_default() += 1;
                    }
                    match &r.outcome {
                        Outcome::Pass => c.pass += 1,
                        Outcome::Discard(why) => {
                            c.discards += 1;
                            *c.discard_reasons.entry(reason_key(why)).or_default() += 1;
                        }
                        Outcome::Inconclusive(why) => {
                            c.inconclusive += 1;
                            *c.inconclusive_reasons.entry(reason_key(why)).or_default() += 1;
                        }
                        Outcome::Violation(_) => {}
                    }
                    if r.nontrivial && matches!(r.outcome, Outcome::Pass | Outcome::Violation(_)) {
                        c.nontrivial += 1;
                        if let Ok(s) = serde_json::to_vec(&case) {
                            if c.fingerprints.insert(fnv1a(&s)) && c.samples.len() < 3 {
                                c.samples.push(sample_value(&case));
                            }
                        }
                    }
                    if let Outcome::Violation(m) = r.outcome {
                        failed.set(true);
                        stop.store(true, Ordering::SeqCst);
                        *first_fail.borrow_mut() = Some((m.clone(), case.clone()));
                        return Err(TestCaseError::fail(m));
                    }
                    Ok(())
                });
                let mut aborted = None;
                let failure = match result {
                    Ok(()) => None,
                    Err(TestError::Fail(reason, case)) => Some(Failure { message: reason.message().to_string(), case, shrunk: true }),
                    Err(TestError::Abort(reason)) => {
                        // stopped early (other shard failed / harness error); keep an unshrunk failure if any
                        if !stop.load(Ordering::SeqCst) && harness_error.lock().unwrap().is_none() {
                            aborted = Some(reason.message().to_string());
                        }
                        first_fail.borrow_mut().take().map(|(m, c)| Failure { message: m, case: c, shrunk: false })
                    }
                };
                (counters.into_inner(), failure, aborted)
            })
            .expect("spawn shard");
        handles.push(h);
    }
    let mut total = Counters::default();
    let mut failures: Vec<Failure<P::Case>> = vec![];
    for h in handles {
        match h.join() {
            Ok((c, f, aborted)) => {
                total.merge(c);
                if let Some(f) = f {
                    failures.push(f);
                }
                if let Some(a) = aborted {
                    eprintln!("HARNESS-ERROR property={id} sub={sub}: generator aborted ({a}) — too many strategy-level rejections; fix the generator");
                    return 2;
                }
            }
            Err(_) => {
                eprintln!("shard thread panicked outside a case (harness bug)");
                return 2;
            }
        }
    }
    done.store(true, Ordering::SeqCst);
    if let Some(h) = harness_error.lock().unwrap().take() {
        eprintln!("HARNESS-ERROR property={id} sub={sub}: {h}");
        return 2;
    }

    for f in failures {
        // confirm the (shrunk) case still fails from a clean call; fall back to message as is
        let confirmed = matches!(run_guarded(&*p, &f.case), Ok(r) if r.is_violation());
        let sig = p.known_signature(&f.case);
        if sig.as_ref().map(|s| known_sigs.contains(s)).unwrap_or(false) {
            let what = known.iter().find(|k| Some(&k.signature) == sig.as_ref()).map(|k| k.what.clone()).unwrap_or_default();
            let line = format!("KNOWN-FINDING: property={id} {what}");
            if !known_lines.contains(&line) {
                known_lines.push(line);
            }
            continue;
        }
        let path = write_replay(root, sub, "fail", &f.case);
        eprintln!(
            "FAIL {sub} (shrunk={}, reconfirmed={}): {}\n  case: {}",
            f.shrunk,
            confirmed,
            truncate(&f.message, 4000),
            truncate(&serde_json::to_string(&f.case).unwrap_or_default(), 3000)
        );
        if !confirmed {
            notes.push("a failing case did not reproduce on re-run (flaky oracle or shared state?)".into());
        }
        violations.push((f.message, path));
    }

    // 4. deterministic extra sub-runs
    let mut extra = Value::Null;
    if violations.is_empty() {
        match catch_unwind(AssertUnwindSafe(|| p.extra(tier, seed))) {
            Ok(Ok(v)) => extra = v,
            Ok(Err((m, case))) => {
                let path = write_replay(root, sub, "fail", &case);
                eprintln!("FAIL {sub} (extra sub-run): {}", truncate(&m, 4000));
                violations.push((m, path));
            }
            Err(_) => {
                let info = take_last_panic();
                eprintln!("HARNESS-ERROR property={id} sub={sub}: panic in extra sub-run: {info:?}");
                return 2;
            }
        }
    }

    let wall = t0.elapsed().as_secs_f64();
    let distinct = total.fingerprints.len() as u64;
    let mut coverage = json!({
        "evaluations": total.evaluations,
        "distinct_nontrivial": distinct,
        "nontrivial_evaluations": total.nontrivial,
        "rule": p.rule(),
        "samples": total.samples,
        "labels": total.labels,
        "pass": total.pass,
        "discards": total.discards,
        "discard_reasons": total.discard_reasons,
        "inconclusive": total.inconclusive,
        "inconclusive_reasons": total.inconclusive_reasons,
        "known_excluded": total.known_excluded,
        "regressions_replayed": regressions_run,
        "shards": shards,
        "cases_budget": budget.cases,
        "panics_seen_by_hook": panic_count(),
    });
    if !extra.is_null() {
        if let (Some(obj), Some(ex)) = (coverage.as_object_mut(), extra.as_object()) {
            for (k, v) in ex {
                obj.insert(k.clone(), v.clone());
            }
        }
    }
    if !notes.is_empty() {
        coverage["notes"] = json!(notes);
    }
    if let Ok(log) = PANIC_LOG.lock() {
        if !log.is_empty() {
            coverage["panic_log"] = json!(*log);
        }
    }
    let part = json!({
        "property_id": id,
        "sub": sub,
        "tier": tier.name(),
        "seed": seed as i64,
        "level": p.level(),
        "coverage": coverage,
        "assumptions": p.assumptions(),
        "wall_s": wall,
        "violations": violations.len(),
        "known_findings_reported": known_lines.len(),
    });
    let parts = root.join("evidence").join(".parts");
    let _ = std::fs::create_dir_all(&parts);
    let part_path = parts.join(format!("{id}.{sub}.json"));
    if let Err(e) = std::fs::write(&part_path, serde_json::to_string_pretty(&part).unwrap()) {
        eprintln!("cannot write {}: {e}", part_path.display());
        return 2;
    }

    for l in &known_lines {
        println!("{l}");
    }
    println!(
        "{sub} {}: evaluations={} distinct_nontrivial={} discards={} inconclusive={} known_excluded={} regressions={} wall={:.1}s",
        tier.name(),
        total.evaluations,
        distinct,
        total.discards,
        total.inconclusive,
        total.known_excluded,
        regressions_run,
        wall
    );
    if !violations.is_empty() {
        for (_, path) in &violations {
            println!("VIOLATION property={id} replay={}", path.display());
        }
        return 1;
    }
    // vacuity / health checks: never exit 0 for a run that tested little
    if total.evaluations == 0 {
        eprintln!("VACUOUS property={id} sub={sub}: no case evaluated");
        return 2;
    }
    if (total.discards as f64) > budget.discard_cap * (total.evaluations as f64) {
        eprintln!(
            "UNHEALTHY property={id} sub={sub}: {} of {} cases discarded (> {:.0}%): {:?}",
            total.discards,
            total.evaluations,
            budget.discard_cap * 100.0,
            total.discard_reasons
        );
        return 2;
    }
    if (total.inconclusive as f64) > 0.5 * (total.evaluations as f64) {
        eprintln!("UNHEALTHY property={id} sub={sub}: more than half of the cases inconclusive: {:?}", total.inconclusive_reasons);
        return 2;
    }
    if distinct < budget.min_nontrivial {
        eprintln!("VACUOUS property={id} sub={sub}: only {distinct} distinct non-trivial cases (floor {})", budget.min_nontrivial);
        return 2;
    }
    0
}

/// Dispatch helper for binaries hosting several sub-commands.
#[macro_export]
macro_rules! dispatch {
    ($($name:literal => $prop:expr),+ $(,)?) => {{
        let args: Vec<String> = std::env::args().collect();
        let code = match args.get(1).map(|s| s.as_str()) {
            $(Some($name) => $crate::engine::main_for($prop, &args[2..]),)+
            _ => {
                eprintln!("sub-commands: {}", [$($name),+].join(" "));
                2
            }
        };
        std::process::exit(code);
    }};
}

/// Monotone index mapping (shrink-friendly): maps a u16 choice onto 0..len.
pub fn pick_index(choice: u16, len: usize) -> usize {
    if len == 0 {
        return 0;
    }
    ((choice as usize) * len) >> 16
}

pub fn boxed<S: Strategy + 'static>(s: S) -> BoxedStrategy<S::Value> {
    s.boxed()
}
