//! C52 — qualified names round-trip through their quoted text form.
//!
//! Domain: 1–3 non-empty identifier parts (1–4 for columns) over an alphabet biased to the
//! characters that matter for quoting (`.`, `"`, `'`, whitespace, backslash, upper case, digits first,
//! keywords, unicode). Oracle: round trip through the engine's own parser.
use datafusion_common::utils::quote_identifier;
use datafusion_common::{Column, TableReference};
use proptest::prelude::*;
use serde::{Deserialize, Serialize};
use vf_kit::engine::*;

pub struct C52;

#[derive(Clone, Debug, Serialize, Deserialize)]
pub struct Case {
    /// catalog / schema / table parts (1–3), then optionally a column name
    pub parts: Vec<String>,
    pub column: Option<String>,
}

fn ident() -> BoxedStrategy<String> {
    let awkward = prop::sample::select(vec![
        ".", "\"", "'", " ", "\t", "\n", "\\", "%", "`", "[", "]", ";", "-", "$", "@", "#", "(", ")", ",", "/", "*", "=", "é", "ß", "İ", "日", "😀", "\u{301}", "\u{200b}",
        "A", "Z", "a", "z", "_", "0", "9",
    ])
    .prop_map(|s| s.to_string());
    let keywords = prop::sample::select(vec![
        "select", "SELECT", "table", "Table", "from", "null", "NULL", "true", "order", "group", "user", "current_date", "a.b", "\"a\"", "a\"\"b", "1a", "_x", "x1", "é", "T", "t",
    ])
    .prop_map(|s| s.to_string());
    let built = prop::collection::vec(awkward, 1..6).prop_map(|v| v.concat());
    let simple = "[a-z_][a-z0-9_]{0,6}".prop_map(|s| s);
    let mixed = "[A-Za-z0-9_ .\"']{1,8}".prop_map(|s| s);
    let any = any::<String>().prop_filter_map("non-empty", |s| {
        let s: String = s.chars().take(8).collect();
        if s.is_empty() { None } else { Some(s) }
    });
    prop_oneof![4 => built, 2 => keywords, 1 => simple, 2 => mixed, 1 => any].boxed()
}

fn contains_special(s: &str) -> bool {
    s.contains('.') || s.contains('"')
}

fn needs_quotes_model(s: &str) -> bool {
    let mut cs = s.chars();
    match cs.next() {
        Some(c) if c.is_ascii_lowercase() || c == '_' => {}
        _ => return true,
    }
    !cs.all(|c| c.is_ascii_lowercase() || c.is_ascii_digit() || c == '_')
}

impl Property for C52 {
    type Case = Case;
    fn id(&self) -> &'static str {
        "C52"
    }
    fn sub(&self) -> &'static str {
        "c52"
    }
    fn strategy(&self, _tier: Tier) -> BoxedStrategy<Case> {
        (prop::collection::vec(ident(), 1..4), prop::option::weighted(0.5, ident()))
            .prop_map(|(parts, column)| Case { parts, column })
            .boxed()
    }
    fn budget(&self, tier: Tier) -> Budget {
        Budget::new(tier.pick(2_000_000, 50_000_000), tier.pick(8, 16)).min_nontrivial(tier.pick(1000, 10000))
    }
    fn rule(&self) -> String {
        "1-3 non-empty identifier parts (+ optional column name) drawn from an alphabet biased to quoting-relevant characters; \
         non-trivial = 2+ parts (or a qualified column) and some part needs quoting and contains '.' or '\"'; distinct by case JSON"
            .into()
    }
    fn assumptions(&self) -> Vec<String> {
        vec!["empty identifiers are outside the domain (not identifiers)".into(), "datafusion-common built with the `sql` feature, as the umbrella crate does".into()]
    }
    fn run(&self, case: &Case) -> CaseResult {
        if case.parts.is_empty() || case.parts.len() > 3 || case.parts.iter().any(|p| p.is_empty()) || case.column.as_deref() == Some("") {
            return CaseResult::discard("outside domain: empty identifier");
        }
        let r = match case.parts.len() {
            1 => TableReference::bare(case.parts[0].as_str()),
            2 => TableReference::partial(case.parts[0].as_str(), case.parts[1].as_str()),
            _ => TableReference::full(case.parts[0].as_str(), case.parts[1].as_str(), case.parts[2].as_str()),
        };
        let text = r.to_quoted_string();
        let back = TableReference::parse_str(&text);
        if back != r {
            return CaseResult::violation(format!("TableReference {r:?} renders as {text:?} which parses back to {back:?}"));
        }
        let back2 = TableReference::parse_str_normalized(&text, true);
        if back2 != r {
            return CaseResult::violation(format!("TableReference {r:?} renders as {text:?}; parse_str_normalized(ignore_case) gives {back2:?}"));
        }
        let back3: TableReference = text.as_str().into();
        if back3 != r {
            return CaseResult::violation(format!("TableReference {r:?} renders as {text:?}; From<&str> gives {back3:?}"));
        }
        // every part alone: quote_identifier output re-parses to the same single identifier
        for p in case.parts.iter().chain(case.column.iter()) {
            let q = quote_identifier(p);
            let one = TableReference::parse_str(&q);
            if one != TableReference::bare(p.as_str()) {
                return CaseResult::violation(format!("identifier {p:?} quoted as {q:?} parses back to {one:?}"));
            }
            // unquoted output is only allowed for names that survive normalisation unchanged
            if !q.starts_with('"') && needs_quotes_model(p) {
                return CaseResult::violation(format!("identifier {p:?} rendered without quotes as {q:?}"));
            }
        }
        let mut qualified_col = false;
        if let Some(name) = &case.column {
            for with_rel in [true, false] {
                let c = if with_rel { Column::new(Some(r.clone()), name.as_str()) } else { Column::new_unqualified(name.as_str()) };
                let t = c.quoted_flat_name();
                let b = Column::from_qualified_name(t.as_str());
                if b.relation != c.relation || b.name != c.name {
                    return CaseResult::violation(format!("Column {c:?} renders as {t:?} which parses back to {b:?}"));
                }
                let b2 = Column::from_qualified_name_ignore_case(t.as_str());
                if b2.relation != c.relation || b2.name != c.name {
                    return CaseResult::violation(format!("Column {c:?} renders as {t:?}; ignore-case parse gives {b2:?}"));
                }
            }
            qualified_col = true;
        }
        let all: Vec<&String> = case.parts.iter().chain(case.column.iter()).collect();
        let nt = (case.parts.len() >= 2 || qualified_col) && all.iter().any(|p| needs_quotes_model(p) && contains_special(p));
        let mut res = CaseResult::pass().nontrivial(nt).label(format!("parts={}", case.parts.len()));
        if qualified_col {
            res = res.label("column");
        }
        if all.iter().any(|p| p.contains('"')) {
            res = res.label("has-dquote");
        }
        if all.iter().any(|p| p.contains('.')) {
            res = res.label("has-dot");
        }
        if all.iter().any(|p| !p.is_ascii()) {
            res = res.label("non-ascii");
        }
        if all.iter().all(|p| !needs_quotes_model(p)) {
            res = res.label("no-quoting-needed");
        }
        res
    }
}
