//! C12 — row hashes depend only on the logical row value.
//!
//! Domain: 1–4 key columns of any hashable Arrow type (all primitives incl. f16/f32/f64 with ±0.0, NaN,
//! decimals 32–256, temporal, intervals, Utf8/LargeUtf8/Utf8View, Binary/LargeBinary/BinaryView/
//! FixedSizeBinary, Null, Dictionary (all 8 key widths) and RunEndEncoded (3 run-end widths) over any of
//! them, List / LargeList / ListView / LargeListView / FixedSizeList / Struct / Map / Union (sparse and
//! dense) nested up to two levels), 0–40 rows (thorough: 0–100), values from small pools (duplicate- and
//! NULL-heavy). Every column is rendered twice, under two independent `vf_kit::data::Encoding`s (slice
//! offsets, explicit validity, junk under NULLs, dictionary permutation / duplicates / unused / NULL via
//! key or value, view buffer layout, run boundaries, list offsets / unreferenced child ranges, list-view
//! segment order and sharing, dense-union gaps): same Arrow data type, same logical content.
//!
//! Oracle (metamorphic): for `create_hashes` with `RandomState::with_seed(s)` and with
//! `QualityRandomState`, and for `create_hashes_with_hasher` with a SipHash `BuildHasherDefault` and with
//! the foldhash state used as a plain `BuildHasher`: hashes(encoding A) == hashes(encoding B) row by row;
//! `with_hashes` / `with_hashes_with_hasher` return what the direct entry points return; rows that are
//! equal as key values (NULL = NULL, −0.0 = +0.0, structurally otherwise) hash equally; and for scalars
//! taken from the arrays with `ScalarValue::try_from_array`, `a == b ⇒ hash(a) == hash(b)` (std `Hash`,
//! deterministic SipHash) across encodings and across equal rows.
//! Not demanded: equality between the two hashing APIs, across data types, across dictionary key widths.
//!
//! Deviations from DESIGN.md §C12: Dictionary key width / string flavour / list flavour are part of the
//! data type (vf_kit::data::DType), so both encodings share them ("columns of the same data types");
//! a third encoding is not generated (two suffice for a metamorphic pair). Columns whose distinct values
//! overflow an 8-bit dictionary key are discarded (not representable) — rare.
//!
//! Sensitivity probes (tools/mutrun, `./check C12 quick`, patches in crates/vf-common/probes/):
//! * c12-neg-zero-hash-one.diff — drop the −0.0 normalisation in `HashValue::hash_one` for floats:
//!   VIOLATION after 3 375 cases ("rows 0 and 6 are equal key values [Struct([-0.0])] but hash differently").
//! * c12-dict-null-value-with-null-keys.diff — dictionary scatter no longer skips NULL dictionary values when
//!   the keys carry NULLs: VIOLATION after 32 cases (row hash differs between encodings A and B).
//! * c12-view-inline-threshold.diff — view kernel treats strings up to 16 B as inline (hashes the view word,
//!   i.e. buffer index and offset) : VIOLATION after 6 cases ("hello world!!" under two buffer layouts).
//! * c12-view-buffer-index.diff — view kernel always reads data buffer 0: the debug build's unsafe-precondition
//!   check aborts the process (exit 2 "ended abnormally"), i.e. noticed but not as a VIOLATION line; replaced by
//!   the threshold probe above.
//! Quick: 30 000 cases, 8 shards (3 s on an idle machine, ~35 s with all cores busy elsewhere); thorough: 1 000 000 cases, 16 shards,
//! rows up to 100.
use arrow::array::ArrayRef;
use datafusion_common::ScalarValue;
use datafusion_common::hash_utils::{QualityRandomState, RandomState, create_hashes, create_hashes_with_hasher, with_hashes, with_hashes_with_hasher};
use proptest::prelude::*;
use serde::{Deserialize, Serialize};
use std::collections::BTreeSet;
use std::hash::{BuildHasher, BuildHasherDefault, Hash, Hasher};
use vf_kit::data::{self, ColumnSpec, DTypeCfg, Encoding, Value};
use vf_kit::engine::*;

pub struct C12;

#[derive(Clone, Debug, Serialize, Deserialize)]
pub struct KeyCol {
    pub spec: ColumnSpec,
    pub enc_a: Encoding,
    pub enc_b: Encoding,
}

#[derive(Clone, Debug, Serialize, Deserialize)]
pub struct Case {
    /// seed of the foldhash states
    pub seed: u64,
    pub cols: Vec<KeyCol>,
}

type Sip = BuildHasherDefault<std::collections::hash_map::DefaultHasher>;

fn std_hash(s: &ScalarValue) -> u64 {
    let mut h = std::collections::hash_map::DefaultHasher::new();
    s.hash(&mut h);
    h.finish()
}

fn first_diff(a: &[u64], b: &[u64]) -> Option<usize> {
    if a.len() != b.len() {
        return Some(a.len().min(b.len()));
    }
    a.iter().zip(b).position(|(x, y)| x != y)
}

fn describe(case: &Case, row: usize) -> String {
    let vals: Vec<String> = case.cols.iter().map(|c| format!("{:?}", c.spec.values.get(row))).collect();
    truncate(&vals.join(", "), 600)
}

/// direct and buffered hashes under one hashing API; Err = engine error / mismatch message
fn hashes_state<S: datafusion_common::hash_utils::HashState>(arrays: &[ArrayRef], n: usize, st: &S, what: &str) -> Result<Vec<u64>, CaseResult> {
    let mut buf = vec![0u64; n];
    if let Err(e) = create_hashes(arrays, st, &mut buf) {
        return Err(CaseResult::violation(format!("create_hashes({what}) failed on a supported key type: {e}")));
    }
    match with_hashes(arrays, st, |h| Ok(h.to_vec())) {
        Err(e) => return Err(CaseResult::violation(format!("with_hashes({what}) failed: {e}"))),
        Ok(w) => {
            if let Some(i) = first_diff(&w, &buf) {
                return Err(CaseResult::violation(format!("with_hashes({what}) differs from create_hashes at row {i}: {:?} vs {:?}", w.get(i), buf.get(i))));
            }
        }
    }
    Ok(buf)
}

fn hashes_builder<S: BuildHasher>(arrays: &[ArrayRef], n: usize, st: &S, what: &str) -> Result<Vec<u64>, CaseResult> {
    let mut buf = vec![0u64; n];
    if let Err(e) = create_hashes_with_hasher(arrays, st, &mut buf) {
        return Err(CaseResult::violation(format!("create_hashes_with_hasher({what}) failed on a supported key type: {e}")));
    }
    match with_hashes_with_hasher(arrays, st, |h| Ok(h.to_vec())) {
        Err(e) => return Err(CaseResult::violation(format!("with_hashes_with_hasher({what}) failed: {e}"))),
        Ok(w) => {
            if let Some(i) = first_diff(&w, &buf) {
                return Err(CaseResult::violation(format!("with_hashes_with_hasher({what}) differs from create_hashes_with_hasher at row {i}: {:?} vs {:?}", w.get(i), buf.get(i))));
            }
        }
    }
    Ok(buf)
}

impl C12 {
    fn cfg() -> DTypeCfg {
        DTypeCfg::all(2)
    }
}

impl Property for C12 {
    type Case = Case;
    fn id(&self) -> &'static str {
        "C12"
    }
    fn sub(&self) -> &'static str {
        "c12"
    }
    fn strategy(&self, tier: Tier) -> BoxedStrategy<Case> {
        let max_rows = tier.pick(40usize, 100usize);
        let rows = prop_oneof![1 => 0usize..=2, 4 => 1usize..=12, 3 => 0usize..=max_rows];
        let seed = prop_oneof![Just(0u64), any::<u64>()];
        (rows, 1usize..=4, seed)
            .prop_flat_map(|(n, ncols, seed)| {
                let col = data::dtype_strategy(&C12::cfg()).prop_flat_map(move |dt| {
                    let e = data::encoding_strategy(&dt);
                    (data::column_strategy(&dt, n..=n), e.clone(), e).prop_map(|(spec, enc_a, enc_b)| KeyCol { spec, enc_a, enc_b })
                });
                (Just(seed), prop::collection::vec(col, ncols..=ncols))
            })
            .prop_map(|(seed, cols)| Case { seed, cols })
            .boxed()
    }
    fn budget(&self, tier: Tier) -> Budget {
        Budget::new(tier.pick(30_000, 1_000_000), tier.pick(8, 16)).min_nontrivial(tier.pick(3_000, 50_000))
    }
    fn rule(&self) -> String {
        "1-4 key columns of generated Arrow types (nested to depth 2, dictionary / run-end wrapped), 0-40 rows from small value pools, each column rendered under two \
         independently generated physical encodings; non-trivial = at least one column whose two encodings differ and use a buffer-level feature, and some row has a NULL \
         (at any depth) or two rows are equal as key values; distinct by case JSON"
            .into()
    }
    fn assumptions(&self) -> Vec<String> {
        vec![
            "vf_kit::data::render produces valid Arrow arrays with identical logical content under every encoding (self-tested with ArrayData::validate_full and a logical read-back)".into(),
            "hash buffers are zero-initialised by the caller, as DataFusion's callers do".into(),
            "ScalarValue's own == is the antecedent of the scalar law (it delegates to arrow's logical array equality for nested values)".into(),
        ]
    }
    fn run(&self, case: &Case) -> CaseResult {
        if case.cols.is_empty() || case.cols.len() > 8 {
            return CaseResult::discard("outside domain: need 1-8 key columns");
        }
        let n = case.cols[0].spec.values.len();
        if case.cols.iter().any(|c| c.spec.values.len() != n) {
            return CaseResult::discard("outside domain: key columns of different lengths");
        }
        let mut arrays_a: Vec<ArrayRef> = vec![];
        let mut arrays_b: Vec<ArrayRef> = vec![];
        for c in &case.cols {
            match (data::try_render(&c.spec, &c.enc_a), data::try_render(&c.spec, &c.enc_b)) {
                (Ok(a), Ok(b)) => {
                    arrays_a.push(a);
                    arrays_b.push(b);
                }
                _ => return CaseResult::discard("column not representable: dictionary key width overflow"),
            }
        }

        // ---- row hashes under the four hasher configurations
        let fast = RandomState::with_seed(case.seed);
        let quality = QualityRandomState::with_seed(case.seed);
        let sip = Sip::default();
        let mut all: Vec<(&str, Vec<u64>, Vec<u64>)> = vec![];
        macro_rules! both {
            ($f:ident, $st:expr, $what:expr) => {{
                let a = match $f(&arrays_a, n, $st, $what) {
                    Ok(v) => v,
                    Err(r) => return r,
                };
                let b = match $f(&arrays_b, n, $st, $what) {
                    Ok(v) => v,
                    Err(r) => return r,
                };
                all.push(($what, a, b));
            }};
        }
        both!(hashes_state, &fast, "RandomState");
        both!(hashes_state, &quality, "QualityRandomState");
        both!(hashes_builder, &sip, "with_hasher/SipHash");
        both!(hashes_builder, &fast, "with_hasher/foldhash");
        for (what, a, b) in &all {
            if let Some(i) = first_diff(a, b) {
                return CaseResult::violation(format!(
                    "{what}: row {i} hashes to {:#x} under encoding A and {:#x} under encoding B; row = [{}]; types = {:?}",
                    a[i],
                    b[i],
                    describe(case, i),
                    case.cols.iter().map(|c| c.spec.dtype.to_arrow().to_string()).collect::<Vec<_>>()
                ));
            }
        }

        // ---- equal rows hash equally
        let mut equal_rows = 0usize;
        let mut class_of: Vec<usize> = (0..n).collect();
        for j in 1..n {
            for i in 0..j {
                if class_of[i] == i && case.cols.iter().all(|c| c.spec.values[i].key_eq(&c.spec.values[j])) {
                    class_of[j] = i;
                    break;
                }
            }
        }
        for j in 0..n {
            let i = class_of[j];
            if i != j {
                equal_rows += 1;
                for (what, a, b) in &all {
                    if a[i] != a[j] || b[i] != b[j] {
                        return CaseResult::violation(format!("{what}: rows {i} and {j} are equal key values [{}] but hash differently: A {:#x} vs {:#x}, B {:#x} vs {:#x}", describe(case, i), a[i], a[j], b[i], b[j]));
                    }
                }
            }
        }

        // ---- scalars: a == b  =>  hash(a) == hash(b)
        let mut scalar_eq_pairs = 0usize;
        let mut scalar_unsupported = false;
        let mut scalar_ne_across = false;
        let mut scalar_eq_panicked = false;
        for (ci, c) in case.cols.iter().enumerate() {
            let mut sa: Vec<ScalarValue> = Vec::with_capacity(n);
            let mut sb: Vec<ScalarValue> = Vec::with_capacity(n);
            let mut ok = true;
            for i in 0..n {
                match (ScalarValue::try_from_array(arrays_a[ci].as_ref(), i), ScalarValue::try_from_array(arrays_b[ci].as_ref(), i)) {
                    (Ok(x), Ok(y)) => {
                        sa.push(x);
                        sb.push(y);
                    }
                    _ => {
                        ok = false;
                        break;
                    }
                }
            }
            if !ok {
                scalar_unsupported = true;
                continue;
            }
            let ha: Vec<u64> = sa.iter().map(std_hash).collect();
            let hb: Vec<u64> = sb.iter().map(std_hash).collect();
            let mut check = |x: &ScalarValue, hx: u64, y: &ScalarValue, hy: u64, what: String| -> Option<CaseResult> {
                // `==` on nested scalars is arrow's logical array equality, which panics for some valid
                // pairs (arrow-rs 59 list-view / dictionary null masks); a comparison that cannot be
                // computed is no antecedent, so it is skipped (counted), never reported here.
                let eq = match std::panic::catch_unwind(std::panic::AssertUnwindSafe(|| x == y)) {
                    Ok(e) => e,
                    Err(_) => {
                        scalar_eq_panicked = true;
                        return None;
                    }
                };
                if !eq && what.starts_with("row ") && what.ends_with("A and B") {
                    scalar_ne_across = true;
                }
                if eq {
                    scalar_eq_pairs += 1;
                    if hx != hy {
                        return Some(CaseResult::violation(format!("ScalarValue {x:?} == {y:?} ({what}, column {ci} of type {}) but their std hashes differ: {hx:#x} vs {hy:#x}", c.spec.dtype.to_arrow())));
                    }
                }
                None
            };
            for i in 0..n {
                if let Some(r) = check(&sa[i], ha[i], &sb[i], hb[i], format!("row {i} under encodings A and B")) {
                    return r;
                }
            }
            let mut pairs = 0;
            'outer: for j in 1..n {
                for i in 0..j {
                    if c.spec.values[i].key_eq(&c.spec.values[j]) {
                        pairs += 1;
                        if let Some(r) = check(&sa[i], ha[i], &sa[j], ha[j], format!("rows {i} and {j} of encoding A")) {
                            return r;
                        }
                        if let Some(r) = check(&sa[i], ha[i], &sb[j], hb[j], format!("row {i} of encoding A and row {j} of encoding B")) {
                            return r;
                        }
                        if pairs >= 48 {
                            break 'outer;
                        }
                        break;
                    }
                }
            }
        }

        // ---- classification
        let mut feats: BTreeSet<&'static str> = BTreeSet::new();
        let mut kinds: BTreeSet<&'static str> = BTreeSet::new();
        let mut differing = false;
        for c in &case.cols {
            let fa = data::encoding_features(&c.enc_a);
            let fb = data::encoding_features(&c.enc_b);
            if c.enc_a != c.enc_b && !(fa.is_empty() && fb.is_empty()) {
                differing = true;
            }
            feats.extend(fa);
            feats.extend(fb);
            c.spec.dtype.kinds(&mut kinds);
        }
        let has_null = case.cols.iter().any(|c| c.spec.values.iter().any(|v| v.has_null_inside()));
        fn has_neg_zero(v: &Value) -> bool {
            match v {
                Value::Float(f) => *f == 0.0 && f.is_sign_negative(),
                Value::List(l) | Value::Struct(l) => l.iter().any(has_neg_zero),
                Value::Map(m) => m.iter().any(|(_, x)| has_neg_zero(x)),
                Value::Union(_, x) => has_neg_zero(x),
                _ => false,
            }
        }
        let neg_zero = case.cols.iter().any(|c| c.spec.values.iter().any(has_neg_zero));
        let mut res = CaseResult::pass().nontrivial(differing && n > 0 && (has_null || equal_rows > 0)).label(format!("cols={}", case.cols.len()));
        res = res.label(match n {
            0 => "rows=0",
            1..=8 => "rows=1-8",
            9..=40 => "rows=9-40",
            _ => "rows>40",
        });
        res = res.labels(kinds.iter().map(|k| format!("type:{k}")));
        res = res.labels(feats.iter().map(|k| format!("enc:{k}")));
        if has_null {
            res = res.label("has-null");
        }
        if equal_rows > 0 {
            res = res.label("equal-rows");
        }
        if neg_zero {
            res = res.label("neg-zero");
        }
        if scalar_eq_pairs > 0 {
            res = res.label("scalar-eq-pairs");
        }
        if scalar_unsupported {
            res = res.label("scalar-unsupported-type");
        }
        if scalar_ne_across {
            res = res.label("scalar-ne-across-encodings");
        }
        if scalar_eq_panicked {
            res = res.label("scalar-eq-panicked(arrow)");
        }
        res
    }
}
