//! C34 — scalar values, arrays and casts are mutually consistent.
//!
//! Domain: a data type (every `ScalarValue` variant: primitives, f16/f32/f64, decimals 32/64/128/256 with
//! precision/scale, Utf8/LargeUtf8/Utf8View, Binary/LargeBinary/BinaryView/FixedSizeBinary, dates, times,
//! timestamps with and without time zone, durations, intervals, List/LargeList/ListView/LargeListView/
//! FixedSizeList/Struct/Map/Union, Dictionary, RunEndEncoded, Null) and 1–3 values of it (NULL included;
//! boundary-heavy); an array length 0–17; a cast target type and `CastOptions::safe`.
//! Scalars are built *without* the code under test: leaf variants by hand from the logical value, nested
//! variants by wrapping a one-row array rendered by `vf_kit::data` (under a generated physical encoding,
//! so nested scalars carry offsets / padded children), Dictionary / RunEndEncoded / Union by wrapping.
//!
//! Oracle:
//! 1. `to_array_of_size(n)`: Ok, length n, data type = `data_type()`, every row reads back *logically*
//!    (independent reader `vf_kit::data::array_to_values`) as the value, and `try_from_array(arr, i)`
//!    equals the scalar (`==` and same `data_type()`, so time zones / precision / key types count).
//! 2. `iter_to_array([s..])`: same three checks row by row.
//! 3. `a == b ⇒ hash(a) == hash(b)` over the scalars and their read-back copies, and for values[0] rebuilt
//!    under a sibling type (other time zone, dictionary key width, run-end width, decimal precision / scale,
//!    string flavour, time unit); `==` must also be symmetric there. For leaf types `==` between different
//!    logical values is itself a violation; for nested types that verdict is arrow's and only labelled.
//! 4. For bool / integer / float / decimal / string / binary / date / time / timestamp / duration /
//!    interval types only: `partial_cmp` is total (always `Some`), antisymmetric, transitive on the triple,
//!    `a == b ⇔ cmp = Equal`, agrees with `arrow::compute::sort_to_indices(asc, nulls first)` of an
//!    independently rendered array of the three values, and with `utils::compare_rows`.
//!    (Floats: total order on both sides, as both document.)
//! 5. `cast_to_with_options(t, o)` equals `try_from_array(arrow::compute::cast_with_options(1-row array
//!    rendered independently, t, o), 0)` — same scalar and data type, or both fail.
//!    Guards: source / target types containing a Struct are excluded (DataFusion casts structs by field
//!    name on purpose); where DataFusion's own overflow guard for date/timestamp → timestamp fires
//!    (`ensure_timestamp_in_bounds`, documented) the arrow kernel's wrapped value is not demanded.
//!
//! `==` on nested scalars is arrow's logical array equality, which panics for a few valid pairs in
//! arrow-rs 59 (list-view children with different null-mask representation); such a comparison is skipped
//! and counted (label `eq-panicked(arrow)`), not reported by this check.
//!
//! Generator notes: 40 % leaf types, 20 % dictionary / run-end wrapped leaves, 40 % nested (depth 2, thorough 3).
//! Run-end encoding is kept at the top of a type and nested dictionaries get ≥ 16-bit keys, because arrow's
//! `concat` / `take` (used by `iter_to_array` / `to_array_of_size`) fail on those shapes by themselves.
//! arrow-rs 59.2 defects met on the way (guarded, labelled, not reported as C34 violations): `list_view_equal` and
//! `byte_view_equal` give wrong verdicts / panic (labels `nested-eq-wrong(arrow)`, `eq-panicked(arrow)`), list →
//! fixed-size-list cast of a sliced array overflows (`cast:arrow-panicked`), union extraction / some casts depend on
//! the physical layout of the input (`cast:arrow-layout-dependent`).
//!
//! Open findings (known_findings.json; regressions/C34/c34/*.json; excluded by `known_signature`):
//! * (fixed in /repo) ree-to-array-of-size-0 — `ScalarValue::RunEndEncoded(..).to_array_of_size(0)` errored (run end 0);
//!   regression case kept, must pass.
//! * (withdrawn) a NULL union scalar `Union(None, ..)` reads back as `Union(Some((id, NULL)), ..)` because an Arrow union
//!   has no validity of its own; accepted as an Arrow limitation: for such a value the read-back only has to be NULL.
//! * ree-nested-run-merge — `iter_to_array` of REE scalars merges different nested values into one run because the
//!   run boundary test is arrow's (wrong) array equality; upstream defect, no DataFusion-side patch proposed.
//!
//! Sensitivity probes (tools/mutrun, `./check C34 quick`, patches in crates/vf-common/probes/):
//! * c34-try-from-array-drops-tz.diff — `typed_cast_tz!` returns `None` for the time zone: VIOLATION after 37 cases
//!   ("try_from_array(to_array_of_size(1) of TimestampSecond(.., UTC)) has type Timestamp(s) instead of ..").
//! * c34-uint64-cmp-signed.diff — `partial_cmp` of UInt64 compares as i64: VIOLATION after 5 598 cases ("arrow sorts
//!   UInt64(2^63-1) before UInt64(2^63) but partial_cmp says Greater").
//! * c34-string-cast-fast-path-variant.diff — string→string fast path of `cast_to` builds `Utf8` for a `LargeUtf8`
//!   target: VIOLATION after 412 cases (type of the cast result).
//! * c34-dict-eq-ignores-key-type.diff — `==` of Dictionary scalars ignores the key type while `Hash` includes it
//!   (DESIGN probe): VIOLATION after 5 cases (sibling-type Eq/Hash law).
//! * (c12-dict-null-value-with-null-keys.diff in hash_utils.rs is also seen by C34 through the hash of nested scalars.)
//! Quick: 60 000 cases, 8 shards, 7–20 s wall; thorough: 3 000 000 cases, 16 shards, nesting depth 3.
use arrow::array::{Array, ArrayRef, AsArray};
use arrow::compute::{CastOptions, SortOptions, can_cast_types, cast_with_options, sort_to_indices};
use arrow::datatypes::{DataType, Field, IntervalDayTime, IntervalMonthDayNano, i256};
use arrow::util::display::FormatOptions;
use datafusion_common::ScalarValue;
use datafusion_common::utils::compare_rows;
use half::f16;
use proptest::prelude::*;
use serde::{Deserialize, Serialize};
use std::cmp::Ordering;
use std::collections::BTreeSet;
use std::hash::{Hash, Hasher};
use std::sync::Arc;
use vf_kit::data::{self, ColumnSpec, DType, DTypeCfg, Encoding, IntW, TUnit, Value};
use vf_kit::engine::*;

pub struct C34;

#[derive(Clone, Debug, Serialize, Deserialize)]
pub struct Case {
    pub dtype: DType,
    /// 1–3 values of the type
    pub values: Vec<Value>,
    /// physical layout of the one-row arrays that back nested scalars and the cast / sort inputs
    pub enc: Encoding,
    /// array length for `to_array_of_size`
    pub len: u8,
    pub target: DType,
    pub safe: bool,
    /// selects a sibling type (other time zone / dictionary key width / run-end width / decimal precision or
    /// scale / string flavour) under which values[0] is built a second time for the cross-type Eq/Hash law
    #[serde(default)]
    pub sib: u8,
}

fn std_hash(s: &ScalarValue) -> u64 {
    let mut h = std::collections::hash_map::DefaultHasher::new();
    s.hash(&mut h);
    h.finish()
}

/// `==` guarded against arrow's equality panics; None = comparison not computable
fn guarded_eq(a: &ScalarValue, b: &ScalarValue) -> Option<bool> {
    std::panic::catch_unwind(std::panic::AssertUnwindSafe(|| a == b)).ok()
}

#[derive(PartialEq)]
enum Same {
    Yes,
    No,
    /// `==` panicked inside arrow
    Unknown,
    /// `==` says different, but both are nested values with identical type and identical logical content:
    /// a false negative of arrow's array equality, not of DataFusion
    ArrowFalseNegative,
}

fn logical_of(s: &ScalarValue) -> Option<Value> {
    s.to_array().ok().and_then(|a| data::array_to_values(a.as_ref()).into_iter().next())
}

/// Are the two scalars the same value? For leaf variants this is DataFusion's own `==`; for nested variants
/// `==` is arrow-rs array equality, whose verdict "different" is double-checked against the logical content.
fn same_scalar(a: &ScalarValue, b: &ScalarValue) -> Same {
    match guarded_eq(a, b) {
        None => Same::Unknown,
        Some(true) => Same::Yes,
        Some(false) => {
            let nested = |s: &ScalarValue| {
                let mut dt = s.data_type();
                while let DataType::Dictionary(_, v) = &dt {
                    dt = v.as_ref().clone();
                }
                if let DataType::RunEndEncoded(_, v) = &dt {
                    dt = v.data_type().clone();
                }
                dt.is_nested()
            };
            if nested(a) && nested(b) && a.data_type() == b.data_type() && logical_of(a).is_some() && logical_of(a) == logical_of(b) { Same::ArrowFalseNegative } else { Same::No }
        }
    }
}

fn int(v: &Value) -> Option<i128> {
    match v {
        Value::Int(i) => Some(*i),
        _ => None,
    }
}

/// Build the scalar for (dtype, value) without `try_from_array`.
fn scalar_of(dt: &DType, v: &Value, enc: &Encoding) -> Result<ScalarValue, String> {
    use DType as D;
    use ScalarValue as S;
    let null = v.is_null();
    let i = int(v);
    let f = match v {
        Value::Float(f) => Some(*f),
        _ => None,
    };
    let s = match v {
        Value::Str(s) => Some(s.clone()),
        _ => None,
    };
    let b = match v {
        Value::Bytes(b) => Some(b.clone()),
        _ => None,
    };
    let bad = || Err(format!("value {v:?} does not fit type {dt:?}"));
    macro_rules! chk {
        ($o:expr) => {
            if !null && $o.is_none() {
                return bad();
            }
        };
    }
    Ok(match dt {
        D::Null => S::Null,
        D::Bool => match v {
            Value::Bool(x) => S::Boolean(Some(*x)),
            Value::Null => S::Boolean(None),
            _ => return bad(),
        },
        D::Int8 => {
            chk!(i);
            S::Int8(i.map(|x| x as i8))
        }
        D::Int16 => {
            chk!(i);
            S::Int16(i.map(|x| x as i16))
        }
        D::Int32 => {
            chk!(i);
            S::Int32(i.map(|x| x as i32))
        }
        D::Int64 => {
            chk!(i);
            S::Int64(i.map(|x| x as i64))
        }
        D::UInt8 => {
            chk!(i);
            S::UInt8(i.map(|x| x as u8))
        }
        D::UInt16 => {
            chk!(i);
            S::UInt16(i.map(|x| x as u16))
        }
        D::UInt32 => {
            chk!(i);
            S::UInt32(i.map(|x| x as u32))
        }
        D::UInt64 => {
            chk!(i);
            S::UInt64(i.map(|x| x as u64))
        }
        D::Float16 => {
            chk!(f);
            S::Float16(f.map(f16::from_f64))
        }
        D::Float32 => {
            chk!(f);
            S::Float32(f.map(|x| x as f32))
        }
        D::Float64 => {
            chk!(f);
            S::Float64(f)
        }
        D::Decimal32(p, sc) => {
            chk!(i);
            S::Decimal32(i.map(|x| x as i32), *p, *sc)
        }
        D::Decimal64(p, sc) => {
            chk!(i);
            S::Decimal64(i.map(|x| x as i64), *p, *sc)
        }
        D::Decimal128(p, sc) => {
            chk!(i);
            S::Decimal128(i, *p, *sc)
        }
        D::Decimal256(p, sc) => match v {
            Value::Int256 { hi, lo } => S::Decimal256(Some(i256::from_parts(*lo, *hi)), *p, *sc),
            Value::Null => S::Decimal256(None, *p, *sc),
            _ => return bad(),
        },
        D::Date32 => {
            chk!(i);
            S::Date32(i.map(|x| x as i32))
        }
        D::Date64 => {
            chk!(i);
            S::Date64(i.map(|x| x as i64))
        }
        D::Time32(TUnit::S) => {
            chk!(i);
            S::Time32Second(i.map(|x| x as i32))
        }
        D::Time32(_) => {
            chk!(i);
            S::Time32Millisecond(i.map(|x| x as i32))
        }
        D::Time64(TUnit::Us) => {
            chk!(i);
            S::Time64Microsecond(i.map(|x| x as i64))
        }
        D::Time64(_) => {
            chk!(i);
            S::Time64Nanosecond(i.map(|x| x as i64))
        }
        D::Timestamp(u, tz) => {
            chk!(i);
            let tz: Option<Arc<str>> = tz.as_deref().map(Arc::from);
            let x = i.map(|x| x as i64);
            match u {
                TUnit::S => S::TimestampSecond(x, tz),
                TUnit::Ms => S::TimestampMillisecond(x, tz),
                TUnit::Us => S::TimestampMicrosecond(x, tz),
                TUnit::Ns => S::TimestampNanosecond(x, tz),
            }
        }
        D::Duration(u) => {
            chk!(i);
            let x = i.map(|x| x as i64);
            match u {
                TUnit::S => S::DurationSecond(x),
                TUnit::Ms => S::DurationMillisecond(x),
                TUnit::Us => S::DurationMicrosecond(x),
                TUnit::Ns => S::DurationNanosecond(x),
            }
        }
        D::IntervalYM => {
            chk!(i);
            S::IntervalYearMonth(i.map(|x| x as i32))
        }
        D::IntervalDT => match v {
            Value::DayTime(d, ms) => S::IntervalDayTime(Some(IntervalDayTime::new(*d, *ms))),
            Value::Null => S::IntervalDayTime(None),
            _ => return bad(),
        },
        D::IntervalMDN => match v {
            Value::MonthDayNano(m, d, ns) => S::IntervalMonthDayNano(Some(IntervalMonthDayNano::new(*m, *d, *ns))),
            Value::Null => S::IntervalMonthDayNano(None),
            _ => return bad(),
        },
        D::Utf8 => {
            chk!(s);
            S::Utf8(s)
        }
        D::LargeUtf8 => {
            chk!(s);
            S::LargeUtf8(s)
        }
        D::Utf8View => {
            chk!(s);
            S::Utf8View(s)
        }
        D::Binary => {
            chk!(b);
            S::Binary(b)
        }
        D::LargeBinary => {
            chk!(b);
            S::LargeBinary(b)
        }
        D::BinaryView => {
            chk!(b);
            S::BinaryView(b)
        }
        D::FixedSizeBinary(n) => {
            chk!(b);
            if b.as_ref().map(|b| b.len() != *n as usize).unwrap_or(false) {
                return bad();
            }
            S::FixedSizeBinary(*n, b)
        }
        D::List(_) | D::LargeList(_) | D::ListView(_) | D::LargeListView(_) | D::FixedSizeList(..) | D::Struct(_) | D::Map(..) => {
            let arr = data::try_render(&ColumnSpec { dtype: dt.clone(), values: vec![v.clone()] }, enc)?;
            match dt {
                D::List(_) => S::List(Arc::new(arr.as_list::<i32>().clone())),
                D::LargeList(_) => S::LargeList(Arc::new(arr.as_list::<i64>().clone())),
                D::ListView(_) => S::ListView(Arc::new(arr.as_list_view::<i32>().clone())),
                D::LargeListView(_) => S::LargeListView(Arc::new(arr.as_list_view::<i64>().clone())),
                D::FixedSizeList(..) => S::FixedSizeList(Arc::new(arr.as_fixed_size_list().clone())),
                D::Struct(_) => S::Struct(Arc::new(arr.as_struct().clone())),
                _ => S::Map(Arc::new(arr.as_map().clone())),
            }
        }
        D::Union(fs, _) => {
            let DataType::Union(fields, mode) = dt.to_arrow() else { unreachable!() };
            match v {
                Value::Union(id, inner) => {
                    let Some((_, _, cdt)) = fs.iter().find(|(i, _, _)| i == id) else { return bad() };
                    S::Union(Some((*id, Box::new(scalar_of(cdt, inner, enc)?))), fields, mode)
                }
                Value::Null => S::Union(None, fields, mode),
                _ => return bad(),
            }
        }
        D::Dictionary(k, inner) => S::Dictionary(Box::new(k.to_arrow()), Box::new(scalar_of(inner, v, enc)?)),
        D::RunEndEncoded(r, inner) => S::RunEndEncoded(Arc::new(Field::new("run_ends", r.to_arrow(), false)), Arc::new(Field::new("values", inner.to_arrow(), true)), Box::new(scalar_of(inner, v, enc)?)),
    })
}

/// type classes for which the statement demands a total order agreeing with arrow's sort
fn ordered_class(dt: &DType) -> Option<&'static str> {
    use DType::*;
    Some(match dt {
        Bool => "bool",
        Int8 | Int16 | Int32 | Int64 | UInt8 | UInt16 | UInt32 | UInt64 => "int",
        Float16 | Float32 | Float64 => "float",
        Decimal32(..) | Decimal64(..) | Decimal128(..) | Decimal256(..) => "decimal",
        Utf8 | LargeUtf8 | Utf8View => "string",
        Binary | LargeBinary | BinaryView | FixedSizeBinary(_) => "binary",
        Date32 | Date64 | Time32(_) | Time64(_) | Timestamp(..) | Duration(_) | IntervalYM | IntervalDT | IntervalMDN => "temporal",
        _ => return None,
    })
}

fn contains_struct(dt: &DType) -> bool {
    let mut k = BTreeSet::new();
    dt.kinds(&mut k);
    k.contains("struct") || k.contains("map")
}

fn is_boundary(dt: &DType, v: &Value) -> bool {
    match v {
        Value::Int(i) => {
            let (lo, hi) = match dt.logical() {
                DType::Int8 => (i8::MIN as i128, i8::MAX as i128),
                DType::Int16 => (i16::MIN as i128, i16::MAX as i128),
                DType::Int32 | DType::Date32 | DType::IntervalYM => (i32::MIN as i128, i32::MAX as i128),
                DType::UInt8 => (0, u8::MAX as i128),
                DType::UInt16 => (0, u16::MAX as i128),
                DType::UInt32 => (0, u32::MAX as i128),
                DType::UInt64 => (0, u64::MAX as i128),
                _ => (i64::MIN as i128, i64::MAX as i128),
            };
            *i == lo || *i == hi
        }
        Value::Float(f) => !f.is_finite() || *f == 0.0,
        Value::Str(s) => s.is_empty() || s.len() >= 12,
        Value::Bytes(b) => b.is_empty() || b.len() >= 12,
        _ => false,
    }
}

fn target_strategy() -> BoxedStrategy<DType> {
    use DType::*;
    let common = prop::sample::select(vec![
        Bool,
        Int8,
        Int16,
        Int32,
        Int64,
        UInt8,
        UInt16,
        UInt32,
        UInt64,
        Float16,
        Float32,
        Float64,
        Utf8,
        LargeUtf8,
        Utf8View,
        Binary,
        LargeBinary,
        BinaryView,
        Date32,
        Date64,
        Time32(TUnit::S),
        Time32(TUnit::Ms),
        Time64(TUnit::Us),
        Time64(TUnit::Ns),
        Timestamp(TUnit::S, None),
        Timestamp(TUnit::Ms, None),
        Timestamp(TUnit::Us, Some("UTC".into())),
        Timestamp(TUnit::Ns, None),
        Timestamp(TUnit::Ns, Some("+05:30".into())),
        Timestamp(TUnit::S, Some("America/New_York".into())),
        Duration(TUnit::S),
        Duration(TUnit::Ms),
        Duration(TUnit::Us),
        Duration(TUnit::Ns),
        IntervalYM,
        IntervalDT,
        IntervalMDN,
        Decimal32(9, 2),
        Decimal64(18, 0),
        Decimal128(10, 2),
        Decimal128(38, 10),
        Decimal128(5, -2),
        Decimal256(40, 3),
        Decimal256(76, 0),
        Null,
        FixedSizeBinary(2),
        Dictionary(IntW::I32, Box::new(Utf8)),
        Dictionary(IntW::U8, Box::new(Int64)),
        Dictionary(IntW::I8, Box::new(Utf8View)),
        RunEndEncoded(IntW::I32, Box::new(Int64)),
        RunEndEncoded(IntW::I16, Box::new(Utf8)),
        List(Box::new(Int64)),
        List(Box::new(Utf8)),
        LargeList(Box::new(Int32)),
        ListView(Box::new(Int64)),
        LargeListView(Box::new(Utf8)),
        FixedSizeList(Box::new(Int64), 2),
        FixedSizeList(Box::new(Utf8), 1),
    ]);
    let cfg = DTypeCfg { structs: false, maps: false, ..DTypeCfg::all(1) };
    prop_oneof![5 => common, 2 => data::dtype_strategy(&cfg)].boxed()
}

impl Property for C34 {
    type Case = Case;
    fn id(&self) -> &'static str {
        "C34"
    }
    fn sub(&self) -> &'static str {
        "c34"
    }
    fn strategy(&self, tier: Tier) -> BoxedStrategy<Case> {
        let depth = tier.pick(2, 3);
        let dts = prop_oneof![
            4 => data::dtype_strategy(&DTypeCfg::leaves()),
            2 => data::dtype_strategy(&DTypeCfg::all(0)),
            4 => data::dtype_strategy(&DTypeCfg::all(depth)),
        ];
        dts.prop_map(|dt| strip_inner_ree(dt, true))
            .prop_flat_map(|dt| {
                let vals = prop::collection::vec(data::value_strategy(&dt), 1..=3);
                // a NULL union scalar exists as a ScalarValue although a union column has no NULL rows
                let union_null = matches!(dt, DType::Union(..));
                let vals = (vals, any::<u8>()).prop_map(move |(mut v, k)| {
                    if union_null && k < 40 {
                        v[0] = Value::Null;
                    }
                    v
                });
                (vals, data::encoding_strategy(&dt), prop_oneof![3 => 0u8..=3, 2 => 0u8..=17], target_strategy(), any::<bool>(), any::<u8>(), Just(dt))
            })
            .prop_map(|(values, enc, len, target, safe, sib, dtype)| Case { dtype, values, enc, len, target, safe, sib })
            .boxed()
    }
    fn budget(&self, tier: Tier) -> Budget {
        Budget::new(tier.pick(60_000, 3_000_000), tier.pick(8, 16)).min_nontrivial(tier.pick(5_000, 200_000))
    }
    fn rule(&self) -> String {
        "a generated data type (all ScalarValue variants, nested to depth 2), 1-3 boundary-heavy values of it incl. NULL, an array length 0-17, a cast target and CastOptions.safe; \
         non-trivial = some value is non-NULL and (the type is not a plain integer/bool, or the value is a type boundary, or the values are not all equal); distinct by case JSON"
            .into()
    }
    fn assumptions(&self) -> Vec<String> {
        vec![
            "vf_kit::data renders valid arrays and array_to_values reads them back logically (self-tested)".into(),
            "arrow::compute::{cast_with_options, sort_to_indices} are the reference for casts and ordering, as the statement says".into(),
            "casts whose source or target contains a struct/map are out of scope (DataFusion casts struct fields by name by design); DataFusion's documented timestamp overflow guard may reject what arrow wraps".into(),
        ]
    }
    fn known_signature(&self, case: &Case) -> Option<String> {
        // open finding: iter_to_array of RunEndEncoded scalars finds run boundaries with `!=`, i.e. arrow-rs array
        // equality for nested values, which reports some different nested values equal
        if let DType::RunEndEncoded(_, v) = &case.dtype {
            if v.is_nested() && case.values.iter().any(|x| *x != case.values[0]) {
                return Some("ree-nested-run-merge".into());
            }
        }
        None
    }
    fn run(&self, case: &Case) -> CaseResult {
        if case.values.is_empty() || case.values.len() > 8 {
            return CaseResult::discard("outside domain: need 1-8 values");
        }
        let dt = &case.dtype;
        let arrow_dt = dt.to_arrow();
        let mut scalars = vec![];
        for v in &case.values {
            match scalar_of(dt, v, &case.enc) {
                Ok(s) => scalars.push(s),
                Err(e) => return CaseResult::discard(format!("outside domain: {}", truncate(&e, 40))),
            }
        }
        let mut labels: BTreeSet<String> = BTreeSet::new();
        let mut eq_panicked = false;
        let mut arrow_eq_wrong = false;
        let is_union_null = |v: &Value| matches!(dt, DType::Union(..)) && v.is_null();

        // ---- 1. to_array_of_size / try_from_array
        let mut read_back: Vec<ScalarValue> = vec![];
        for (v, s) in case.values.iter().zip(&scalars) {
            if s.data_type() != arrow_dt {
                return CaseResult::violation(format!("{s:?}.data_type() = {} but the scalar was built for {arrow_dt}", s.data_type()));
            }
            if s.is_null() != (v.is_null() || matches!(dt, DType::Null)) && !matches!(dt, DType::Union(..)) {
                return CaseResult::violation(format!("{s:?}.is_null() = {} for logical value {v:?}", s.is_null()));
            }
            for (pass, n) in [case.len as usize, 1].into_iter().enumerate() {
                let arr = match s.to_array_of_size(n) {
                    Ok(a) => a,
                    Err(e) => return CaseResult::violation(format!("{s:?}.to_array_of_size({n}) failed: {e}")),
                };
                if arr.len() != n {
                    return CaseResult::violation(format!("{s:?}.to_array_of_size({n}) has length {}", arr.len()));
                }
                if arr.data_type() != &arrow_dt {
                    return CaseResult::violation(format!("{s:?}.to_array_of_size({n}) has type {} instead of {arrow_dt}", arr.data_type()));
                }
                let logical = data::array_to_values(arr.as_ref());
                for i in 0..n {
                    if !is_union_null(v) && logical[i] != *v {
                        return CaseResult::violation(format!("{s:?}.to_array_of_size({n}) row {i} reads back as {:?}, expected {v:?}", logical[i]));
                    }
                    let back = match ScalarValue::try_from_array(arr.as_ref(), i) {
                        Ok(b) => b,
                        Err(e) => return CaseResult::violation(format!("try_from_array(to_array_of_size({n}) of {s:?}, {i}) failed: {e}")),
                    };
                    if back.data_type() != arrow_dt {
                        return CaseResult::violation(format!("try_from_array(to_array_of_size({n}) of {s:?}, {i}) has type {} instead of {arrow_dt}", back.data_type()));
                    }
                    let union_null_ok = is_union_null(v) && back.is_null();
                    match if union_null_ok { Same::ArrowFalseNegative } else { same_scalar(&back, s) } {
                        Same::Unknown => eq_panicked = true,
                        Same::ArrowFalseNegative => arrow_eq_wrong = true,
                        Same::No => return CaseResult::violation(format!("try_from_array(to_array_of_size({n}) of {s:?}, {i}) = {back:?}, not the original scalar")),
                        Same::Yes => {
                            if std_hash(&back) != std_hash(s) {
                                return CaseResult::violation(format!("{back:?} == {s:?} (array round trip) but their hashes differ"));
                            }
                        }
                    }
                    if i == 0 && pass == 1 {
                        read_back.push(back);
                    }
                }
            }
        }

        // ---- 2. iter_to_array
        match ScalarValue::iter_to_array(scalars.iter().cloned()) {
            Err(e) => return CaseResult::violation(format!("iter_to_array({scalars:?}) failed: {e}")),
            Ok(arr) => {
                if arr.len() != scalars.len() || arr.data_type() != &arrow_dt {
                    return CaseResult::violation(format!("iter_to_array({scalars:?}) has length {} and type {} (expected {} and {arrow_dt})", arr.len(), arr.data_type(), scalars.len()));
                }
                let logical = data::array_to_values(arr.as_ref());
                for (i, (v, s)) in case.values.iter().zip(&scalars).enumerate() {
                    if !is_union_null(v) && logical[i] != *v {
                        return CaseResult::violation(format!("iter_to_array({scalars:?}) row {i} reads back as {:?}, expected {v:?}", logical[i]));
                    }
                    match ScalarValue::try_from_array(arr.as_ref(), i) {
                        Err(e) => return CaseResult::violation(format!("try_from_array(iter_to_array({scalars:?}), {i}) failed: {e}")),
                        Ok(back) => match if is_union_null(v) && back.is_null() { Same::ArrowFalseNegative } else { same_scalar(&back, s) } {
                            Same::Unknown => eq_panicked = true,
                            Same::ArrowFalseNegative => arrow_eq_wrong = true,
                            Same::No => return CaseResult::violation(format!("try_from_array(iter_to_array({scalars:?}), {i}) = {back:?}, not {s:?}")),
                            Same::Yes => {
                                if back.data_type() != arrow_dt {
                                    return CaseResult::violation(format!("try_from_array(iter_to_array(..), {i}) has type {} instead of {arrow_dt}", back.data_type()));
                                }
                            }
                        },
                    }
                }
            }
        }

        // ---- 3. Eq / Hash over originals and read-back copies
        let pool: Vec<&ScalarValue> = scalars.iter().chain(read_back.iter()).collect();
        let hashes: Vec<u64> = pool.iter().map(|s| std_hash(s)).collect();
        let k0 = scalars.len();
        let nested_type = dt.is_nested();
        for i in 0..pool.len() {
            for j in 0..pool.len() {
                // the logical values behind the two scalars (read-back copy i belongs to value i)
                let model_eq = case.values[i % k0] == case.values[j % k0];
                match guarded_eq(pool[i], pool[j]) {
                    None => eq_panicked = true,
                    Some(true) if model_eq => {
                        if hashes[i] != hashes[j] {
                            return CaseResult::violation(format!("{:?} == {:?} but their hashes differ ({:#x} vs {:#x})", pool[i], pool[j], hashes[i], hashes[j]));
                        }
                        if i != j {
                            labels.insert("eq-pair".into());
                        }
                    }
                    Some(true) => {
                        // `==` holds for two different logical values
                        if nested_type {
                            // nested `==` is arrow-rs array equality (list_view_equal / byte_view_equal are wrong in
                            // 59.2): not DataFusion's verdict, no antecedent for the hash law
                            arrow_eq_wrong = true;
                        } else {
                            return CaseResult::violation(format!("{:?} == {:?} although they are different values ({:?} vs {:?})", pool[i], pool[j], case.values[i % k0], case.values[j % k0]));
                        }
                    }
                    Some(false) => {
                        if i == j {
                            return CaseResult::violation(format!("{:?} != itself", pool[i]));
                        }
                    }
                }
            }
        }

        // ---- 3b. the same value under a sibling type: == must be symmetric and imply equal hashes
        if let Some(sdt) = sibling_of(dt, case.sib) {
            if let Ok(sb) = scalar_of(&sdt, &case.values[0], &Encoding::plain(&sdt)) {
                let sa = &scalars[0];
                let ab = guarded_eq(sa, &sb);
                let ba = guarded_eq(&sb, sa);
                if ab.is_some() && ba.is_some() && ab != ba {
                    return CaseResult::violation(format!("== is not symmetric on {sa:?} and {sb:?}: {ab:?} vs {ba:?}"));
                }
                if ab == Some(true) {
                    labels.insert("sibling-eq".into());
                    if std_hash(sa) != std_hash(&sb) {
                        return CaseResult::violation(format!("{sa:?} == {sb:?} (sibling types {arrow_dt} / {}) but their hashes differ", sdt.to_arrow()));
                    }
                } else {
                    labels.insert("sibling-ne".into());
                }
            }
        }

        // ---- 4. ordering (only the type classes the statement names)
        if let Some(class) = ordered_class(dt) {
            labels.insert(format!("ordered:{class}"));
            let k = scalars.len();
            let mut cmp = vec![vec![Ordering::Equal; k]; k];
            for i in 0..k {
                for j in 0..k {
                    match scalars[i].partial_cmp(&scalars[j]) {
                        None => return CaseResult::violation(format!("partial_cmp({:?}, {:?}) is None for same-typed {class} scalars", scalars[i], scalars[j])),
                        Some(o) => cmp[i][j] = o,
                    }
                    if (cmp[i][j] == Ordering::Equal) != (scalars[i] == scalars[j]) {
                        return CaseResult::violation(format!("partial_cmp({:?}, {:?}) = {:?} but == says {}", scalars[i], scalars[j], cmp[i][j], scalars[i] == scalars[j]));
                    }
                }
            }
            for i in 0..k {
                for j in 0..k {
                    if cmp[i][j] != cmp[j][i].reverse() {
                        return CaseResult::violation(format!("partial_cmp not antisymmetric on {:?}, {:?}: {:?} vs {:?}", scalars[i], scalars[j], cmp[i][j], cmp[j][i]));
                    }
                    for l in 0..k {
                        if cmp[i][j] != Ordering::Greater && cmp[j][l] != Ordering::Greater && cmp[i][l] == Ordering::Greater {
                            return CaseResult::violation(format!("partial_cmp not transitive on {:?} <= {:?} <= {:?}", scalars[i], scalars[j], scalars[l]));
                        }
                    }
                    // compare_rows agrees
                    match compare_rows(std::slice::from_ref(&scalars[i]), std::slice::from_ref(&scalars[j]), &[SortOptions { descending: false, nulls_first: true }]) {
                        Ok(o) if o == cmp[i][j] => {}
                        Ok(o) => return CaseResult::violation(format!("compare_rows({:?}, {:?}, asc nulls first) = {o:?} but partial_cmp = {:?}", scalars[i], scalars[j], cmp[i][j])),
                        Err(e) => return CaseResult::violation(format!("compare_rows({:?}, {:?}) failed: {e}", scalars[i], scalars[j])),
                    }
                }
            }
            // agreement with arrow's ascending nulls-first sort of an independently rendered array
            let arr = match data::try_render(&ColumnSpec { dtype: dt.clone(), values: case.values.clone() }, &case.enc) {
                Ok(a) => a,
                Err(e) => return CaseResult::discard(e),
            };
            match std::panic::catch_unwind(std::panic::AssertUnwindSafe(|| sort_to_indices(arr.as_ref(), Some(SortOptions { descending: false, nulls_first: true }), None))).unwrap_or_else(|_| Err(arrow::error::ArrowError::ComputeError("panicked".into()))) {
                Err(e) => {
                    labels.insert(format!("sort-unsupported:{}", reason_short(&e.to_string())));
                }
                Ok(idx) => {
                    let order: Vec<usize> = idx.values().iter().map(|x| *x as usize).collect();
                    for w in order.windows(2) {
                        if cmp[w[0]][w[1]] == Ordering::Greater {
                            return CaseResult::violation(format!("arrow sorts {:?} before {:?} (ascending, nulls first) but partial_cmp says Greater", scalars[w[0]], scalars[w[1]]));
                        }
                    }
                    if k >= 2 {
                        labels.insert("sorted".into());
                    }
                }
            }
        }

        // ---- 5. casts
        let target = case.target.to_arrow();
        let s0 = &scalars[0];
        if contains_struct(dt) || contains_struct(&case.target) {
            labels.insert("cast:skipped-struct".into());
        } else if is_union_null(&case.values[0]) {
            labels.insert("cast:skipped-null-union".into());
        } else {
            let opts = CastOptions { safe: case.safe, format_options: FormatOptions::default() };
            let src = match data::try_render(&ColumnSpec { dtype: dt.clone(), values: vec![case.values[0].clone()] }, &case.enc) {
                Ok(a) => a,
                Err(e) => return CaseResult::discard(e),
            };
            // arrow's kernels are the reference here; a panic inside them (seen: list -> fixed-size-list cast of a
            // sliced array) leaves no reference
            let ref_cast = |a: &ArrayRef| -> Option<Result<ArrayRef, String>> { std::panic::catch_unwind(std::panic::AssertUnwindSafe(|| cast_with_options(a.as_ref(), &target, &opts).map_err(|e| e.to_string()))).ok() };
            let via_array = ref_cast(&src);
            // The reference kernel must itself be independent of the physical layout of "an array containing
            // the value": cast the scalar's own one-row array as well; where arrow's two answers differ (seen:
            // union extraction reading inactive sparse children) there is no reference to compare with.
            let own = match s0.to_array() {
                Ok(a) => a,
                Err(e) => return CaseResult::violation(format!("{s0:?}.to_array() failed: {e}")),
            };
            let via_own = ref_cast(&own);
            if via_array.is_none() || via_own.is_none() {
                labels.insert("cast:arrow-panicked".into());
            }
            let reference_agrees = match (&via_array, &via_own) {
                (Some(Err(_)), Some(Err(_))) => true,
                (Some(Ok(x)), Some(Ok(y))) => x.data_type() == y.data_type() && data::array_to_values(x.as_ref()) == data::array_to_values(y.as_ref()),
                _ => false,
            };
            let via_array: Result<ArrayRef, String> = via_array.unwrap_or(Err("arrow panicked".into()));
            let castable = can_cast_types(&arrow_dt, &target);
            labels.insert(if castable { "cast:castable".into() } else { "cast:not-castable".into() });
            if !reference_agrees && !labels.contains("cast:arrow-panicked") {
                labels.insert("cast:arrow-layout-dependent".into());
            }
            let via_scalar = if reference_agrees { s0.cast_to_with_options(&target, &opts) } else { Err(datafusion_common::DataFusionError::Internal("skipped".into())) };
            let via_array = if reference_agrees { via_array } else { Err("skipped".into()) };
            match (via_scalar, via_array) {
                (Err(_), Err(_)) => {
                    labels.insert("cast:both-fail".into());
                }
                (Ok(r), Ok(a)) => {
                    let expected = match ScalarValue::try_from_array(a.as_ref(), 0) {
                        Ok(e) => e,
                        Err(e) => return CaseResult::violation(format!("try_from_array(cast({arrow_dt} -> {target})) failed: {e}")),
                    };
                    // DataFusion's documented overflow guard under `safe`: NULL instead of arrow's wrapped value
                    let guard_null = case.safe && r.is_null() && !expected.is_null() && guard_applies(&arrow_dt, &target);
                    if guard_null {
                        labels.insert("cast:df-timestamp-guard".into());
                    } else {
                        if r.data_type() != expected.data_type() {
                            return CaseResult::violation(format!("{s0:?}.cast_to({target}, safe={}) has type {} but casting the array gives {}", case.safe, r.data_type(), expected.data_type()));
                        }
                        match same_scalar(&r, &expected) {
                            Same::Unknown => eq_panicked = true,
                            Same::No => return CaseResult::violation(format!("{s0:?}.cast_to({target}, safe={}) = {r:?} but casting a one-row array gives {expected:?}", case.safe)),
                            Same::Yes | Same::ArrowFalseNegative => {
                                labels.insert("cast:both-ok".into());
                            }
                        }
                    }
                }
                (Err(e), Ok(a)) => {
                    if guard_applies(&arrow_dt, &target) && e.to_string().contains("exceeds the representable i64 range") {
                        labels.insert("cast:df-timestamp-guard".into());
                    } else {
                        return CaseResult::violation(format!("{s0:?}.cast_to({target}, safe={}) fails ({}) but casting a one-row array succeeds with {:?}", case.safe, truncate(&e.to_string(), 300), data::array_to_values(a.as_ref())));
                    }
                }
                (Ok(r), Err(e)) => {
                    return CaseResult::violation(format!("{s0:?}.cast_to({target}, safe={}) = {r:?} but casting a one-row array fails: {}", case.safe, truncate(&e, 300)));
                }
            }
        }

        // ---- classification
        let mut kinds = BTreeSet::new();
        dt.kinds(&mut kinds);
        let plain_int = matches!(dt, DType::Bool | DType::Int8 | DType::Int16 | DType::Int32 | DType::Int64 | DType::UInt8 | DType::UInt16 | DType::UInt32 | DType::UInt64);
        let any_nonnull = case.values.iter().any(|v| !v.is_null());
        let distinct = case.values.iter().any(|v| *v != case.values[0]);
        let boundary = case.values.iter().any(|v| is_boundary(dt, v));
        let nt = any_nonnull && (!plain_int || boundary || distinct);
        let mut res = CaseResult::pass().nontrivial(nt).labels(kinds.iter().map(|k| format!("type:{k}"))).labels(labels);
        res = res.label(format!("values={}", case.values.len()));
        if case.values.iter().any(|v| v.is_null()) {
            res = res.label("has-null");
        }
        if boundary {
            res = res.label("boundary");
        }
        if case.len == 0 {
            res = res.label("len=0");
        }
        if eq_panicked {
            res = res.label("eq-panicked(arrow)");
        }
        if arrow_eq_wrong {
            res = res.label("nested-eq-wrong(arrow)");
        }
        res
    }
}

/// Run-end encoding is kept at the top of the type only: run arrays nested inside lists / structs make
/// arrow's own `concat` (used by `iter_to_array`) fail on empty runs, which is not DataFusion's logic.
/// For the same reason nested dictionaries get at least 16-bit keys.
fn strip_inner_ree(dt: DType, top: bool) -> DType {
    use DType::*;
    let b = |d: DType| Box::new(strip_inner_ree(d, false));
    match dt {
        RunEndEncoded(w, v) => {
            let inner = strip_inner_ree(*v, false);
            if top { RunEndEncoded(w, Box::new(inner)) } else { inner }
        }
        Dictionary(k, v) => {
            // 8-bit keys only at the top: arrow's concat / take of nested arrays appends dictionaries without
            // de-duplication and panics with DictionaryKeyOverflowError once > 127 / 255 entries accumulate
            let k = match (top, k) {
                (false, IntW::I8) => IntW::I16,
                (false, IntW::U8) => IntW::U16,
                (_, k) => k,
            };
            Dictionary(k, b(*v))
        }
        List(c) => List(b(*c)),
        LargeList(c) => LargeList(b(*c)),
        ListView(c) => ListView(b(*c)),
        LargeListView(c) => LargeListView(b(*c)),
        FixedSizeList(c, n) => FixedSizeList(b(*c), n),
        Struct(fs) => Struct(fs.into_iter().map(|(n, d)| (n, strip_inner_ree(d, false))).collect()),
        Map(k, v) => Map(k, b(*v)),
        Union(fs, dense) => Union(fs.into_iter().map(|(i, n, d)| (i, n, strip_inner_ree(d, false))).collect(), dense),
        x => x,
    }
}

/// a type that differs from `dt` only in an attribute that `ScalarValue`'s Eq / Hash treat specially
fn sibling_of(dt: &DType, k: u8) -> Option<DType> {
    use DType::*;
    let k = k as usize;
    let other = match dt {
        Timestamp(u, _) => Timestamp(*u, [None, Some("UTC"), Some("+05:30"), Some("America/New_York")][k % 4].map(String::from)),
        Dictionary(_, v) => Dictionary([IntW::I8, IntW::I16, IntW::I32, IntW::I64, IntW::U8, IntW::U16, IntW::U32, IntW::U64][k % 8], v.clone()),
        RunEndEncoded(_, v) => RunEndEncoded([IntW::I16, IntW::I32, IntW::I64][k % 3], v.clone()),
        Decimal32(p, s) if *p < 9 && k % 2 == 0 => Decimal32(p + 1, *s),
        Decimal32(p, s) if (*s as i16) < *p as i16 => Decimal32(*p, s + 1),
        Decimal64(p, s) if *p < 18 && k % 2 == 0 => Decimal64(p + 1, *s),
        Decimal64(p, s) if (*s as i16) < *p as i16 => Decimal64(*p, s + 1),
        Decimal128(p, s) if *p < 38 && k % 2 == 0 => Decimal128(p + 1, *s),
        Decimal128(p, s) if (*s as i16) < *p as i16 => Decimal128(*p, s + 1),
        Decimal256(p, s) if *p < 76 && k % 2 == 0 => Decimal256(p + 1, *s),
        Decimal256(p, s) if (*s as i16) < *p as i16 => Decimal256(*p, s + 1),
        Utf8 | LargeUtf8 | Utf8View => [Utf8, LargeUtf8, Utf8View][k % 3].clone(),
        Binary | LargeBinary | BinaryView => [Binary, LargeBinary, BinaryView][k % 3].clone(),
        Time32(TUnit::S) => Time32(TUnit::Ms),
        Time32(_) => Time32(TUnit::S),
        Duration(_) => Duration([TUnit::S, TUnit::Ms, TUnit::Us, TUnit::Ns][k % 4]),
        _ => return None,
    };
    if other == *dt { None } else { Some(other) }
}

fn reason_short(s: &str) -> String {
    s.chars().take(24).collect()
}

/// date / timestamp -> timestamp conversions that multiply (DataFusion checks the i64 range itself)
fn guard_applies(src: &DataType, target: &DataType) -> bool {
    matches!(target, DataType::Timestamp(..)) && matches!(src, DataType::Date32 | DataType::Date64 | DataType::Timestamp(..))
}
