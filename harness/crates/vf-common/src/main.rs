//! vf-common: checks that only need `datafusion-common` (C12 C34 C42a C43a C52).
mod c12;
mod c34;
mod c52;

fn main() {
    vf_kit::dispatch! {
        "c12" => c12::C12,
        "c34" => c34::C34,
        "c52" => c52::C52,
    }
}
