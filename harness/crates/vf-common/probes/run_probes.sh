#!/bin/bash
export CARGO_TARGET_DIR=/verif/harness/target-vf-common
cd /verif
for p in pair1 pair2 pair3; do
  /verif/tools/mutrun /verif/harness/crates/vf-common/probes/$p.diff -- bash -c './check C12 quick 2>&1 | grep -v KNOWN | tail -4 | cut -c1-1500; echo "C12 exit=${PIPESTATUS[0]}"; ./check C34 quick 2>&1 | grep -v KNOWN | tail -4 | cut -c1-1500; echo "C34 exit=${PIPESTATUS[0]}"' > /verif/harness/crates/vf-common/probes/$p.log 2>&1
done
echo done > /verif/harness/crates/vf-common/probes/all.done
