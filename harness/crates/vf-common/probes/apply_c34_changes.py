p='/verif/harness/crates/vf-common/src/c34.rs'
s=open(p).read()
# 1. case field
old='''    pub target: DType,
    pub safe: bool,
}'''
new='''    pub target: DType,
    pub safe: bool,
    /// selects a sibling type (other time zone / dictionary key width / run-end width / decimal precision or
    /// scale / string flavour) under which values[0] is built a second time for the cross-type Eq/Hash law
    #[serde(default)]
    pub sib: u8,
}'''
assert old in s; s=s.replace(old,new,1)
# 2. strategy
old='''        data::dtype_strategy(&DTypeCfg::all(depth))
            .prop_map(|dt| strip_inner_ree(dt, true))'''
new='''        let dts = prop_oneof![
            4 => data::dtype_strategy(&DTypeCfg::leaves()),
            2 => data::dtype_strategy(&DTypeCfg::all(0)),
            4 => data::dtype_strategy(&DTypeCfg::all(depth)),
        ];
        dts.prop_map(|dt| strip_inner_ree(dt, true))'''
assert old in s; s=s.replace(old,new,1)
old='''(vals, data::encoding_strategy(&dt), prop_oneof![3 => 0u8..=3, 2 => 0u8..=17], target_strategy(), any::<bool>(), Just(dt))
            })
            .prop_map(|(values, enc, len, target, safe, dtype)| Case { dtype, values, enc, len, target, safe })'''
new='''(vals, data::encoding_strategy(&dt), prop_oneof![3 => 0u8..=3, 2 => 0u8..=17], target_strategy(), any::<bool>(), any::<u8>(), Just(dt))
            })
            .prop_map(|(values, enc, len, target, safe, sib, dtype)| Case { dtype, values, enc, len, target, safe, sib })'''
assert old in s; s=s.replace(old,new,1)
# 3. sibling check inserted before ordering section
old='''        // ---- 4. ordering (only the type classes the statement names)'''
new='''        // ---- 3b. the same value under a sibling type: == must be symmetric and imply equal hashes
        if let Some(sdt) = sibling_of(dt, case.sib) {
            if let Ok(sb) = scalar_of(&sdt, &case.values[0], &Encoding::plain(&sdt)) {
                let sa = &scalars[0];
                let ab = guarded_eq(sa, &sb);
                let ba = guarded_eq(&sb, sa);
                if ab.is_some() && ba.is_some() && ab != ba {
                    return CaseResult::violation(format!("== is not symmetric on {sa:?} and {sb:?}: {ab:?} vs {ba:?}"));
                }
                if ab == Some(true) {
                    labels.insert("sibling-eq".into());
                    if std_hash(sa) != std_hash(&sb) {
                        return CaseResult::violation(format!("{sa:?} == {sb:?} (sibling types {arrow_dt} / {}) but their hashes differ", sdt.to_arrow()));
                    }
                } else {
                    labels.insert("sibling-ne".into());
                }
            }
        }

        // ---- 4. ordering (only the type classes the statement names)'''
assert old in s; s=s.replace(old,new,1)
old='''fn reason_short(s: &str) -> String {'''
new='''/// a type that differs from `dt` only in an attribute that `ScalarValue`'s Eq / Hash treat specially
fn sibling_of(dt: &DType, k: u8) -> Option<DType> {
    use DType::*;
    let k = k as usize;
    let other = match dt {
        Timestamp(u, _) => Timestamp(*u, [None, Some("UTC"), Some("+05:30"), Some("America/New_York")][k % 4].map(String::from)),
        Dictionary(_, v) => Dictionary([IntW::I8, IntW::I16, IntW::I32, IntW::I64, IntW::U8, IntW::U16, IntW::U32, IntW::U64][k % 8], v.clone()),
        RunEndEncoded(_, v) => RunEndEncoded([IntW::I16, IntW::I32, IntW::I64][k % 3], v.clone()),
        Decimal32(p, s) if *p < 9 && k % 2 == 0 => Decimal32(p + 1, *s),
        Decimal32(p, s) if (*s as i16) < *p as i16 => Decimal32(*p, s + 1),
        Decimal64(p, s) if *p < 18 && k % 2 == 0 => Decimal64(p + 1, *s),
        Decimal64(p, s) if (*s as i16) < *p as i16 => Decimal64(*p, s + 1),
        Decimal128(p, s) if *p < 38 && k % 2 == 0 => Decimal128(p + 1, *s),
        Decimal128(p, s) if (*s as i16) < *p as i16 => Decimal128(*p, s + 1),
        Decimal256(p, s) if *p < 76 && k % 2 == 0 => Decimal256(p + 1, *s),
        Decimal256(p, s) if (*s as i16) < *p as i16 => Decimal256(*p, s + 1),
        Utf8 | LargeUtf8 | Utf8View => [Utf8, LargeUtf8, Utf8View][k % 3].clone(),
        Binary | LargeBinary | BinaryView => [Binary, LargeBinary, BinaryView][k % 3].clone(),
        Time32(TUnit::S) => Time32(TUnit::Ms),
        Time32(_) => Time32(TUnit::S),
        Duration(u) => Duration([TUnit::S, TUnit::Ms, TUnit::Us, TUnit::Ns][k % 4]).clone().max_by_unit(*u),
        _ => return None,
    };
    if other == *dt { None } else { Some(other) }
}

fn reason_short(s: &str) -> String {'''
assert old in s; s=s.replace(old,new,1)
# remove the silly Duration line helper (keep simple)
s=s.replace("        Duration(u) => Duration([TUnit::S, TUnit::Ms, TUnit::Us, TUnit::Ns][k % 4]).clone().max_by_unit(*u),\n","        Duration(_) => Duration([TUnit::S, TUnit::Ms, TUnit::Us, TUnit::Ns][k % 4]),\n")
# header
s=s.replace("//! 3. `a == b ⇒ hash(a) == hash(b)` over the scalars and their read-back copies.","//! 3. `a == b ⇒ hash(a) == hash(b)` over the scalars and their read-back copies, and for values[0] rebuilt\n//!    under a sibling type (other time zone, dictionary key width, run-end width, decimal precision / scale,\n//!    string flavour, time unit); `==` must also be symmetric there. For leaf types `==` between different\n//!    logical values is itself a violation; for nested types that verdict is arrow's and only labelled.")
open(p,'w').write(s)
# budgets
p='/verif/harness/crates/vf-common/src/c12.rs'
s=open(p).read()
s=s.replace("tier.pick(60_000, 4_000_000)","tier.pick(60_000, 2_000_000)").replace("tier.pick(5_000, 200_000)","tier.pick(5_000, 100_000)")
open(p,'w').write(s)
print("ok")
