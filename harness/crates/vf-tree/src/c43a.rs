//! C43 (part a) — `ConfigOptions`, `TableOptions` (CSV / Parquet / JSON selected) round-trip through
//! the text they REPORT (`entries()`), and reject invalid values without changing anything.
//!
//! Domain: a target (session options / table options of one format), a random sequence of `set`s
//! applied first (random base configuration), then one `set(key, value)` under test. Keys are ALL
//! keys `entries()` lists for the target (plus, for Parquet, column-specific keys `x::col`, which
//! appear in `entries()` once set); values come from a pool of spellings covering every field kind
//! (bools in several cases, integers at 0/1/2/boundaries, floats, every documented enum spelling,
//! `codec(level)` forms, sizes, empty / unicode strings, garbage) or are generated strings.
//! Whether a value is valid for a key is decided by `set` itself — the claims are about what
//! follows from its verdict:
//!  (2) `set(k, v)` = Ok: let `t` be the text now reported for `k`; `set(k, t)` must succeed and
//!      leave `entries()` unchanged (display∘parse idempotent on reported text);
//!  (3) `set(k, v)` = Err: `entries()` is exactly what it was;
//!  (1) sweep (some cases + the `extra` sub-run): for EVERY entry with `Some(text)`,
//!      `set(key, text)` succeeds and `entries()` is unchanged.
//! Documented exception: `datafusion.optimizer.enable_dynamic_filter_pushdown` overwrites its three
//! sub-switches — they are masked in comparisons for that key only.
//! `entries()` is compared as a key-sorted list (column-specific options live in a hash map).
//!
//! Deviations from DESIGN.md: lives in `vf-tree`; keys are not classified by kind (the pool is
//! applied to every key, `set` decides) — sound by construction and it cannot miss a kind.
//!
//! FINDINGS (genuine, open in /verif/known_findings.json; cases under /verif/regressions/C43/c43a;
//! proposed repair /verif/fixes/C43-config-failed-set-and-duplicate-entry.diff):
//! * `failed-set-materialises-default` / `failed-set-creates-entries`: `Option<F>::set` and the
//!   per-column hash map insert the default BEFORE parsing, so a rejected value turns a NULL option
//!   into `Some(default)` (or leaves a struct / a column entry behind) — claim 3 broken.
//! * `duplicate-key:format.crypto.file_encryption.store_aad_prefix`: a stray `visit` line reports
//!   that key twice (second time with the AAD prefix string, which `set` rejects for a bool).
//! Every failing outcome is classified (`Finding.class`); a case is excluded exactly when its class
//! is an open entry (so any other failure, also on the same key, is still a violation).
//!
//! Sensitivity probes (tools/mutrun, quick tier; patches under harness/crates/vf-tree/probes/):
//! * p1-vec-flag-after-jump+spill-display.diff, hunk 2 — `Display for SpillCompression` prints `lz4`
//!   for `Lz4Frame` while `FromStr` only knows `lz4_frame` (DESIGN probe "Display prints a spelling
//!   set() does not parse back"): c43a VIOLATION after 4288 evaluations (4.8 s): "after
//!   set(spill_compression, lz4_frame) the configuration reports "lz4", which set() rejects".
//! * the three open findings above are themselves instances of DESIGN's third probe ("partial update
//!   before a parse error") present in the unchanged tree; the check found them within the first 30
//!   evaluations.
use datafusion::common::config::{ConfigFileType, ConfigOptions, TableOptions};
use proptest::prelude::*;
use serde::{Deserialize, Serialize};
use serde_json::json;
use std::collections::BTreeMap;
use vf_kit::engine::*;

pub const UMBRELLA: &str = "datafusion.optimizer.enable_dynamic_filter_pushdown";
pub const UMBRELLA_SUBS: [&str; 3] = [
    "datafusion.optimizer.enable_topk_dynamic_filter_pushdown",
    "datafusion.optimizer.enable_join_dynamic_filter_pushdown",
    "datafusion.optimizer.enable_aggregate_dynamic_filter_pushdown",
];

/// spellings tried on every key
pub fn pool() -> Vec<&'static str> {
    vec![
        // bools
        "true", "false", "TRUE", "False", "tRuE", "t", "yes", "1", "0",
        // integers and boundaries
        "2", "3", "7", "10", "64", "100", "101", "255", "256", "1024", "8192", "65536", "1048576", "4294967295", "4294967296", "2147483647", "2147483648", "-1", "-2147483648",
        "18446744073709551615", "18446744073709551616", "9223372036854775807", "+5", "007", " 8", "8 ", "1_000", "0x10", "1e3",
        // floats
        "0.5", "0.05", "1.0", "0.0", "-0.0", "1e-3", "1.5e300", "NaN", "inf", "-inf", "0.1", ".5", "5.",
        // sizes / durations
        "1K", "10M", "2G", "1.5G", "512", "1k", "30s", "2m", "1m30s",
        // strings
        "", " ", "abc", "ABC", "a,b", "ü", "日本", "\"q\"", "'", "a b", "null", "NULL", "none", "None",
        // dialects
        "generic", "Generic", "mysql", "MySQL", "postgresql", "postgres", "hive", "sqlite", "snowflake", "redshift", "mssql", "clickhouse", "bigquery", "ansi", "duckdb", "databricks",
        // spill compression, parquet compression, encodings, statistics, writer version
        "zstd", "lz4_frame", "uncompressed", "UNCOMPRESSED", "snappy", "SNAPPY", "gzip", "gzip(6)", "gzip(10)", "GZIP(4)", "lzo", "brotli", "brotli(4)", "brotli(11)", "brotli(12)", "lz4", "lz4_raw", "zstd(3)", "zstd(1)",
        "ZSTD(22)", "zstd(23)", "zstd()", "zstd(x)", "zstd(3", "plain", "plain_dictionary", "rle", "bit_packed", "delta_binary_packed", "delta_length_byte_array", "delta_byte_array", "rle_dictionary",
        "byte_stream_split", "PLAIN", "chunk", "page", "Page", "1.0", "2.0", "3.0",
        // file compression, csv quoting
        "GZIP", "BZIP2", "bzip2", "XZ", "xz", "ZSTD", "Always", "Necessary", "NonNumeric", "Never", "always",
        // explain / analyze / duration / dedup / time zone / misc enums
        "indent", "tree", "pgjson", "graphviz", "summary", "dev", "pretty", "iso8601", "ISO8601", "EXCEPTION", "LAST_WIN", "last_win", "exception", "+00:00", "UTC", "America/New_York", "+25:00",
        "row", "column", "auto", "default", "legacy", "v1", "v2",
        // single characters (u8 fields: delimiters, quotes)
        ",", ";", "|", "\t", "\\", "\"", "a", "é",
        // hex keys (encryption)
        "30313233343536373839303132333435", "zz",
    ]
}

#[derive(Clone, Copy, Debug, PartialEq, Eq, Serialize, Deserialize)]
pub enum Target {
    Session,
    Csv,
    Parquet,
    Json,
}

#[derive(Clone, Debug, Serialize, Deserialize)]
pub enum Val {
    /// index into `pool()` (mapped monotonically)
    Pool(u16),
    Text(String),
}

#[derive(Clone, Debug, Serialize, Deserialize)]
pub struct Case {
    pub target: Target,
    /// (key selector, value) pairs applied first; errors are ignored
    pub base: Vec<(u16, Val)>,
    pub key: u16,
    pub value: Val,
    /// additionally run the whole-configuration sweep (claim 1) on the resulting configuration
    pub sweep: bool,
}

pub enum Cfg {
    S(Box<ConfigOptions>),
    T(Box<TableOptions>),
}

pub type Entries = BTreeMap<String, Option<String>>;

impl Cfg {
    pub fn new(t: Target) -> Cfg {
        match t {
            Target::Session => Cfg::S(Box::new(ConfigOptions::new())),
            Target::Csv | Target::Parquet | Target::Json => {
                let mut o = TableOptions::new();
                o.set_config_format(match t {
                    Target::Csv => ConfigFileType::CSV,
                    Target::Parquet => ConfigFileType::PARQUET,
                    _ => ConfigFileType::JSON,
                });
                Cfg::T(Box::new(o))
            }
        }
    }
    pub fn set(&mut self, k: &str, v: &str) -> Result<(), String> {
        match self {
            Cfg::S(c) => c.set(k, v).map_err(|e| e.to_string()),
            Cfg::T(c) => c.set(k, v).map_err(|e| e.to_string()),
        }
    }
    pub fn dup(&self) -> Cfg {
        match self {
            Cfg::S(c) => Cfg::S(c.clone()),
            Cfg::T(c) => Cfg::T(c.clone()),
        }
    }
    /// `entries()` as a key-sorted map; a key listed more than once keeps its first value, the later
    /// ones are kept under `<key>#dup` (reported by `evaluate` as finding `duplicate-key:<key>`)
    pub fn entries(&self) -> Result<Entries, String> {
        let list = match self {
            Cfg::S(c) => c.entries(),
            Cfg::T(c) => c.entries(),
        };
        let mut m = Entries::new();
        for e in list {
            if m.contains_key(&e.key) {
                m.insert(format!("{}#dup", e.key), e.value);
            } else {
                m.insert(e.key, e.value);
            }
        }
        Ok(m)
    }
}

fn duplicate_key(e: &Entries) -> Option<Finding> {
    e.keys().find(|k| k.ends_with("#dup")).map(|k| {
        let k = k.trim_end_matches("#dup");
        Finding { class: format!("duplicate-key:{k}"), message: format!("entries() lists key {k} more than once: {:?} and {:?}", e.get(k), e.get(&format!("{k}#dup"))) }
    })
}

/// every key of the target, in `entries()` order of the default configuration, plus dynamic ones
pub fn keys_of(t: Target) -> Vec<String> {
    let c = Cfg::new(t);
    let list = match &c {
        Cfg::S(c) => c.entries(),
        Cfg::T(c) => c.entries(),
    };
    let mut keys: Vec<String> = list.into_iter().map(|e| e.key).collect();
    if t == Target::Parquet {
        for f in ["bloom_filter_enabled", "encoding", "dictionary_enabled", "compression", "statistics_enabled", "bloom_filter_fpp", "bloom_filter_ndv"] {
            keys.push(format!("format.{f}::c1"));
        }
        keys.push("format.compression::a.b".into());
        keys.push("format.metadata::k1".into());
        keys.push("format.crypto.file_encryption.column_key_as_hex::c1".into());
        keys.push("format.crypto.file_decryption.column_key_as_hex::c1".into());
    }
    keys
}

fn val_text(v: &Val) -> String {
    match v {
        Val::Pool(i) => {
            let p = pool();
            p[pick_index(*i, p.len())].to_string()
        }
        Val::Text(s) => s.clone(),
    }
}

fn masked(e: &Entries, key: &str) -> Entries {
    let mut e = e.clone();
    if key == UMBRELLA {
        for s in UMBRELLA_SUBS {
            e.remove(s);
        }
    }
    e
}

fn diff(a: &Entries, b: &Entries) -> String {
    let mut out = vec![];
    for (k, v) in a {
        match b.get(k) {
            None => out.push(format!("{k}: {v:?} -> <absent>")),
            Some(w) if w != v => out.push(format!("{k}: {v:?} -> {w:?}")),
            _ => {}
        }
    }
    for (k, w) in b {
        if !a.contains_key(k) {
            out.push(format!("{k}: <absent> -> {w:?}"));
        }
    }
    truncate(&out.join("; "), 1500)
}

pub struct Finding {
    /// normalised class (used as known-finding signature)
    pub class: String,
    pub message: String,
}

#[derive(Default)]
pub struct Outcome {
    pub labels: Vec<String>,
    pub nontrivial: bool,
}

/// claim (1): every reported text can be set back without changing anything
pub fn sweep(cfg: &Cfg) -> Result<usize, Finding> {
    let before = cfg.entries().map_err(|m| Finding { class: "duplicate-key".into(), message: m })?;
    let mut n = 0;
    for (k, v) in &before {
        let Some(text) = v else { continue };
        if k.ends_with("#dup") {
            continue;
        }
        let mut c = cfg.dup();
        n += 1;
        match c.set(k, text) {
            Err(e) => {
                return Err(Finding { class: format!("reported-text-rejected:{k}"), message: format!("entries() reports {k} = {text:?} but set({k:?}, {text:?}) fails: {e}") });
            }
            Ok(()) => {
                let after = c.entries().map_err(|m| Finding { class: "duplicate-key".into(), message: m })?;
                if masked(&after, k) != masked(&before, k) {
                    return Err(Finding {
                        class: format!("reported-text-not-idempotent:{k}"),
                        message: format!("set({k:?}, {text:?}) with the reported text changed the configuration: {}", diff(&masked(&before, k), &masked(&after, k))),
                    });
                }
            }
        }
    }
    Ok(n)
}

/// claims (2) and (3) for one `set(key, value)` on `cfg` (which is modified)
pub fn check_set(cfg: &mut Cfg, defaults: &Entries, key: &str, value: &str) -> Result<Outcome, Finding> {
    let dup = |m: String| Finding { class: "duplicate-key".into(), message: m };
    let before = cfg.entries().map_err(dup)?;
    let mut out = Outcome::default();
    match cfg.set(key, value) {
        Err(e) => {
            let after = cfg.entries().map_err(dup)?;
            if after != before {
                // normalised class: what kind of residue the failed set left behind
                let created: Vec<&String> = after.keys().filter(|k| !before.contains_key(*k)).collect();
                let class = if !created.is_empty() {
                    "failed-set-creates-entries"
                } else if before.get(key) == Some(&None) && after.get(key).map(|v| v.is_some()).unwrap_or(false) {
                    "failed-set-materialises-default"
                } else {
                    "failed-set-changes-options"
                };
                return Err(Finding { class: class.into(), message: format!("set({key:?}, {value:?}) failed ({}) but changed the configuration: {}", truncate(&e, 200), diff(&before, &after)) });
            }
            out.labels.push("rejected".into());
        }
        Ok(()) => {
            let after = cfg.entries().map_err(dup)?;
            out.labels.push("accepted".into());
            match after.get(key) {
                None => out.labels.push("accepted-key-not-reported".into()),
                Some(None) => out.labels.push("accepted-but-reports-null".into()),
                Some(Some(t)) => {
                    if t != value {
                        out.labels.push("normalised-spelling".into());
                    }
                    let mut c2 = cfg.dup();
                    if let Err(e) = c2.set(key, t) {
                        return Err(Finding {
                            class: format!("reported-text-rejected:{key}"),
                            message: format!("after set({key:?}, {value:?}) the configuration reports {t:?}, which set() rejects: {e}"),
                        });
                    }
                    let again = c2.entries().map_err(dup)?;
                    if masked(&again, key) != masked(&after, key) {
                        return Err(Finding {
                            class: format!("reported-text-not-idempotent:{key}"),
                            message: format!(
                                "after set({key:?}, {value:?}) the configuration reports {t:?}; setting that text changes the configuration: {}",
                                diff(&masked(&after, key), &masked(&again, key))
                            ),
                        });
                    }
                    let def = defaults.get(key).cloned().flatten();
                    let is_bool = matches!(def.as_deref(), Some("true") | Some("false")) || matches!(t.as_str(), "true" | "false");
                    if Some(t) != def.as_ref() {
                        out.labels.push("non-default".into());
                        if !is_bool {
                            out.nontrivial = true;
                        }
                    }
                }
            }
        }
    }
    if let Some(f) = cfg.entries().ok().as_ref().and_then(duplicate_key) {
        return Err(f);
    }
    Ok(out)
}

fn short_key(k: &str) -> String {
    // histogram by namespace
    let parts: Vec<&str> = k.split('.').collect();
    if parts.len() >= 3 && parts[0] == "datafusion" { format!("ns={}.{}", parts[0], parts[1]) } else { format!("ns={}", parts[0]) }
}

fn cached(t: Target) -> &'static (Vec<String>, Entries) {
    static CACHE: std::sync::OnceLock<Vec<(Vec<String>, Entries)>> = std::sync::OnceLock::new();
    let all = CACHE.get_or_init(|| [Target::Session, Target::Csv, Target::Parquet, Target::Json].iter().map(|t| (keys_of(*t), Cfg::new(*t).entries().unwrap_or_default())).collect());
    &all[match t {
        Target::Session => 0,
        Target::Csv => 1,
        Target::Parquet => 2,
        Target::Json => 3,
    }]
}

thread_local! {
    /// the engine asks for `known_signature` and then runs the same case: evaluate once
    static LAST: std::cell::RefCell<Option<(u64, Result<(Vec<String>, bool), (String, String)>)>> = const { std::cell::RefCell::new(None) };
}

fn evaluate_cached(case: &Case) -> Result<(Vec<String>, bool), (String, String)> {
    let h = fnv1a(serde_json::to_string(case).unwrap_or_default().as_bytes());
    if let Some(e) = LAST.with(|l| l.borrow().as_ref().filter(|(k, _)| *k == h).map(|(_, e)| e.clone())) {
        LAST.with(|l| *l.borrow_mut() = None);
        return e;
    }
    let e = match evaluate(case) {
        Ok(o) => Ok((o.labels, o.nontrivial)),
        Err(f) => Err((f.class, f.message)),
    };
    LAST.with(|l| *l.borrow_mut() = Some((h, e.clone())));
    e
}

pub fn evaluate(case: &Case) -> Result<Outcome, Finding> {
    let (keys, defaults) = cached(case.target);
    let mut cfg = Cfg::new(case.target);
    let mut applied = 0;
    for (k, v) in &case.base {
        let key = &keys[pick_index(*k, keys.len())];
        // a failed base set may leave residue (that is claim 3's business when it is the set under
        // test); the base only serves to reach other configurations
        if cfg.set(key, &val_text(v)).is_ok() {
            applied += 1;
        }
    }
    let key = keys[pick_index(case.key, keys.len())].clone();
    let value = val_text(&case.value);
    let mut out = check_set(&mut cfg, defaults, &key, &value)?;
    out.labels.push(format!("target={:?}", case.target));
    out.labels.push(short_key(&key));
    out.labels.push(format!("base-sets={}", applied.min(3)));
    if key.contains("::") {
        out.labels.push("column-specific-key".into());
    }
    if case.sweep {
        sweep(&cfg)?;
        out.labels.push("sweep".into());
    }
    if let Some(f) = cfg.entries().ok().as_ref().and_then(duplicate_key) {
        return Err(f);
    }
    Ok(out)
}

pub struct C43a;

pub fn val_strategy() -> BoxedStrategy<Val> {
    prop_oneof![
        10 => any::<u16>().prop_map(Val::Pool),
        1 => "[a-z_]{1,8}(\\([0-9]{0,3}\\))?".prop_map(Val::Text),
        1 => "-?[0-9]{1,20}".prop_map(Val::Text),
        1 => "[0-9]{1,4}(\\.[0-9]{1,3})?[KMGkmgs]?".prop_map(Val::Text),
        1 => "\\PC{0,6}".prop_map(Val::Text),
    ]
    .boxed()
}

impl Property for C43a {
    type Case = Case;
    fn id(&self) -> &'static str {
        "C43"
    }
    fn sub(&self) -> &'static str {
        "c43a"
    }
    fn strategy(&self, tier: Tier) -> BoxedStrategy<Case> {
        let target = prop_oneof![4 => Just(Target::Session), 2 => Just(Target::Parquet), 1 => Just(Target::Csv), 1 => Just(Target::Json)];
        let base = prop::collection::vec((any::<u16>(), val_strategy()), 0..tier.pick(4, 12));
        (target, base, any::<u16>(), val_strategy(), prop::bool::weighted(0.03)).prop_map(|(target, base, key, value, sweep)| Case { target, base, key, value, sweep }).boxed()
    }
    fn budget(&self, tier: Tier) -> Budget {
        Budget::new(tier.pick(40_000, 3_000_000), tier.pick(8, 16)).min_nontrivial(tier.pick(2_000, 50_000))
    }
    fn rule(&self) -> String {
        "target (ConfigOptions / TableOptions with CSV, Parquet or JSON selected) x random base configuration (0-3 resp. 0-11 prior sets) x one key out of ALL keys entries() lists (+ column-specific \
         Parquet keys) x one value (pool of spellings for every field kind, or a generated string); validity is decided by set() itself; non-trivial = the set is accepted and the reported text \
         differs from the default and the option is not a bool; distinct by case JSON. extra: every key x every pool value on the default configuration of every target (exhaustive over keys) \
         plus the whole-configuration sweep"
            .into()
    }
    fn assumptions(&self) -> Vec<String> {
        vec![
            "entries() is the configuration's report of itself (compared as a key-sorted list)".into(),
            "datafusion.optimizer.enable_dynamic_filter_pushdown documents that it overwrites its three sub-switches: they are masked for that key only".into(),
        ]
    }
    fn known_signature(&self, case: &Case) -> Option<String> {
        // outside the engine's panic guard: let a panic surface through `run` instead
        std::panic::catch_unwind(std::panic::AssertUnwindSafe(|| evaluate_cached(case))).ok().and_then(|r| r.err()).map(|(class, _)| class)
    }
    fn run(&self, case: &Case) -> CaseResult {
        match evaluate_cached(case) {
            Ok((labels, nt)) => CaseResult::pass().nontrivial(nt).labels(labels),
            Err((class, message)) => CaseResult::violation(format!("[{class}] {message}")).label(format!("class={class}")),
        }
    }
    fn extra(&self, _tier: Tier, _seed: u64) -> Result<serde_json::Value, (String, Case)> {
        let p = pool();
        let mut per_target = serde_json::Map::new();
        let mut sets = 0u64;
        let mut known = BTreeMap::<String, u64>::new();
        for target in [Target::Session, Target::Csv, Target::Parquet, Target::Json] {
            let keys = keys_of(target);
            let defaults = Cfg::new(target).entries().map_err(|m| (m, Case { target, base: vec![], key: 0, value: Val::Pool(0), sweep: false }))?;
            let mk = |ki: usize, value: Val, sweep: bool| Case { target, base: vec![], key: key_selector(ki, keys.len()), value, sweep };
            // claim 1 on the default configuration
            if let Err(f) = sweep(&Cfg::new(target)) {
                if !crate::c42known::is_open("C43", &f.class) {
                    return Err((format!("[{}] {}", f.class, f.message), mk(0, Val::Pool(0), true)));
                }
                *known.entry(f.class).or_default() += 1;
            }
            let mut accepted_keys = 0usize;
            for (ki, key) in keys.iter().enumerate() {
                let mut any_ok = false;
                let mut swept = false;
                for (vi, v) in p.iter().enumerate() {
                    let mut cfg = Cfg::new(target);
                    sets += 1;
                    match check_set(&mut cfg, &defaults, key, v) {
                        Ok(o) => {
                            any_ok |= o.labels.iter().any(|l| l == "accepted");
                            // claim 1 on every configuration one accepted non-default set away
                            if !swept && o.labels.iter().any(|l| l == "non-default") {
                                swept = true;
                                if let Err(f) = sweep(&cfg) {
                                    if !crate::c42known::is_open("C43", &f.class) {
                                        return Err((format!("[{}] {}", f.class, f.message), mk(ki, Val::Pool(pool_selector(vi, p.len())), true)));
                                    }
                                    *known.entry(f.class).or_default() += 1;
                                }
                            }
                        }
                        Err(f) => {
                            if !crate::c42known::is_open("C43", &f.class) {
                                return Err((format!("[{}] {}", f.class, f.message), mk(ki, Val::Pool(pool_selector(vi, p.len())), false)));
                            }
                            *known.entry(f.class).or_default() += 1;
                        }
                    }
                }
                if any_ok {
                    accepted_keys += 1;
                }
            }
            per_target.insert(format!("{target:?}"), json!({"keys": keys.len(), "keys_with_an_accepted_value": accepted_keys}));
        }
        Ok(json!({
            "all_keys_subrun": {
                "exhaustive": true,
                "what": "every key listed by entries() of every target (default configuration) x every pool value: claims 2/3; claim-1 sweep on the default configuration and, per key, on the configuration reached by its first accepted non-default value",
                "targets": per_target,
                "pool_values": p.len(),
                "sets": sets,
                "outcomes_matching_open_known_findings": known,
            }
        }))
    }
}

/// selector that `pick_index` maps back to `i`
pub fn key_selector(i: usize, len: usize) -> u16 {
    selector(i, len)
}
pub fn pool_selector(i: usize, len: usize) -> u16 {
    selector(i, len)
}
fn selector(i: usize, len: usize) -> u16 {
    // smallest c with (c * len) >> 16 == i
    let c = ((i << 16) + len - 1) / len;
    c.min(u16::MAX as usize) as u16
}
