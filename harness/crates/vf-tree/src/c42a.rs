//! C42 (part a) — the `TreeNode` default methods and every `TreeNodeContainer` /
//! `TreeNodeRefContainer` / `TreeNodeIterator` implementation of `datafusion/common/src/tree_node.rs`,
//! exercised through three harness tree types:
//!
//! * `H`  — an enum implementing `TreeNode` directly, whose variants keep their children in the
//!   containers the real trees use: `Vec<T>`, `Vec<Box<T>>`, `Option<Box<T>>`, `(Box,Box)`,
//!   `(Box,Option<Box>,Vec)`, a 4-tuple with a `Vec<(Box,Box)>`, `Arc<Vec<T>>`, `HashMap<u32,T>`,
//!   `Vec<Vec<T>>`; `apply_children` goes through the `&`-tuple / `Vec<&C>` ref containers for some
//!   variants (as `Expr::apply_children` does), `map_children` through `map_elements`.
//! * `C`  — a struct implementing `ConcreteTreeNode` (blanket `TreeNode` impl, `TreeNodeIterator`).
//! * `D`  — `Arc<DNode>` with `DNode: DynTreeNode` (blanket impl used by physical exprs / plans).
//!
//! Case = (flavor, API, tree shape ≤ 15 nodes, decision vector). Oracle: `c42ref` (independent
//! reference interpreter; lock-step comparison of the exact call sequence incl. the node each
//! callback sees, final `TreeNodeRecursion`, `transformed`, resulting tree).
//! `extra`: exhaustive enumeration of ALL Continue/Jump/Stop vectors on all ordered trees with few
//! nodes (3^n for single-phase APIs, 9^n for the combined ones), every flavor.
//!
//! Deviations from DESIGN.md: lives in `vf-tree` (not vf-common). Decisions that a real caller
//! cannot make are not generated: a changed node is always reported (`Transformed::yes`), because
//! `DynTreeNode::map_children` documents that unreported child changes are dropped; wrapping a node
//! top-down (which would re-enter the wrapped node for ever) is replaced by "fresh subtree".
//! Hash-map traversal order is unspecified: the reference takes each map node's child order from
//! the node's own `apply_children` (and `map_children` must agree with it); outcome labels of such
//! cases may therefore vary between processes, verdicts and non-trivial counts cannot.
//!
//! FINDINGS (genuine, open in /verif/known_findings.json; minimal cases under /verif/regressions/C42):
//! * `trailing-empty-container` (c42a + c42b/Expr): tuple containers and `Vec<container>` /
//!   `HashMap` / `Vec<&C>` take the status of the LAST member even when that member is empty, so a
//!   `Jump` returned for the last child is forgotten when the node's layout ends with an empty
//!   container: `transform_up` on `count(1,2,3)` with `f_up(3) = Jump` still calls `f_up(count(..))`
//!   (a `ScalarFunction`, plain `Vec`, bypasses it as documented); same for CASE without ELSE, window
//!   function without FILTER, `x IN ()`, GROUPING SETS ending in `()`. Proposed repair:
//!   /verif/fixes/C42-empty-container-keeps-jump.diff (an empty container keeps the previous status).
//! * `subquery-jump-absorbed` (c42b/LogicalSubq): see c42known.rs; proposed repair
//!   /verif/fixes/C42-subquery-jump-belongs-to-plan-walk.diff.
//! Cases that fall under an open finding are recognised exactly (the reference gives a different
//! outcome with the finding's behaviour modelled — `c42known.rs`) and excluded with a counter; for
//! container trees with a 2+ entry hash map the test is conservative (order unknown ahead of the run).
//!
//! Sensitivity probes (tools/mutrun, quick tier; patches under harness/crates/vf-tree/probes/):
//! * probes/p1-vec-flag-after-jump+spill-display.diff, hunk 1 — `Vec<C>::map_elements` forgets the
//!   `transformed` flag of earlier elements once an element returned Jump (DESIGN probe
//!   "map_until_stop_and_collect dropping the transformed flag after a Jump"): c42a VIOLATION after
//!   92 evaluations (transform_up on V(VV(V(V),V)): "reports transformed=false but the callbacks
//!   reported a change"), c42b VIOLATION after 314 (Expr ScalarFunction args, map_children).
//! * probes/p2-between-forgets-high+set-lowercases.diff, hunk 1 — `Expr::map_children` forgets the
//!   `high` operand of BETWEEN (DESIGN probe "an Expr variant forgetting a child in map_children"):
//!   c42b VIOLATION after 110 evaluations ("apply_children lists [1,2,3] but map_children maps [1,2]").
//! (each mutrun rebuilt all of DataFusion, ~2.5 h on the shared machine; the second hunks of the two
//! patches are the C43 probes, see c43a.rs / c43b.rs)
use crate::c42ref::*;
use datafusion::common::Result as DFResult;
use datafusion::common::tree_node::{
    ConcreteTreeNode, DynTreeNode, Transformed, TreeNode, TreeNodeContainer, TreeNodeRecursion, TreeNodeRefContainer,
};
use proptest::prelude::*;
use serde::{Deserialize, Serialize};
use serde_json::json;
use std::collections::HashMap;
use std::sync::Arc;
use vf_kit::engine::*;

// ---------------------------------------------------------------------------------------------
// flavor H: containers

type B = Box<HNode>;

#[derive(Clone, Debug, Default, PartialEq)]
pub enum HNode {
    /// placeholder required by `Box<C>: TreeNodeContainer` (`C: Default`); never part of a tree
    #[default]
    Nil,
    L(u32, u32),
    V(u32, u32, Vec<HNode>),
    VB(u32, u32, Vec<B>),
    OB(u32, u32, Option<B>),
    P(u32, u32, (B, B)),
    T(u32, u32, (B, Option<B>, Vec<HNode>)),
    Q(u32, u32, (Vec<HNode>, Option<B>, B, Vec<(B, B)>)),
    AV(u32, u32, Arc<Vec<HNode>>),
    M(u32, u32, HashMap<u32, HNode>),
    VV(u32, u32, Vec<Vec<HNode>>),
    /// children in a plain Vec, but `apply_children` goes through `Vec<&C>::apply_ref_elements`
    RV(u32, u32, Vec<HNode>),
}

impl<'a> TreeNodeContainer<'a, Self> for HNode {
    fn apply_elements<F: FnMut(&'a Self) -> DFResult<TreeNodeRecursion>>(&'a self, mut f: F) -> DFResult<TreeNodeRecursion> {
        f(self)
    }
    fn map_elements<F: FnMut(Self) -> DFResult<Transformed<Self>>>(self, mut f: F) -> DFResult<Transformed<Self>> {
        f(self)
    }
}

impl TreeNode for HNode {
    fn apply_children<'n, F: FnMut(&'n Self) -> DFResult<TreeNodeRecursion>>(&'n self, f: F) -> DFResult<TreeNodeRecursion> {
        match self {
            HNode::Nil | HNode::L(..) => Ok(TreeNodeRecursion::Continue),
            HNode::V(_, _, k) => k.apply_elements(f),
            HNode::VB(_, _, k) => k.apply_elements(f),
            HNode::OB(_, _, k) => k.apply_elements(f),
            HNode::P(_, _, (a, b)) => (a, b).apply_ref_elements(f),
            HNode::T(_, _, (a, b, c)) => (a, b, c).apply_ref_elements(f),
            HNode::Q(_, _, k) => k.apply_elements(f),
            HNode::AV(_, _, k) => k.apply_elements(f),
            HNode::M(_, _, k) => k.apply_elements(f),
            HNode::VV(_, _, k) => k.apply_elements(f),
            HNode::RV(_, _, k) => k.iter().collect::<Vec<&HNode>>().apply_ref_elements(f),
        }
    }
    fn map_children<F: FnMut(Self) -> DFResult<Transformed<Self>>>(self, f: F) -> DFResult<Transformed<Self>> {
        Ok(match self {
            HNode::Nil | HNode::L(..) => Transformed::no(self),
            HNode::V(i, l, k) => k.map_elements(f)?.update_data(|k| HNode::V(i, l, k)),
            HNode::VB(i, l, k) => k.map_elements(f)?.update_data(|k| HNode::VB(i, l, k)),
            HNode::OB(i, l, k) => k.map_elements(f)?.update_data(|k| HNode::OB(i, l, k)),
            HNode::P(i, l, k) => k.map_elements(f)?.update_data(|k| HNode::P(i, l, k)),
            HNode::T(i, l, k) => k.map_elements(f)?.update_data(|k| HNode::T(i, l, k)),
            HNode::Q(i, l, k) => k.map_elements(f)?.update_data(|k| HNode::Q(i, l, k)),
            HNode::AV(i, l, k) => k.map_elements(f)?.update_data(|k| HNode::AV(i, l, k)),
            HNode::M(i, l, k) => k.map_elements(f)?.update_data(|k| HNode::M(i, l, k)),
            HNode::VV(i, l, k) => k.map_elements(f)?.update_data(|k| HNode::VV(i, l, k)),
            HNode::RV(i, l, k) => k.map_elements(f)?.update_data(|k| HNode::RV(i, l, k)),
        })
    }
}

/// kinds a node with `k` children can take
pub fn h_kinds(k: usize) -> Vec<&'static str> {
    let mut v = vec!["V", "VB", "AV", "M", "VV", "RV", "VVE"];
    if k == 0 {
        v.push("L");
        v.push("L");
    }
    if k <= 1 {
        v.push("OB");
    }
    if k == 2 {
        v.push("P");
        v.push("P");
    }
    if k >= 1 {
        v.push("T");
        v.push("Q");
        v.push("T");
        v.push("Q");
    }
    v
}

fn bx(n: HNode) -> B {
    Box::new(n)
}

fn h_build(s: &RNode) -> Result<HNode, String> {
    let kids: Vec<HNode> = s.kids.iter().map(h_build).collect::<Result<_, _>>()?;
    let (i, l, k) = (s.id, s.label, kids.len());
    let bad = || Err(format!("kind {} cannot hold {k} children", s.kind));
    Ok(match s.kind {
        "L" => {
            if k != 0 {
                return bad();
            }
            HNode::L(i, l)
        }
        "V" => HNode::V(i, l, kids),
        "RV" => HNode::RV(i, l, kids),
        "VB" => HNode::VB(i, l, kids.into_iter().map(bx).collect()),
        "AV" => HNode::AV(i, l, Arc::new(kids)),
        "M" => HNode::M(i, l, kids.into_iter().enumerate().map(|(p, n)| (p as u32, n)).collect()),
        // chunks of two; "VVE" additionally ends with an empty inner vector
        "VV" | "VVE" => {
            let mut vv: Vec<Vec<HNode>> = vec![];
            let mut it = kids.into_iter().peekable();
            while it.peek().is_some() {
                vv.push(it.by_ref().take(2).collect());
            }
            if s.kind == "VVE" {
                vv.push(vec![]);
            }
            HNode::VV(i, l, vv)
        }
        "OB" => {
            if k > 1 {
                return bad();
            }
            HNode::OB(i, l, kids.into_iter().next().map(bx))
        }
        "P" => {
            if k != 2 {
                return bad();
            }
            let mut it = kids.into_iter();
            HNode::P(i, l, (bx(it.next().unwrap()), bx(it.next().unwrap())))
        }
        "T" => {
            if k < 1 {
                return bad();
            }
            let mut it = kids.into_iter();
            let a = bx(it.next().unwrap());
            let b = it.next().map(bx);
            HNode::T(i, l, (a, b, it.collect()))
        }
        "Q" => {
            if k < 1 {
                return bad();
            }
            // (vec, option, box, pairs): the option is used when the number of other children is
            // odd, one pair per four of the rest, the remaining ones go to the leading vector
            let rem = k - 1;
            let opt = rem % 2 == 1;
            let rem2 = rem - opt as usize;
            let npairs = rem2 / 4;
            let nvec = rem2 - 2 * npairs;
            let mut it = kids.into_iter();
            let v: Vec<HNode> = it.by_ref().take(nvec).collect();
            let o = if opt { it.next().map(bx) } else { None };
            let b = bx(it.next().unwrap());
            let mut pairs = vec![];
            for _ in 0..npairs {
                pairs.push((bx(it.next().unwrap()), bx(it.next().unwrap())));
            }
            HNode::Q(i, l, (v, o, b, pairs))
        }
        other => return Err(format!("unknown H kind {other}")),
    })
}

fn h_parts(n: &HNode) -> (&'static str, u32, u32) {
    match n {
        HNode::Nil => ("Nil", 0, 0),
        HNode::L(i, l) => ("L", *i, *l),
        HNode::V(i, l, _) => ("V", *i, *l),
        HNode::VB(i, l, _) => ("VB", *i, *l),
        HNode::OB(i, l, _) => ("OB", *i, *l),
        HNode::P(i, l, _) => ("P", *i, *l),
        HNode::T(i, l, _) => ("T", *i, *l),
        HNode::Q(i, l, _) => ("Q", *i, *l),
        HNode::AV(i, l, _) => ("AV", *i, *l),
        HNode::M(i, l, _) => ("M", *i, *l),
        HNode::VV(i, l, vv) => (if vv.last().map(|v| v.is_empty()).unwrap_or(false) { "VVE" } else { "VV" }, *i, *l),
        HNode::RV(i, l, _) => ("RV", *i, *l),
    }
}

/// children by direct field access, natural order (map: by key)
fn h_direct(n: &HNode) -> Vec<HNode> {
    match n {
        HNode::Nil | HNode::L(..) => vec![],
        HNode::V(_, _, k) | HNode::RV(_, _, k) => k.clone(),
        HNode::VB(_, _, k) => k.iter().map(|b| (**b).clone()).collect(),
        HNode::OB(_, _, k) => k.iter().map(|b| (**b).clone()).collect(),
        HNode::P(_, _, (a, b)) => vec![(**a).clone(), (**b).clone()],
        HNode::T(_, _, (a, b, c)) => std::iter::once((**a).clone()).chain(b.iter().map(|b| (**b).clone())).chain(c.iter().cloned()).collect(),
        HNode::Q(_, _, (v, o, b, ps)) => v
            .iter()
            .cloned()
            .chain(o.iter().map(|b| (**b).clone()))
            .chain(std::iter::once((**b).clone()))
            .chain(ps.iter().flat_map(|(x, y)| [(**x).clone(), (**y).clone()]))
            .collect(),
        HNode::AV(_, _, k) => (**k).clone(),
        HNode::M(_, _, m) => {
            let mut keys: Vec<&u32> = m.keys().collect();
            keys.sort();
            keys.into_iter().map(|k| m[k].clone()).collect()
        }
        HNode::VV(_, _, vv) => vv.iter().flatten().cloned().collect(),
    }
}

fn collect_kids<N: TreeNode + Clone>(n: &N) -> DFResult<Vec<N>> {
    let mut v = vec![];
    n.apply_children(|c| {
        v.push(c.clone());
        Ok(TreeNodeRecursion::Continue)
    })?;
    Ok(v)
}

pub struct H;
impl Family for H {
    type Node = HNode;
    const NAME: &'static str = "containers";
    const LEAF: &'static str = "L";
    const FRESH: &'static str = "V";
    const WRAP: &'static str = "OB";
    fn carries_id(_: &str) -> bool {
        true
    }
    fn carries_label(_: &str) -> bool {
        true
    }
    fn build(spec: &RNode) -> Result<HNode, String> {
        h_build(spec)
    }
    fn tag(n: &HNode) -> String {
        let (k, i, l) = h_parts(n);
        format!("{k}#{i}.{l}")
    }
    fn kids(n: &HNode) -> DFResult<Vec<HNode>> {
        collect_kids(n)
    }
    fn canon_kids(n: &HNode) -> DFResult<Vec<HNode>> {
        Ok(h_direct(n))
    }
    fn relabel(n: HNode, l: u32) -> HNode {
        match n {
            HNode::Nil => HNode::Nil,
            HNode::L(i, _) => HNode::L(i, l),
            HNode::V(i, _, k) => HNode::V(i, l, k),
            HNode::VB(i, _, k) => HNode::VB(i, l, k),
            HNode::OB(i, _, k) => HNode::OB(i, l, k),
            HNode::P(i, _, k) => HNode::P(i, l, k),
            HNode::T(i, _, k) => HNode::T(i, l, k),
            HNode::Q(i, _, k) => HNode::Q(i, l, k),
            HNode::AV(i, _, k) => HNode::AV(i, l, k),
            HNode::M(i, _, k) => HNode::M(i, l, k),
            HNode::VV(i, _, k) => HNode::VV(i, l, k),
            HNode::RV(i, _, k) => HNode::RV(i, l, k),
        }
    }
    fn wrap(n: HNode, id: u32) -> Result<HNode, String> {
        Ok(HNode::OB(id, 0, Some(bx(n))))
    }
    fn trailing_empty(kind: &str, k: usize) -> bool {
        match kind {
            // (Box, Option<Box>, Vec): the Vec is empty
            "T" => k <= 2,
            // (Vec, Option, Box, Vec<pairs>): no pair (see h_build)
            "Q" => k >= 1 && (k - 1 - ((k - 1) % 2)) / 4 == 0,
            "VVE" => k >= 1,
            _ => false,
        }
    }
    fn same(a: &HNode, b: &HNode) -> bool {
        a == b
    }
    fn call(api: Api, n: HNode, drv: &mut Driver<Self>) -> DFResult<Actual<HNode>> {
        treenode_call::<H>(api, n, drv)
    }
    fn consistency(n: &HNode) -> Result<(), String> {
        treenode_consistency::<H>(n)
    }
}

// ---------------------------------------------------------------------------------------------
// flavor C: ConcreteTreeNode

#[derive(Clone, Debug, PartialEq)]
pub struct CNode {
    id: u32,
    label: u32,
    kids: Vec<CNode>,
}

impl ConcreteTreeNode for CNode {
    fn children(&self) -> &[Self] {
        &self.kids
    }
    fn take_children(mut self) -> (Self, Vec<Self>) {
        let k = std::mem::take(&mut self.kids);
        (self, k)
    }
    fn with_new_children(mut self, children: Vec<Self>) -> DFResult<Self> {
        self.kids = children;
        Ok(self)
    }
}

pub struct C;
impl Family for C {
    type Node = CNode;
    const NAME: &'static str = "concrete";
    const LEAF: &'static str = "C";
    const FRESH: &'static str = "C";
    const WRAP: &'static str = "C";
    fn carries_id(_: &str) -> bool {
        true
    }
    fn carries_label(_: &str) -> bool {
        true
    }
    fn build(s: &RNode) -> Result<CNode, String> {
        Ok(CNode { id: s.id, label: s.label, kids: s.kids.iter().map(Self::build).collect::<Result<_, _>>()? })
    }
    fn tag(n: &CNode) -> String {
        format!("C#{}.{}", n.id, n.label)
    }
    fn kids(n: &CNode) -> DFResult<Vec<CNode>> {
        collect_kids(n)
    }
    fn canon_kids(n: &CNode) -> DFResult<Vec<CNode>> {
        Ok(n.kids.clone())
    }
    fn relabel(mut n: CNode, l: u32) -> CNode {
        n.label = l;
        n
    }
    fn wrap(n: CNode, id: u32) -> Result<CNode, String> {
        Ok(CNode { id, label: 0, kids: vec![n] })
    }
    fn same(a: &CNode, b: &CNode) -> bool {
        a == b
    }
    fn call(api: Api, n: CNode, drv: &mut Driver<Self>) -> DFResult<Actual<CNode>> {
        treenode_call::<C>(api, n, drv)
    }
    fn consistency(n: &CNode) -> Result<(), String> {
        treenode_consistency::<C>(n)
    }
}

// ---------------------------------------------------------------------------------------------
// flavor D: Arc<T: DynTreeNode>

#[derive(Debug, PartialEq)]
pub struct DNode {
    id: u32,
    label: u32,
    kids: Vec<Arc<DNode>>,
}

impl DynTreeNode for DNode {
    fn arc_children(&self) -> Vec<&Arc<Self>> {
        self.kids.iter().collect()
    }
    fn with_new_arc_children(&self, _arc_self: Arc<Self>, new_children: Vec<Arc<Self>>) -> DFResult<Arc<Self>> {
        Ok(Arc::new(DNode { id: self.id, label: self.label, kids: new_children }))
    }
}

pub struct D;
impl Family for D {
    type Node = Arc<DNode>;
    const NAME: &'static str = "dyn";
    const LEAF: &'static str = "D";
    const FRESH: &'static str = "D";
    const WRAP: &'static str = "D";
    fn carries_id(_: &str) -> bool {
        true
    }
    fn carries_label(_: &str) -> bool {
        true
    }
    fn build(s: &RNode) -> Result<Arc<DNode>, String> {
        Ok(Arc::new(DNode { id: s.id, label: s.label, kids: s.kids.iter().map(Self::build).collect::<Result<_, _>>()? }))
    }
    fn tag(n: &Arc<DNode>) -> String {
        format!("D#{}.{}", n.id, n.label)
    }
    fn kids(n: &Arc<DNode>) -> DFResult<Vec<Arc<DNode>>> {
        collect_kids(n)
    }
    fn canon_kids(n: &Arc<DNode>) -> DFResult<Vec<Arc<DNode>>> {
        Ok(n.kids.clone())
    }
    fn relabel(n: Arc<DNode>, l: u32) -> Arc<DNode> {
        Arc::new(DNode { id: n.id, label: l, kids: n.kids.clone() })
    }
    fn wrap(n: Arc<DNode>, id: u32) -> Result<Arc<DNode>, String> {
        Ok(Arc::new(DNode { id, label: 0, kids: vec![n] }))
    }
    fn same(a: &Arc<DNode>, b: &Arc<DNode>) -> bool {
        a == b
    }
    fn call(api: Api, n: Arc<DNode>, drv: &mut Driver<Self>) -> DFResult<Actual<Arc<DNode>>> {
        treenode_call::<D>(api, n, drv)
    }
    fn consistency(n: &Arc<DNode>) -> Result<(), String> {
        treenode_consistency::<D>(n)
    }
}

// ---------------------------------------------------------------------------------------------
// the property

#[derive(Clone, Debug, Serialize, Deserialize)]
pub struct Shape {
    /// kind selector (mapped monotonically onto the kinds compatible with the arity)
    pub k: u8,
    pub kids: Vec<Shape>,
}

#[derive(Clone, Debug, Serialize, Deserialize)]
pub struct Case {
    /// 0 = containers, 1 = ConcreteTreeNode, 2 = DynTreeNode
    pub flavor: u8,
    pub api: Api,
    pub tree: Shape,
    /// decision per node (pre-order id; nodes created by callbacks index from the end)
    pub dec: Vec<Dec>,
}

pub const MAX_NODES: usize = 15;

pub fn shape_strategy(depth: u32, size: u32, branch: u32) -> BoxedStrategy<Shape> {
    let leaf = any::<u8>().prop_map(|k| Shape { k, kids: vec![] });
    // arities 1 and 2 are the common ones in real trees (and there are many unary / binary variants)
    let arity = move || prop_oneof![1 => Just(0usize), 4 => Just(1usize), 4 => Just(2usize), 2 => Just(3usize), 1 => Just(4usize), 1 => Just(branch as usize)];
    let tree = leaf.prop_recursive(depth, size, branch, move |inner| {
        (any::<u8>(), arity(), prop::collection::vec(inner, branch as usize..=branch as usize)).prop_map(|(k, n, mut kids)| {
            kids.truncate(n);
            Shape { k, kids }
        })
    });
    // the root has at least one child in most cases
    (any::<u8>(), prop_oneof![1 => Just(0usize), 5 => Just(1usize), 5 => Just(2usize), 3 => Just(3usize), 1 => Just(4usize)], prop::collection::vec(tree, 4..=4))
        .prop_map(|(k, n, mut kids)| {
            kids.truncate(n);
            Shape { k, kids }
        })
        .boxed()
}

pub fn rec_strategy() -> BoxedStrategy<Rec> {
    prop_oneof![5 => Just(Rec::C), 2 => Just(Rec::J), 1 => Just(Rec::S)].boxed()
}

pub fn chg_strategy() -> BoxedStrategy<Chg> {
    prop_oneof![4 => Just(Chg::None), 1 => Just(Chg::Report), 3 => Just(Chg::Relabel), 1 => Just(Chg::Leaf), 1 => Just(Chg::Fresh), 1 => Just(Chg::Wrap)].boxed()
}

pub fn dec_strategy(n: usize) -> BoxedStrategy<Vec<Dec>> {
    let step = || (rec_strategy(), chg_strategy()).prop_map(|(rec, chg)| Step { rec, chg });
    prop::collection::vec((step(), step()).prop_map(|(down, up)| Dec { down, up }), n..=n).boxed()
}

pub fn api_strategy() -> BoxedStrategy<Api> {
    prop_oneof![
        2 => Just(Api::Apply),
        1 => Just(Api::Exists),
        3 => Just(Api::Visit),
        3 => Just(Api::TransformDown),
        3 => Just(Api::TransformUp),
        1 => Just(Api::Transform),
        4 => Just(Api::TransformDownUp),
        4 => Just(Api::Rewrite),
        2 => Just(Api::MapChildren),
        1 => Just(Api::ApplyChildren),
    ]
    .boxed()
}

/// abstract tree of a shape: at most `max` nodes (pre-order truncation), kinds by `kinds(arity)`
pub fn shape_to_spec(s: &Shape, max: usize, kinds: &dyn Fn(usize, usize) -> Vec<&'static str>) -> RNode {
    fn go(s: &Shape, budget: &mut usize, depth: usize, kinds: &dyn Fn(usize, usize) -> Vec<&'static str>) -> RNode {
        *budget -= 1;
        let mut kids = vec![];
        for c in s.kids.iter() {
            if *budget == 0 {
                break;
            }
            kids.push(go(c, budget, depth + 1, kinds));
        }
        let ks = kinds(kids.len(), depth);
        let kind = ks[pick_index((s.k as u16) << 8, ks.len())];
        RNode::new(kind, 0, kids)
    }
    let mut budget = max.max(1);
    let mut r = go(s, &mut budget, 0, kinds);
    let mut next = 0;
    r.number(&mut next);
    r
}

pub struct C42a;

fn run_flavor(flavor: u8, spec: &RNode, api: Api, dec: &[Dec], structure: bool) -> Verdict {
    match flavor {
        0 => check_case::<H>(spec, api, dec, structure),
        1 => check_case::<C>(spec, api, dec, structure),
        _ => check_case::<D>(spec, api, dec, structure),
    }
}

pub fn spec_for(flavor: u8, tree: &Shape) -> RNode {
    match flavor {
        0 => shape_to_spec(tree, MAX_NODES, &|k, _| h_kinds(k)),
        1 => shape_to_spec(tree, MAX_NODES, &|_, _| vec!["C"]),
        _ => shape_to_spec(tree, MAX_NODES, &|_, _| vec!["D"]),
    }
}

pub fn to_result(v: Verdict, nt: bool, extra_labels: Vec<String>) -> CaseResult {
    match v {
        Verdict::Pass(info) => {
            let calls = match info.calls {
                0 => "calls=0",
                1..=3 => "calls=1-3",
                4..=9 => "calls=4-9",
                _ => "calls=10+",
            };
            CaseResult::pass().nontrivial(nt).labels(info.labels).labels(extra_labels).label(calls)
        }
        Verdict::Violation(m) => CaseResult::violation(m).nontrivial(nt).labels(extra_labels),
        Verdict::Unbuildable(m) => CaseResult::discard(m),
    }
}

impl Property for C42a {
    type Case = Case;
    fn id(&self) -> &'static str {
        "C42"
    }
    fn sub(&self) -> &'static str {
        "c42a"
    }
    fn strategy(&self, tier: Tier) -> BoxedStrategy<Case> {
        let shape = shape_strategy(tier.pick(4, 5), tier.pick(12, 15), 5);
        (prop_oneof![3 => Just(0u8), 1 => Just(1u8), 1 => Just(2u8)], api_strategy(), shape, dec_strategy(16)).prop_map(|(flavor, api, tree, dec)| Case { flavor, api, tree, dec }).boxed()
    }
    fn budget(&self, tier: Tier) -> Budget {
        Budget::new(tier.pick(60_000, 5_000_000), tier.pick(8, 16)).min_nontrivial(tier.pick(5_000, 200_000))
    }
    fn rule(&self) -> String {
        "random ordered tree (<= 15 nodes) realised in one of three harness TreeNode flavors (container enum / ConcreteTreeNode / Arc<DynTreeNode>), one TreeNode API, \
         a Continue|Jump|Stop + none|report|relabel|leaf|fresh-subtree|wrap decision per node and phase; non-trivial = some non-leaf non-root node has a Jump/Stop decision in a phase \
         the API uses (one-level APIs: on a child that is not the last) and, for transforming APIs, at least one replacement decision; distinct by case JSON. \
         extra: exhaustive enumeration of all decision vectors on all ordered trees with few nodes"
            .into()
    }
    fn assumptions(&self) -> Vec<String> {
        vec![
            "a walk that ends while an f_up Jump is still bypassing ancestors reports Jump as its final status (the only reading of 'how the recursion ended' consistent with the rustdoc)".into(),
            "callbacks always report a node they changed (unreported changes are documented to be dropped by DynTreeNode::map_children)".into(),
            "child order of hash-map containers is taken from the node's own apply_children".into(),
        ]
    }
    fn known_signature(&self, case: &Case) -> Option<String> {
        std::panic::catch_unwind(std::panic::AssertUnwindSafe(|| crate::c42known::signature_a(case))).ok().flatten()
    }
    fn run(&self, case: &Case) -> CaseResult {
        let spec = spec_for(case.flavor, &case.tree);
        let nt = nontrivial(&spec, case.api, &case.dec);
        let mut labels = vec![format!("flavor={}", ["containers", "concrete", "dyn"][case.flavor.min(2) as usize]), format!("nodes={}", bucket(spec.count()))];
        if case.flavor == 0 {
            let mut kinds = std::collections::BTreeSet::new();
            spec.for_each(&mut |n, _| {
                kinds.insert(n.kind);
            });
            labels.extend(kinds.into_iter().map(|k| format!("kind={k}")));
        }
        to_result(run_flavor(case.flavor, &spec, case.api, &case.dec, true), nt, labels)
    }
    fn extra(&self, tier: Tier, _seed: u64) -> Result<serde_json::Value, (String, Case)> {
        exhaustive(tier)
    }
}

pub fn bucket(n: usize) -> &'static str {
    match n {
        0..=1 => "1",
        2..=3 => "2-3",
        4..=7 => "4-7",
        _ => "8-15",
    }
}

// ---------------------------------------------------------------------------------------------
// exhaustive sub-run

/// all ordered rooted trees with exactly n nodes
pub fn all_shapes(n: usize) -> Vec<Shape> {
    // forests(m) = all ordered forests with m nodes
    fn forests(m: usize, memo: &mut HashMap<usize, Vec<Vec<Shape>>>) -> Vec<Vec<Shape>> {
        if m == 0 {
            return vec![vec![]];
        }
        if let Some(v) = memo.get(&m) {
            return v.clone();
        }
        let mut out = vec![];
        // first tree has t nodes (1..=m), the rest is a forest with m - t
        for t in 1..=m {
            let firsts: Vec<Shape> = forests(t - 1, memo).into_iter().map(|kids| Shape { k: 0, kids }).collect();
            let rests = forests(m - t, memo);
            for f in &firsts {
                for r in &rests {
                    let mut v = vec![f.clone()];
                    v.extend(r.iter().cloned());
                    out.push(v);
                }
            }
        }
        memo.insert(m, out.clone());
        out
    }
    let mut memo = HashMap::new();
    forests(n - 1, &mut memo).into_iter().map(|kids| Shape { k: 0, kids }).collect()
}

fn set_kind_selectors(s: &mut Shape, salt: &mut u32) {
    // deterministic spread over the container kinds
    *salt = salt.wrapping_mul(1_103_515_245).wrapping_add(12_345);
    s.k = (*salt >> 16) as u8;
    for k in &mut s.kids {
        set_kind_selectors(k, salt);
    }
}

const RECS: [Rec; 3] = [Rec::C, Rec::J, Rec::S];

/// Enumerates, for one tree, all decision vectors of `api`; `chg` is the replacement every call makes.
fn enumerate_vectors(flavor: u8, shape: &Shape, api: Api, chg: Chg, runs: &mut u64) -> Result<(), (String, Case)> {
    let spec = spec_for(flavor, shape);
    let n = spec.count();
    let two = api.has_down() && api.has_up();
    let base: u64 = if api == Api::Exists {
        2
    } else if two {
        9
    } else {
        3
    };
    let total = base.pow(n as u32);
    let mut dec = vec![Dec { down: CONT, up: CONT }; n];
    for v in 0..total {
        let mut x = v;
        for d in dec.iter_mut() {
            let digit = (x % base) as usize;
            x /= base;
            let (a, b) = if api == Api::Exists {
                (if digit == 0 { Rec::C } else { Rec::S }, Rec::C)
            } else if two {
                (RECS[digit % 3], RECS[digit / 3])
            } else if api.has_down() {
                (RECS[digit], Rec::C)
            } else {
                (Rec::C, RECS[digit])
            };
            *d = Dec { down: Step { rec: a, chg }, up: Step { rec: b, chg } };
        }
        *runs += 1;
        match run_flavor(flavor, &spec, api, &dec, v == 0) {
            Verdict::Pass(_) => {}
            Verdict::Violation(m) => {
                let case = Case { flavor, api, tree: shape.clone(), dec: dec.clone() };
                if crate::c42known::signature_a(&case).map(|s| crate::c42known::is_open("C42", &s)).unwrap_or(false) {
                    continue;
                }
                return Err((format!("exhaustive sub-run: {m}"), case));
            }
            Verdict::Unbuildable(m) => return Err((format!("exhaustive sub-run: unbuildable: {m}"), Case { flavor, api, tree: shape.clone(), dec: dec.clone() })),
        }
    }
    Ok(())
}

fn exhaustive(tier: Tier) -> Result<serde_json::Value, (String, Case)> {
    let single_max = tier.pick(6, 7);
    let double_max = tier.pick(4, 5);
    let single = [Api::Apply, Api::Exists, Api::TransformDown, Api::TransformUp, Api::MapChildren];
    let double = [Api::Visit, Api::TransformDownUp, Api::Rewrite];
    // work items: (flavor, shape, api, chg)
    let mut items: Vec<(u8, Shape, Api, Chg)> = vec![];
    let mut trees = 0u64;
    for flavor in 0..3u8 {
        let mut salt = 0x1234_5678u32 + flavor as u32;
        for n in 1..=single_max {
            for mut s in all_shapes(n) {
                if flavor == 0 {
                    set_kind_selectors(&mut s, &mut salt);
                }
                trees += 1;
                for api in single {
                    items.push((flavor, s.clone(), api, Chg::Relabel));
                }
                if n <= double_max {
                    for api in double {
                        items.push((flavor, s.clone(), api, Chg::Relabel));
                    }
                }
            }
        }
    }
    let threads = tier.pick(8, 16);
    let chunk = items.len().div_ceil(threads);
    let results: Vec<Result<u64, (String, Case)>> = std::thread::scope(|sc| {
        let hs: Vec<_> = items
            .chunks(chunk.max(1))
            .map(|part| {
                sc.spawn(move || {
                    let mut runs = 0u64;
                    for (flavor, shape, api, chg) in part {
                        enumerate_vectors(*flavor, shape, *api, *chg, &mut runs)?;
                    }
                    Ok(runs)
                })
            })
            .collect();
        hs.into_iter().map(|h| h.join().unwrap_or_else(|_| Err(("exhaustive sub-run panicked".into(), Case { flavor: 0, api: Api::Apply, tree: Shape { k: 0, kids: vec![] }, dec: vec![] })))).collect()
    });
    let mut runs = 0;
    for r in results {
        runs += r?;
    }
    Ok(json!({
        "exhaustive_small_trees": {
            "exhaustive": true,
            "what": format!("all ordered trees with <= {single_max} nodes x all 3^n Continue/Jump/Stop vectors (2^n for exists) for apply, exists, transform_down, transform_up, map_children; \
                             all trees with <= {double_max} nodes x all 9^n (f_down, f_up) vectors for visit, transform_down_up, rewrite; every call relabels its node; three flavors"),
            "trees": trees,
            "runs": runs,
        }
    }))
}
