//! Known-finding signatures of C42 (see /verif/known_findings.json).
//!
//! `trailing-empty-container`: tuple containers (`(C0, C1, ..)`, `Vec<C>` of containers) take the
//! status of the LAST container even when that container is empty, so a `Jump` returned by `f_up`
//! (or by the closure of the one-level APIs) for the last child of a node is forgotten whenever
//! the node's layout ends with an empty container (`CASE` without `ELSE`, aggregate without
//! `ORDER BY`, window function without `FILTER`, `IN ()`, …): the parent's `f_up` is invoked
//! although the contract says it is bypassed. A case carries this signature iff the reference
//! interpreter gives a different outcome with and without that behaviour modelled.
use crate::c42a;
use crate::c42b;
use crate::c42ref::*;

/// true when known_findings.json has an open entry with this signature
pub fn is_open(property: &str, sig: &str) -> bool {
    let path = vf_kit::engine::verif_root().join("known_findings.json");
    let Ok(text) = std::fs::read_to_string(path) else { return false };
    let Ok(v) = serde_json::from_str::<serde_json::Value>(&text) else { return false };
    v.get("findings")
        .and_then(|f| f.as_array())
        .map(|a| {
            a.iter().any(|e| {
                e.get("property").and_then(|x| x.as_str()) == Some(property)
                    && e.get("status").and_then(|x| x.as_str()) == Some("open")
                    && e.get("signature").and_then(|x| x.as_str()) == Some(sig)
            })
        })
        .unwrap_or(false)
}

pub const TRAILING: &str = "trailing-empty-container";

fn differs<F: Family>(spec: &RNode, api: Api, dec: &[Dec]) -> bool {
    let a = reference_mode::<F>(spec, api, dec, false);
    let b = reference_mode::<F>(spec, api, dec, true);
    a.rec != b.rec || a.transformed != b.transformed || a.tree != b.tree || a.calls.len() != b.calls.len() || a.calls.iter().zip(b.calls.iter()).any(|(x, y)| x.phase != y.phase || x.seen != y.seen)
}

pub fn signature_a(case: &c42a::Case) -> Option<String> {
    if case.flavor != 0 {
        return None;
    }
    let spec = c42a::spec_for(case.flavor, &case.tree);
    if differs::<c42a::H>(&spec, case.api, &case.dec) { Some(TRAILING.into()) } else { None }
}

pub fn signature_b(case: &c42b::Case) -> Option<String> {
    let spec = c42b::spec_for(case.family, &case.tree);
    let api = c42b::effective_api(case.family, case.api);
    let d = match case.family {
        c42b::Fam::Expr => differs::<c42b::E>(&spec, api, &case.dec),
        _ => false,
    };
    if d { Some(TRAILING.into()) } else { None }
}
