//! Known-finding signatures of C42 (see /verif/known_findings.json).
//!
//! `trailing-empty-container`: tuple containers (`(C0, C1, ..)`, `Vec<C>` of containers) take the
//! status of the LAST container even when that container is empty, so a `Jump` returned by `f_up`
//! (or by the closure of the one-level APIs) for the last child of a node is forgotten whenever
//! the node's layout ends with an empty container (`CASE` without `ELSE`, aggregate without
//! `ORDER BY`, window function without `FILTER`, `IN ()`, …): the parent's `f_up` is invoked
//! although the contract says it is bypassed. A case carries this signature iff the reference
//! interpreter gives a different outcome with and without that behaviour modelled.
//!
//! `subquery-jump-absorbed`: in the `*_with_subqueries` traversals a Jump that leaves a subquery
//! is returned into the `Expr::apply` / `Expr::transform_down` walk over the expression holding
//! the subquery. That walk consumes it (so the plan node's `f_up` runs although the subquery was
//! its last child) and skips the operands of that expression — a subquery nested in the operand
//! of `x IN (subquery)` is then never visited.
use crate::c42a;
use crate::c42b;
use crate::c42ref::*;

/// true when known_findings.json has an open entry with this signature. The file is shared and
/// rewritten by other people while runs are in progress: it is read ONCE per process (with a few
/// retries should a read hit a half-written file).
pub fn is_open(property: &str, sig: &str) -> bool {
    static OPEN: std::sync::OnceLock<std::collections::HashSet<(String, String)>> = std::sync::OnceLock::new();
    let set = OPEN.get_or_init(|| {
        let path = vf_kit::engine::verif_root().join("known_findings.json");
        for _ in 0..20 {
            if let Some(v) = std::fs::read_to_string(&path).ok().and_then(|t| serde_json::from_str::<serde_json::Value>(&t).ok()) {
                return v
                    .get("findings")
                    .and_then(|f| f.as_array())
                    .map(|a| {
                        a.iter()
                            .filter(|e| e.get("status").and_then(|x| x.as_str()) == Some("open"))
                            .filter_map(|e| Some((e.get("property")?.as_str()?.to_string(), e.get("signature")?.as_str()?.to_string())))
                            .collect()
                    })
                    .unwrap_or_default();
            }
            std::thread::sleep(std::time::Duration::from_millis(100));
        }
        Default::default()
    });
    set.contains(&(property.to_string(), sig.to_string()))
}

pub const TRAILING: &str = "trailing-empty-container";

pub const ABSORB: &str = "subquery-jump-absorbed";

fn differs<F: Family>(spec: &RNode, api: Api, dec: &[Dec], dev: u8) -> bool {
    let a = reference_mode::<F>(spec, api, dec, 0);
    let b = reference_mode::<F>(spec, api, dec, dev);
    a.rec != b.rec || a.transformed != b.transformed || a.tree != b.tree || a.calls.len() != b.calls.len() || a.calls.iter().zip(b.calls.iter()).any(|(x, y)| x.phase != y.phase || x.seen != y.seen)
}

pub fn signature_a(case: &c42a::Case) -> Option<String> {
    if case.flavor != 0 {
        return None;
    }
    let spec = c42a::spec_for(case.flavor, &case.tree);
    // The traversal order of a hash-map node differs per map instance, so for trees with such a
    // node (2+ entries) the exact test below cannot be evaluated ahead of the run: be conservative
    // there (some node with a trailing-empty layout and some Jump decision in a relevant phase).
    let mut multi_map = false;
    let mut trailing = false;
    spec.for_each(&mut |n, _| {
        multi_map |= n.kind == "M" && n.kids.len() >= 2;
        trailing |= !n.kids.is_empty() && <c42a::H as Family>::trailing_empty(n.kind, n.kids.len());
    });
    if multi_map {
        let jump = case.dec.iter().any(|d| if case.api.one_level() { d.down.rec == Rec::J } else { d.up.rec == Rec::J });
        let phase = case.api.has_up() || case.api.one_level();
        return if trailing && jump && phase { Some(TRAILING.into()) } else { None };
    }
    if differs::<c42a::H>(&spec, case.api, &case.dec, DEV_TRAILING) { Some(TRAILING.into()) } else { None }
}

pub fn signature_b(case: &c42b::Case) -> Option<String> {
    let spec = c42b::spec_for(case.family, &case.tree);
    let api = c42b::effective_api(case.family, case.api);
    match case.family {
        c42b::Fam::Expr if differs::<c42b::E>(&spec, api, &case.dec, DEV_TRAILING) => Some(TRAILING.into()),
        c42b::Fam::LogicalSubq if differs::<c42b::LW>(&spec, api, &case.dec, DEV_ABSORB) => Some(ABSORB.into()),
        _ => None,
    }
}
