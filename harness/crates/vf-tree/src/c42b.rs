//! C42 (part b) — the recursion contract on the REAL trees: `Expr`, `LogicalPlan` (plain and the
//! `*_with_subqueries` family), `Arc<dyn PhysicalExpr>`, `Arc<dyn ExecutionPlan>`.
//!
//! Trees are built by small generators of this module from an abstract spec (`c42ref::RNode`):
//! every leaf carries a unique marker (`lit(id*10+label)`, names `m<id>_<label>`), inner nodes carry
//! one where the variant has a non-child attribute to hold it. The oracle is `c42ref`: the abstract
//! tree is first ALIGNED with the real one through the node's own one-level child list
//! (`apply_children`; for the subquery family `apply_subqueries` then `apply_children`) — which
//! checks completeness (every generated marker is reachable, nothing else is) —, `apply_children`
//! must agree with `map_children` (identity closure), then the real API runs in lock step with the
//! reference interpreter. Compared: exact call sequence incl. the node each callback sees, final
//! status, `transformed`, resulting tree (rendering AND `==` against the tree built directly from
//! the reference's final abstract tree, so lost non-child attributes are seen too).
//!
//! Deviations from DESIGN.md: own generators (no dependency on the C04/C01 ones); ≤ ~18 nodes;
//! nodes in subquery position only get none/report/relabel decisions (`map_subqueries` documents —
//! by an internal error — that the callback must return a `Subquery` node); physical trees only get
//! schema-compatible replacements (an `Err` from `with_new_children` would be the generator's fault);
//! the one-level APIs and `exists` have no subquery variant (mapped to the recursive ones there).
//!
//! Sensitivity probes: see the c42a.rs header (shared list: both are detected by c42b, the BETWEEN
//! one only by c42b). Findings: see c42a.rs / c42known.rs.
use crate::c42a::{Shape, api_strategy, bucket, dec_strategy, shape_strategy, shape_to_spec, to_result};
use crate::c42ref::*;
use datafusion::arrow::datatypes::{DataType, Field, Schema};
use datafusion::common::tree_node::{Transformed, TreeNode, TreeNodeRecursion};
use datafusion::common::{Column, DFSchema, Result as DFResult, ScalarValue, Spans, TableReference};
use datafusion::logical_expr::expr::{
    AggregateFunction, Alias, Between, BinaryExpr, Case as CaseWhen, Cast, Exists, GroupingSet, HigherOrderFunction, InList, InSubquery, Lambda, LambdaVariable, Like, Placeholder, ScalarFunction,
    SetComparison, SetQuantifier, Sort as SortExpr, TryCast, Unnest as UnnestExpr, WindowFunction, WindowFunctionDefinition, WindowFunctionParams,
};
use datafusion::logical_expr::logical_plan::builder::LogicalTableSource;
use datafusion::logical_expr::{
    Aggregate, ColumnarValue, CreateMemoryTable, CreateView, DdlStatement, Distinct, EmptyRelation, Expr, Extension, Filter, Join, JoinConstraint, JoinType, Limit, LogicalPlan, Operator,
    Partitioning as LPartitioning, Prepare, Projection, RecursiveQuery, Repartition, ScalarFunctionArgs, ScalarUDF, ScalarUDFImpl, Signature, Sort, Statement, Subquery, SubqueryAlias, TableScan,
    Union, UserDefinedLogicalNodeCore, Values, Volatility, Window, WindowFrame, lit,
};
use datafusion::physical_expr::PhysicalExpr;
use datafusion::physical_expr::expressions as pe;
use datafusion::physical_plan::ExecutionPlan;
use proptest::prelude::*;
use serde::{Deserialize, Serialize};
use std::sync::Arc;
use vf_kit::engine::*;

// ---------------------------------------------------------------------------------------------
// markers

fn mval(id: u32, label: u32) -> i64 {
    id as i64 * 10 + (label % 10) as i64
}
fn mlit(id: u32, label: u32) -> Expr {
    lit(mval(id, label))
}
fn mname(id: u32, label: u32) -> String {
    format!("m{id}_{label}")
}
fn parse_name(s: &str) -> Option<(u32, u32)> {
    let s = s.trim_start_matches(['$', '@']);
    let s = s.strip_prefix('m')?;
    let (a, b) = s.split_once('_')?;
    Some((a.parse().ok()?, b.parse().ok()?))
}
fn parse_lit(e: &Expr) -> Option<(u32, u32)> {
    match e {
        Expr::Literal(ScalarValue::Int64(Some(v)), _) if *v >= 0 => Some(((*v / 10) as u32, (*v % 10) as u32)),
        _ => None,
    }
}
fn fmt_tag(kind: &str, m: Option<(u32, u32)>, id: bool, label: bool) -> String {
    let mut s = kind.to_string();
    match m {
        Some((i, l)) => {
            if id {
                s.push_str(&format!("#{i}"));
            }
            if label {
                s.push_str(&format!(".{l}"));
            }
        }
        None => s.push_str("#?"),
    }
    s
}
fn int_field() -> Arc<Field> {
    Arc::new(Field::new("f", DataType::Int64, true))
}
fn trivial_subquery(id: u32, label: u32) -> Subquery {
    Subquery { subquery: Arc::new(LogicalPlan::default()), outer_ref_columns: vec![mlit(id, label)], spans: Spans::new() }
}
fn bad<T>(kind: &str, k: usize) -> Result<T, String> {
    Err(format!("kind {kind} cannot hold {k} children"))
}

// ---------------------------------------------------------------------------------------------
// marker scalar UDF

#[derive(Debug, PartialEq, Eq, Hash)]
struct MarkerUdf {
    name: String,
    signature: Signature,
}
impl ScalarUDFImpl for MarkerUdf {
    fn name(&self) -> &str {
        &self.name
    }
    fn signature(&self) -> &Signature {
        &self.signature
    }
    fn return_type(&self, _arg_types: &[DataType]) -> DFResult<DataType> {
        Ok(DataType::Int64)
    }
    fn invoke_with_args(&self, _args: ScalarFunctionArgs) -> DFResult<ColumnarValue> {
        Ok(ColumnarValue::Scalar(ScalarValue::Int64(None)))
    }
}
fn marker_udf(id: u32, label: u32) -> Arc<ScalarUDF> {
    Arc::new(ScalarUDF::new_from_impl(MarkerUdf { name: mname(id, label), signature: Signature::variadic_any(Volatility::Immutable) }))
}

// ---------------------------------------------------------------------------------------------
// Expr

const OPS: [Operator; 4] = [Operator::Plus, Operator::Minus, Operator::Multiply, Operator::Divide];
const CMP: [Operator; 4] = [Operator::Eq, Operator::Lt, Operator::Gt, Operator::NotEq];
fn cast_types() -> [DataType; 4] {
    [DataType::Int64, DataType::Utf8, DataType::Float64, DataType::Boolean]
}
fn pos<T: PartialEq>(xs: &[T], x: &T) -> u32 {
    xs.iter().position(|y| y == x).unwrap_or(9) as u32
}
fn aggs() -> Vec<Arc<datafusion::logical_expr::AggregateUDF>> {
    vec![
        datafusion::functions_aggregate::count::count_udaf(),
        datafusion::functions_aggregate::sum::sum_udaf(),
        datafusion::functions_aggregate::min_max::min_udaf(),
        datafusion::functions_aggregate::min_max::max_udaf(),
    ]
}

/// (kind, id?, label?) table of the expression kinds
fn e_meta(kind: &str) -> (bool, bool) {
    match kind {
        "Lit" | "Col" | "Ph" | "SVar" | "ORef" | "LVar" | "Ex" | "SSq" | "Alias" | "Lambda" | "Fn" => (true, true),
        "Is" | "Cast" | "TryCast" | "Bin" | "Like" | "Similar" | "SetCmp" | "Agg" | "AggF" | "AggO" | "AggFO" | "Win" => (false, true),
        _ => (false, false),
    }
}

pub fn e_kinds(k: usize) -> Vec<&'static str> {
    match k {
        0 => vec!["Lit", "Lit", "Lit", "Col", "Ph", "SVar", "ORef", "LVar", "Ex", "SSq", "Fn", "Rollup", "GSetsE"],
        1 => vec!["Alias", "Not", "Neg", "Is", "Cast", "TryCast", "Unnest", "InSq", "SetCmp", "Lambda", "Fn", "HOF", "Agg", "Win", "InList", "Rollup", "Cube", "GSets", "GSetsE"],
        2 => vec!["Bin", "Bin", "Like", "Similar", "Case", "InList", "Fn", "HOF", "Agg", "AggF", "AggO", "Win", "Cube", "GSets", "GSetsE"],
        3 => vec!["Between", "Between", "CaseE", "CaseB", "InList", "Fn", "HOF", "Agg", "AggF", "AggO", "AggFO", "Win", "Rollup", "GSets", "GSetsE"],
        _ => {
            let mut v = vec!["InList", "Fn", "HOF", "Agg", "AggF", "AggO", "AggFO", "Win", "Rollup", "Cube", "GSets", "GSetsE"];
            if k % 2 == 0 {
                v.extend(["Case", "CaseBE", "Case", "CaseBE"]);
            } else {
                v.extend(["CaseE", "CaseB", "CaseE", "CaseB"]);
            }
            v
        }
    }
}

fn e_trailing_empty(kind: &str, k: usize) -> bool {
    match kind {
        // (expr, when_then, else): no else
        "Case" | "CaseB" => true,
        // (args, filter, order_by): the last container is empty
        "Agg" | "AggF" => true,
        // (args, partition_by, order_by, filter): no filter
        "Win" => k < 4,
        // (expr, list): empty list
        "InList" => k == 1,
        "GSetsE" => k >= 1,
        _ => false,
    }
}

fn bxe(e: Expr) -> Box<Expr> {
    Box::new(e)
}
fn sort_of(e: Expr) -> SortExpr {
    SortExpr::new(e, true, false)
}

fn e_build(s: &RNode) -> Result<Expr, String> {
    let mut kids: Vec<Expr> = s.kids.iter().map(e_build).collect::<Result<_, _>>()?;
    e_make(s.kind, s.id, s.label, &mut kids)
}

/// builds one node of `kind` around already built children (drained from `kids`)
fn e_make(kind: &str, id: u32, label: u32, kids: &mut Vec<Expr>) -> Result<Expr, String> {
    let k = kids.len();
    let l = label as usize;
    let need = |ok: bool| if ok { Ok(()) } else { bad::<()>(kind, k) };
    let mut it = std::mem::take(kids).into_iter();
    let mut one = || bxe(it.next().unwrap());
    Ok(match kind {
        "Lit" => {
            need(k == 0)?;
            mlit(id, label)
        }
        "Col" => {
            need(k == 0)?;
            Expr::Column(Column::from_name(mname(id, label)))
        }
        "Ph" => {
            need(k == 0)?;
            Expr::Placeholder(Placeholder::new_with_field(format!("${}", mname(id, label)), None))
        }
        "SVar" => {
            need(k == 0)?;
            Expr::ScalarVariable(int_field(), vec![format!("@{}", mname(id, label))])
        }
        "ORef" => {
            need(k == 0)?;
            Expr::OuterReferenceColumn(int_field(), Column::from_name(mname(id, label)))
        }
        "LVar" => {
            need(k == 0)?;
            Expr::LambdaVariable(LambdaVariable::new(mname(id, label), None))
        }
        "Ex" => {
            need(k == 0)?;
            Expr::Exists(Exists { subquery: trivial_subquery(id, label), negated: false })
        }
        "SSq" => {
            need(k == 0)?;
            Expr::ScalarSubquery(trivial_subquery(id, label))
        }
        "Alias" => {
            need(k == 1)?;
            Expr::Alias(Alias::new(*one(), None::<TableReference>, mname(id, label)))
        }
        "Not" => {
            need(k == 1)?;
            Expr::Not(one())
        }
        "Neg" => {
            need(k == 1)?;
            Expr::Negative(one())
        }
        "Is" => {
            need(k == 1)?;
            let e = one();
            match l % 8 {
                0 => Expr::IsNull(e),
                1 => Expr::IsNotNull(e),
                2 => Expr::IsTrue(e),
                3 => Expr::IsFalse(e),
                4 => Expr::IsUnknown(e),
                5 => Expr::IsNotTrue(e),
                6 => Expr::IsNotFalse(e),
                _ => Expr::IsNotUnknown(e),
            }
        }
        "Cast" => {
            need(k == 1)?;
            Expr::Cast(Cast::new(one(), cast_types()[l % 4].clone()))
        }
        "TryCast" => {
            need(k == 1)?;
            Expr::TryCast(TryCast::new(one(), cast_types()[l % 4].clone()))
        }
        "Unnest" => {
            need(k == 1)?;
            Expr::Unnest(UnnestExpr::new(*one()))
        }
        "InSq" => {
            need(k == 1)?;
            Expr::InSubquery(InSubquery::new(one(), trivial_subquery(0, 0), false))
        }
        "SetCmp" => {
            need(k == 1)?;
            Expr::SetComparison(SetComparison::new(one(), trivial_subquery(0, 0), CMP[l % 4], SetQuantifier::Any))
        }
        "Lambda" => {
            need(k == 1)?;
            Expr::Lambda(Lambda::new(vec![mname(id, label)], *one()))
        }
        "Bin" => {
            need(k == 2)?;
            let (a, b) = (one(), one());
            Expr::BinaryExpr(BinaryExpr::new(a, OPS[l % 4], b))
        }
        "Like" | "Similar" => {
            need(k == 2)?;
            let (a, b) = (one(), one());
            let like = Like::new(false, a, b, Some((b'a' + (l % 8) as u8) as char), false);
            if kind == "Like" { Expr::Like(like) } else { Expr::SimilarTo(like) }
        }
        "Between" => {
            need(k == 3)?;
            let (a, b, c) = (one(), one(), one());
            Expr::Between(Between::new(a, false, b, c))
        }
        "Case" | "CaseE" | "CaseB" | "CaseBE" => {
            let base = kind == "CaseB" || kind == "CaseBE";
            let els = kind == "CaseE" || kind == "CaseBE";
            let fixed = base as usize + els as usize;
            need(k >= fixed + 2 && (k - fixed) % 2 == 0)?;
            let b = if base { Some(one()) } else { None };
            let mut wt = vec![];
            for _ in 0..(k - fixed) / 2 {
                let w = one();
                let t = one();
                wt.push((w, t));
            }
            let e = if els { Some(one()) } else { None };
            Expr::Case(CaseWhen::new(b, wt, e))
        }
        "InList" => {
            need(k >= 1)?;
            let e = one();
            Expr::InList(InList::new(e, it.by_ref().collect(), false))
        }
        "Fn" => Expr::ScalarFunction(ScalarFunction::new_udf(marker_udf(id, label), it.by_ref().collect())),
        "HOF" => {
            need(k >= 1)?;
            let fs = datafusion::functions_nested::all_default_higher_order_functions();
            let Some(f) = fs.first() else { return Err("no higher order function available".into()) };
            Expr::HigherOrderFunction(HigherOrderFunction::new(Arc::clone(f), it.by_ref().collect()))
        }
        "Agg" | "AggF" | "AggO" | "AggFO" => {
            let f = kind == "AggF" || kind == "AggFO";
            let o = kind == "AggO" || kind == "AggFO";
            let fixed = f as usize + o as usize;
            need(k >= fixed + 1)?;
            let args: Vec<Expr> = it.by_ref().take(k - fixed).collect();
            let filter = if f { Some(bxe(it.next().unwrap())) } else { None };
            let order = if o { vec![sort_of(it.next().unwrap())] } else { vec![] };
            Expr::AggregateFunction(AggregateFunction::new_udf(aggs()[l % 4].clone(), args, false, filter, order, None))
        }
        "Win" => {
            need(k >= 1)?;
            // args, then (k>=2) one partition key, (k>=3) one order key, (k>=4) the filter
            let nargs = if k > 3 { k - 3 } else { 1 };
            let args: Vec<Expr> = it.by_ref().take(nargs).collect();
            let part: Vec<Expr> = it.by_ref().take(1).collect();
            let order: Vec<SortExpr> = it.by_ref().take(1).map(sort_of).collect();
            let filter = it.next().map(bxe);
            Expr::from(WindowFunction {
                fun: WindowFunctionDefinition::AggregateUDF(aggs()[l % 4].clone()),
                params: WindowFunctionParams { args, partition_by: part, order_by: order, window_frame: WindowFrame::new(None), filter, null_treatment: None, distinct: false },
            })
        }
        "Rollup" => Expr::GroupingSet(GroupingSet::Rollup(it.by_ref().collect())),
        "Cube" => Expr::GroupingSet(GroupingSet::Cube(it.by_ref().collect())),
        "GSets" | "GSetsE" => {
            let all: Vec<Expr> = it.by_ref().collect();
            let mut sets: Vec<Vec<Expr>> = all.chunks(2).map(|c| c.to_vec()).collect();
            if kind == "GSetsE" {
                sets.push(vec![]);
            }
            Expr::GroupingSet(GroupingSet::GroupingSets(sets))
        }
        other => return Err(format!("unknown Expr kind {other}")),
    })
}

fn e_tag(e: &Expr) -> String {
    let t = |kind: &str, m: Option<(u32, u32)>| {
        let (i, l) = e_meta(kind);
        if !i && !l { kind.to_string() } else { fmt_tag(kind, m, i, l) }
    };
    let lab = |l: u32| Some((0u32, l));
    match e {
        Expr::Literal(..) => t("Lit", parse_lit(e)),
        Expr::Column(c) => t("Col", parse_name(&c.name)),
        Expr::Placeholder(p) => t("Ph", parse_name(&p.id)),
        Expr::ScalarVariable(_, names) => t("SVar", names.first().and_then(|n| parse_name(n))),
        Expr::OuterReferenceColumn(_, c) => t("ORef", parse_name(&c.name)),
        Expr::LambdaVariable(v) => t("LVar", parse_name(&v.name)),
        Expr::Exists(x) => t("Ex", x.subquery.outer_ref_columns.first().and_then(parse_lit)),
        Expr::ScalarSubquery(sq) => t("SSq", sq.outer_ref_columns.first().and_then(parse_lit)),
        Expr::Alias(a) => t("Alias", parse_name(&a.name)),
        Expr::Not(_) => "Not".into(),
        Expr::Negative(_) => "Neg".into(),
        Expr::IsNull(_) => t("Is", lab(0)),
        Expr::IsNotNull(_) => t("Is", lab(1)),
        Expr::IsTrue(_) => t("Is", lab(2)),
        Expr::IsFalse(_) => t("Is", lab(3)),
        Expr::IsUnknown(_) => t("Is", lab(4)),
        Expr::IsNotTrue(_) => t("Is", lab(5)),
        Expr::IsNotFalse(_) => t("Is", lab(6)),
        Expr::IsNotUnknown(_) => t("Is", lab(7)),
        Expr::Cast(c) => t("Cast", lab(pos(&cast_types(), c.field.data_type()))),
        Expr::TryCast(c) => t("TryCast", lab(pos(&cast_types(), c.field.data_type()))),
        Expr::Unnest(_) => "Unnest".into(),
        Expr::InSubquery(_) => "InSq".into(),
        Expr::SetComparison(c) => t("SetCmp", lab(pos(&CMP, &c.op))),
        Expr::Lambda(l) => t("Lambda", l.params.first().and_then(|n| parse_name(n))),
        Expr::BinaryExpr(b) => t("Bin", lab(pos(&OPS, &b.op))),
        Expr::Like(l) => t("Like", lab(l.escape_char.map(|c| c as u32 - 'a' as u32).unwrap_or(9))),
        Expr::SimilarTo(l) => t("Similar", lab(l.escape_char.map(|c| c as u32 - 'a' as u32).unwrap_or(9))),
        Expr::Between(_) => "Between".into(),
        Expr::Case(c) => match (c.expr.is_some(), c.else_expr.is_some()) {
            (false, false) => "Case".into(),
            (false, true) => "CaseE".into(),
            (true, false) => "CaseB".into(),
            (true, true) => "CaseBE".into(),
        },
        Expr::InList(_) => "InList".into(),
        Expr::ScalarFunction(f) => t("Fn", parse_name(f.func.name())),
        Expr::HigherOrderFunction(_) => "HOF".into(),
        Expr::AggregateFunction(a) => {
            let kind = match (a.params.filter.is_some(), !a.params.order_by.is_empty()) {
                (false, false) => "Agg",
                (true, false) => "AggF",
                (false, true) => "AggO",
                (true, true) => "AggFO",
            };
            let names: Vec<String> = aggs().iter().map(|f| f.name().to_string()).collect();
            t(kind, lab(pos(&names, &a.func.name().to_string())))
        }
        Expr::WindowFunction(w) => {
            let names: Vec<String> = aggs().iter().map(|f| f.name().to_string()).collect();
            t("Win", lab(pos(&names, &w.fun.name().to_string())))
        }
        Expr::GroupingSet(GroupingSet::Rollup(_)) => "Rollup".into(),
        Expr::GroupingSet(GroupingSet::Cube(_)) => "Cube".into(),
        Expr::GroupingSet(GroupingSet::GroupingSets(s)) => if s.last().map(|v| v.is_empty()).unwrap_or(false) { "GSetsE" } else { "GSets" }.into(),
        #[allow(deprecated)]
        Expr::Wildcard { .. } => "Wildcard".into(),
    }
}

fn kind_of_tag(tag: &str) -> &str {
    tag.split(['#', '.']).next().unwrap_or(tag)
}

fn collect_kids<N: TreeNode + Clone>(n: &N) -> DFResult<Vec<N>> {
    let mut v = vec![];
    n.apply_children(|c| {
        v.push(c.clone());
        Ok(TreeNodeRecursion::Continue)
    })?;
    Ok(v)
}

pub struct E;
impl Family for E {
    type Node = Expr;
    const NAME: &'static str = "Expr";
    const LEAF: &'static str = "Lit";
    const FRESH: &'static str = "Bin";
    const WRAP: &'static str = "Alias";
    fn carries_id(kind: &str) -> bool {
        e_meta(kind).0
    }
    fn carries_label(kind: &str) -> bool {
        e_meta(kind).1
    }
    fn trailing_empty(kind: &str, k: usize) -> bool {
        e_trailing_empty(kind, k)
    }
    fn build(spec: &RNode) -> Result<Expr, String> {
        e_build(spec)
    }
    fn tag(n: &Expr) -> String {
        e_tag(n)
    }
    fn kids(n: &Expr) -> DFResult<Vec<Expr>> {
        collect_kids(n)
    }
    fn relabel(n: Expr, label: u32) -> Expr {
        // same kind, same children (taken from the node itself), new own attribute
        let tag = e_tag(&n);
        let kind = kind_of_tag(&tag).to_string();
        let id = match tag.split_once('#') {
            Some((_, rest)) => rest.split('.').next().and_then(|x| x.parse().ok()).unwrap_or(0),
            None => 0,
        };
        let Ok(mut kids) = collect_kids(&n) else { return n };
        match e_make(&kind, id, label, &mut kids) {
            Ok(e) => e,
            Err(_) => n,
        }
    }
    fn wrap(n: Expr, id: u32) -> Result<Expr, String> {
        e_make("Alias", id, 0, &mut vec![n])
    }
    fn same(a: &Expr, b: &Expr) -> bool {
        a == b
    }
    fn call(api: Api, n: Expr, drv: &mut Driver<Self>) -> DFResult<Actual<Expr>> {
        treenode_call::<E>(api, n, drv)
    }
    fn consistency(n: &Expr) -> Result<(), String> {
        treenode_consistency::<E>(n)
    }
}

// ---------------------------------------------------------------------------------------------
// LogicalPlan

#[derive(Debug, PartialEq, Eq, Hash, PartialOrd)]
struct MarkerNode {
    marker: i64,
    inputs: Vec<LogicalPlan>,
}
impl UserDefinedLogicalNodeCore for MarkerNode {
    fn name(&self) -> &str {
        "MarkerNode"
    }
    fn inputs(&self) -> Vec<&LogicalPlan> {
        self.inputs.iter().collect()
    }
    fn schema(&self) -> &datafusion::common::DFSchemaRef {
        DFSchema::empty_ref()
    }
    fn expressions(&self) -> Vec<Expr> {
        vec![lit(self.marker)]
    }
    fn fmt_for_explain(&self, f: &mut std::fmt::Formatter) -> std::fmt::Result {
        write!(f, "MarkerNode {}", self.marker)
    }
    fn with_exprs_and_inputs(&self, exprs: Vec<Expr>, inputs: Vec<LogicalPlan>) -> DFResult<Self> {
        let marker = match exprs.first() {
            Some(Expr::Literal(ScalarValue::Int64(Some(v)), _)) => *v,
            _ => self.marker,
        };
        Ok(MarkerNode { marker, inputs })
    }
}

fn l_meta(kind: &str) -> (bool, bool) {
    match kind {
        "Distinct" | "Union" => (false, false),
        _ => (true, true),
    }
}

/// kinds without / with subquery-bearing variants
pub fn l_kinds(k: usize, ws: bool) -> Vec<&'static str> {
    let mut v: Vec<&'static str> = match k {
        // (EmptyRelation is not generated: its only attribute is the schema, and derived schemas of
        // parents are documented NOT to follow child rewrites — all generated nodes have empty or
        // expression-derived schemas so that a rebuilt tree compares equal)
        0 => vec!["Values", "Values", "Values", "Scan", "Ext"],
        1 => vec!["Filter", "Limit", "Sort", "Proj", "Alias", "Distinct", "Repart", "Sq", "Agg", "Window", "Prepare", "View", "MemTable", "Ext", "Union"],
        2 => vec!["Join", "Join", "Recursive", "Union", "Ext"],
        _ => vec!["Union", "Ext"],
    };
    if ws {
        match k {
            0 => {}
            1 => v.extend(["ValuesSq", "ScanSq", "ValuesSq", "ScanSq"]),
            2 => v.extend(["FilterSq", "FilterSq", "ValuesSq", "ScanSq", "FilterSq"]),
            3 => v.extend(["FilterSq", "FilterSqN", "JoinSq", "ValuesSq", "ScanSq", "FilterSqN", "JoinSq"]),
            _ => v.extend(["FilterSq", "JoinSq", "ValuesSq", "ScanSq", "FilterSq", "JoinSq"]),
        }
    }
    v
}

/// number of leading children of a node of `kind` that are subqueries of its expressions
fn l_nsub(kind: &str, k: usize) -> usize {
    match kind {
        "ValuesSq" | "ScanSq" => k,
        "FilterSq" | "FilterSqN" => k.saturating_sub(1),
        "JoinSq" => k.saturating_sub(2),
        _ => 0,
    }
}

fn arc(p: LogicalPlan) -> Arc<LogicalPlan> {
    Arc::new(p)
}
fn empty_schema() -> datafusion::common::DFSchemaRef {
    Arc::clone(DFSchema::empty_ref())
}
fn name_schema(name: &str) -> Result<datafusion::common::DFSchemaRef, String> {
    let s = Schema::new(vec![Field::new(name, DataType::Int64, true)]);
    DFSchema::try_from(s).map(Arc::new).map_err(|e| e.to_string())
}

/// the expression through which child `i` (a `LogicalPlan::Subquery` node) hangs off its parent
fn sub_expr(i: usize, p: LogicalPlan) -> Result<Expr, String> {
    let LogicalPlan::Subquery(sq) = p else { return Err("subquery child is not a Subquery node".into()) };
    Ok(match i % 4 {
        0 => Expr::Exists(Exists { subquery: sq, negated: false }),
        1 => Expr::InSubquery(InSubquery::new(bxe(lit(0i64)), sq, false)),
        2 => Expr::IsNull(bxe(Expr::ScalarSubquery(sq))),
        _ => Expr::SetComparison(SetComparison::new(bxe(lit(0i64)), sq, Operator::Eq, SetQuantifier::All)),
    })
}
fn and_all(first: Expr, rest: Vec<Expr>) -> Expr {
    rest.into_iter().fold(first, |a, b| Expr::BinaryExpr(BinaryExpr::new(bxe(a), Operator::And, bxe(b))))
}

fn l_build(s: &RNode) -> Result<LogicalPlan, String> {
    let mut kids: Vec<LogicalPlan> = s.kids.iter().map(l_build).collect::<Result<_, _>>()?;
    l_make(s.kind, s.id, s.label, &mut kids)
}

fn l_make(kind: &str, id: u32, label: u32, kids: &mut Vec<LogicalPlan>) -> Result<LogicalPlan, String> {
    let k = kids.len();
    let need = |ok: bool| if ok { Ok(()) } else { bad::<()>(kind, k) };
    let m = mlit(id, label);
    let name = mname(id, label);
    let mut it = std::mem::take(kids).into_iter();
    let es = |e: datafusion::common::DataFusionError| e.to_string();
    Ok(match kind {
        "Empty" => {
            need(k == 0)?;
            LogicalPlan::EmptyRelation(EmptyRelation { produce_one_row: false, schema: name_schema(&name)? })
        }
        "Values" => {
            need(k == 0)?;
            LogicalPlan::Values(Values { schema: empty_schema(), values: vec![vec![m]] })
        }
        "ValuesSq" => {
            need(k >= 1)?;
            let mut row = vec![m];
            for (i, p) in it.by_ref().enumerate() {
                row.push(sub_expr(i, p)?);
            }
            LogicalPlan::Values(Values { schema: empty_schema(), values: vec![row] })
        }
        "Scan" | "ScanSq" => {
            need((kind == "Scan") == (k == 0))?;
            let mut filters = vec![];
            for (i, p) in it.by_ref().enumerate() {
                filters.push(sub_expr(i, p)?);
            }
            LogicalPlan::TableScan(TableScan {
                table_name: TableReference::bare(name),
                source: Arc::new(LogicalTableSource::new(Arc::new(Schema::empty()))),
                projection: None,
                projected_schema: empty_schema(),
                filters,
                fetch: None,
                statistics_requests: Default::default(),
            })
        }
        "Filter" => {
            need(k == 1)?;
            LogicalPlan::Filter(Filter::new(Expr::IsNotNull(bxe(m)), arc(it.next().unwrap())))
        }
        "FilterSq" => {
            need(k >= 2)?;
            let mut subs = vec![];
            for (i, p) in it.by_ref().take(k - 1).enumerate() {
                subs.push(sub_expr(i, p)?);
            }
            LogicalPlan::Filter(Filter::new(and_all(Expr::IsNull(bxe(m)), subs), arc(it.next().unwrap())))
        }
        "FilterSqN" => {
            need(k == 3)?;
            // `(scalar subquery #1) IN (subquery #0)`: a subquery nested in the operand of another
            let (LogicalPlan::Subquery(s0), LogicalPlan::Subquery(s1)) = (it.next().unwrap(), it.next().unwrap()) else {
                return Err("subquery child is not a Subquery node".into());
            };
            let nested = Expr::InSubquery(InSubquery::new(bxe(Expr::ScalarSubquery(s1)), s0, false));
            LogicalPlan::Filter(Filter::new(and_all(Expr::IsTrue(bxe(m)), vec![nested]), arc(it.next().unwrap())))
        }
        "Limit" => {
            need(k == 1)?;
            LogicalPlan::Limit(Limit { skip: None, fetch: Some(bxe(m)), input: arc(it.next().unwrap()) })
        }
        "Sort" => {
            need(k == 1)?;
            LogicalPlan::Sort(Sort { expr: vec![sort_of(m)], input: arc(it.next().unwrap()), fetch: None })
        }
        "Proj" => {
            need(k == 1)?;
            LogicalPlan::Projection(Projection::try_new(vec![m.alias("p")], arc(it.next().unwrap())).map_err(es)?)
        }
        "Alias" => {
            need(k == 1)?;
            LogicalPlan::SubqueryAlias(SubqueryAlias::try_new(arc(it.next().unwrap()), name).map_err(es)?)
        }
        "Distinct" => {
            need(k == 1)?;
            LogicalPlan::Distinct(Distinct::All(arc(it.next().unwrap())))
        }
        "Repart" => {
            need(k == 1)?;
            LogicalPlan::Repartition(Repartition { input: arc(it.next().unwrap()), partitioning_scheme: LPartitioning::RoundRobinBatch(mval(id, label) as usize + 1) })
        }
        "Sq" => {
            need(k == 1)?;
            LogicalPlan::Subquery(Subquery { subquery: arc(it.next().unwrap()), outer_ref_columns: vec![m], spans: Spans::new() })
        }
        "Agg" => {
            need(k == 1)?;
            LogicalPlan::Aggregate(Aggregate::try_new(arc(it.next().unwrap()), vec![m], vec![]).map_err(es)?)
        }
        "Window" => {
            need(k == 1)?;
            LogicalPlan::Window(Window { input: arc(it.next().unwrap()), window_expr: vec![m], schema: empty_schema() })
        }
        "Prepare" => {
            need(k == 1)?;
            LogicalPlan::Statement(Statement::Prepare(Prepare { name, fields: vec![], input: arc(it.next().unwrap()) }))
        }
        "View" => {
            need(k == 1)?;
            LogicalPlan::Ddl(DdlStatement::CreateView(CreateView { name: TableReference::bare(name), input: arc(it.next().unwrap()), or_replace: false, definition: None, temporary: false }))
        }
        "MemTable" => {
            need(k == 1)?;
            LogicalPlan::Ddl(DdlStatement::CreateMemoryTable(CreateMemoryTable {
                name: TableReference::bare(name),
                constraints: Default::default(),
                input: arc(it.next().unwrap()),
                if_not_exists: false,
                or_replace: false,
                column_defaults: vec![],
                temporary: false,
            }))
        }
        "Ext" => LogicalPlan::Extension(Extension { node: Arc::new(MarkerNode { marker: mval(id, label), inputs: it.by_ref().collect() }) }),
        "Join" | "JoinSq" => {
            need(if kind == "Join" { k == 2 } else { k >= 3 })?;
            let mut subs = vec![];
            for (i, p) in it.by_ref().take(k - 2).enumerate() {
                subs.push(sub_expr(i, p)?);
            }
            let marker = if kind == "Join" { Expr::IsNotNull(bxe(m)) } else { and_all(Expr::IsNull(bxe(m)), subs) };
            let (l, r) = (arc(it.next().unwrap()), arc(it.next().unwrap()));
            LogicalPlan::Join(Join {
                left: l,
                right: r,
                on: vec![],
                filter: Some(marker),
                join_type: JoinType::Inner,
                join_constraint: JoinConstraint::On,
                schema: empty_schema(),
                null_equality: datafusion::common::NullEquality::NullEqualsNothing,
                null_aware: false,
            })
        }
        "Recursive" => {
            need(k == 2)?;
            let (l, r) = (arc(it.next().unwrap()), arc(it.next().unwrap()));
            LogicalPlan::RecursiveQuery(RecursiveQuery { name, static_term: l, recursive_term: r, is_distinct: false, schema: empty_schema() })
        }
        "Union" => {
            need(k >= 1)?;
            LogicalPlan::Union(Union { inputs: it.by_ref().map(arc).collect(), schema: empty_schema() })
        }
        other => return Err(format!("unknown LogicalPlan kind {other}")),
    })
}

/// marker expression of a Filter / Join filter: (variant, marker)
fn marker_expr(e: &Expr) -> (u8, Option<(u32, u32)>) {
    let head = match e {
        Expr::BinaryExpr(BinaryExpr { left, op: Operator::And, .. }) => {
            let mut h: &Expr = left;
            while let Expr::BinaryExpr(BinaryExpr { left, op: Operator::And, .. }) = h {
                h = left;
            }
            h
        }
        other => other,
    };
    match head {
        Expr::IsNotNull(x) => (0, parse_lit(x)),
        Expr::IsNull(x) => (1, parse_lit(x)),
        Expr::IsTrue(x) => (2, parse_lit(x)),
        _ => (9, None),
    }
}

fn l_tag(p: &LogicalPlan) -> String {
    let t = |kind: &str, m: Option<(u32, u32)>| {
        let (i, l) = l_meta(kind);
        if !i && !l { kind.to_string() } else { fmt_tag(kind, m, i, l) }
    };
    match p {
        LogicalPlan::EmptyRelation(e) => t("Empty", e.schema.fields().first().and_then(|f| parse_name(f.name()))),
        LogicalPlan::Values(v) => {
            let row = v.values.first();
            let kind = if row.map(|r| r.len() > 1).unwrap_or(false) { "ValuesSq" } else { "Values" };
            t(kind, row.and_then(|r| r.first()).and_then(parse_lit))
        }
        LogicalPlan::TableScan(s) => t(if s.filters.is_empty() { "Scan" } else { "ScanSq" }, parse_name(s.table_name.table())),
        LogicalPlan::Filter(f) => {
            let (v, m) = marker_expr(&f.predicate);
            t(["Filter", "FilterSq", "FilterSqN"].get(v as usize).copied().unwrap_or("Filter?"), m)
        }
        LogicalPlan::Limit(l) => t("Limit", l.fetch.as_deref().and_then(parse_lit)),
        LogicalPlan::Sort(s) => t("Sort", s.expr.first().and_then(|e| parse_lit(&e.expr))),
        LogicalPlan::Projection(pr) => t(
            "Proj",
            pr.expr.first().and_then(|e| match e {
                Expr::Alias(a) => parse_lit(&a.expr),
                other => parse_lit(other),
            }),
        ),
        LogicalPlan::SubqueryAlias(a) => t("Alias", parse_name(a.alias.table())),
        LogicalPlan::Distinct(Distinct::All(_)) => "Distinct".into(),
        LogicalPlan::Repartition(r) => t(
            "Repart",
            match &r.partitioning_scheme {
                LPartitioning::RoundRobinBatch(n) if *n >= 1 => Some((((*n - 1) / 10) as u32, ((*n - 1) % 10) as u32)),
                _ => None,
            },
        ),
        LogicalPlan::Subquery(s) => t("Sq", s.outer_ref_columns.first().and_then(parse_lit)),
        LogicalPlan::Aggregate(a) => t("Agg", a.group_expr.first().and_then(parse_lit)),
        LogicalPlan::Window(w) => t("Window", w.window_expr.first().and_then(parse_lit)),
        LogicalPlan::Statement(Statement::Prepare(pr)) => t("Prepare", parse_name(&pr.name)),
        LogicalPlan::Ddl(DdlStatement::CreateView(v)) => t("View", parse_name(v.name.table())),
        LogicalPlan::Ddl(DdlStatement::CreateMemoryTable(v)) => t("MemTable", parse_name(v.name.table())),
        LogicalPlan::Extension(e) => t("Ext", e.node.expressions().first().and_then(parse_lit)),
        LogicalPlan::Join(j) => {
            let (v, m) = j.filter.as_ref().map(marker_expr).unwrap_or((9, None));
            t(["Join", "JoinSq"].get(v as usize).copied().unwrap_or("Join?"), m)
        }
        LogicalPlan::RecursiveQuery(r) => t("Recursive", parse_name(&r.name)),
        LogicalPlan::Union(_) => "Union".into(),
        other => format!("<unexpected {}>", other.display()),
    }
}

fn tag_parts(tag: &str) -> (String, u32) {
    let kind = kind_of_tag(tag).to_string();
    let id = match tag.split_once('#') {
        Some((_, rest)) => rest.split('.').next().and_then(|x| x.parse().ok()).unwrap_or(0),
        None => 0,
    };
    (kind, id)
}

fn l_kids_ws(n: &LogicalPlan) -> DFResult<Vec<LogicalPlan>> {
    let mut v = vec![];
    n.apply_subqueries(|c| {
        v.push(c.clone());
        Ok(TreeNodeRecursion::Continue)
    })?;
    n.apply_children(|c| {
        v.push(c.clone());
        Ok(TreeNodeRecursion::Continue)
    })?;
    Ok(v)
}

fn l_relabel(n: LogicalPlan, label: u32, ws: bool) -> LogicalPlan {
    let (kind, id) = tag_parts(&l_tag(&n));
    let kids = if ws { l_kids_ws(&n) } else { collect_kids(&n) };
    let Ok(mut kids) = kids else { return n };
    match l_make(&kind, id, label, &mut kids) {
        Ok(p) => p,
        Err(_) => n,
    }
}

/// `==`, except that a `SubqueryAlias` derives its schema from its input when it is built and
/// child rewrites are documented not to refresh derived schemas: trees containing one are compared
/// on their indented display (all attributes but the schemas)
fn l_same(a: &LogicalPlan, b: &LogicalPlan) -> bool {
    if a == b {
        return true;
    }
    let has_alias = |p: &LogicalPlan| p.exists(|n| Ok(matches!(n, LogicalPlan::SubqueryAlias(_)))).unwrap_or(false);
    (has_alias(a) || has_alias(b)) && a.display_indent().to_string() == b.display_indent().to_string()
}

/// plain `TreeNode` view of a logical plan (inputs only)
pub struct L;
impl Family for L {
    type Node = LogicalPlan;
    const NAME: &'static str = "LogicalPlan";
    const LEAF: &'static str = "Values";
    const FRESH: &'static str = "Join";
    const WRAP: &'static str = "Limit";
    fn carries_id(kind: &str) -> bool {
        l_meta(kind).0
    }
    fn carries_label(kind: &str) -> bool {
        l_meta(kind).1
    }
    fn build(spec: &RNode) -> Result<LogicalPlan, String> {
        l_build(spec)
    }
    fn tag(n: &LogicalPlan) -> String {
        l_tag(n)
    }
    fn kids(n: &LogicalPlan) -> DFResult<Vec<LogicalPlan>> {
        collect_kids(n)
    }
    fn relabel(n: LogicalPlan, label: u32) -> LogicalPlan {
        l_relabel(n, label, false)
    }
    fn wrap(n: LogicalPlan, id: u32) -> Result<LogicalPlan, String> {
        l_make("Limit", id, 0, &mut vec![n])
    }
    fn same(a: &LogicalPlan, b: &LogicalPlan) -> bool {
        l_same(a, b)
    }
    fn call(api: Api, n: LogicalPlan, drv: &mut Driver<Self>) -> DFResult<Actual<LogicalPlan>> {
        treenode_call::<L>(api, n, drv)
    }
    fn consistency(n: &LogicalPlan) -> Result<(), String> {
        treenode_consistency::<L>(n)
    }
}

/// the `*_with_subqueries` view: children = subqueries of the node's expressions, then inputs
pub struct LW;
impl Family for LW {
    type Node = LogicalPlan;
    const NAME: &'static str = "LogicalPlan+subqueries";
    const LEAF: &'static str = "Values";
    const FRESH: &'static str = "Join";
    const WRAP: &'static str = "Limit";
    fn carries_id(kind: &str) -> bool {
        l_meta(kind).0
    }
    fn carries_label(kind: &str) -> bool {
        l_meta(kind).1
    }
    fn build(spec: &RNode) -> Result<LogicalPlan, String> {
        l_build(spec)
    }
    fn tag(n: &LogicalPlan) -> String {
        l_tag(n)
    }
    fn kids(n: &LogicalPlan) -> DFResult<Vec<LogicalPlan>> {
        l_kids_ws(n)
    }
    fn relabel(n: LogicalPlan, label: u32) -> LogicalPlan {
        l_relabel(n, label, true)
    }
    fn wrap(n: LogicalPlan, id: u32) -> Result<LogicalPlan, String> {
        l_make("Limit", id, 0, &mut vec![n])
    }
    fn same(a: &LogicalPlan, b: &LogicalPlan) -> bool {
        l_same(a, b)
    }
    fn api_name(api: Api) -> String {
        format!("{}_with_subqueries", api.name())
    }
    fn absorbs_jump(kind: &str, nkids: usize, child: usize) -> Option<Vec<usize>> {
        if child < l_nsub(kind, nkids) {
            // the Jump is handed to the walk over the expression holding the subquery, which skips
            // that expression's operands (and the subqueries nested in them)
            Some(if kind == "FilterSqN" && child == 0 { vec![1] } else { vec![] })
        } else {
            None
        }
    }
    fn call(api: Api, n: LogicalPlan, drv: &mut Driver<Self>) -> DFResult<Actual<LogicalPlan>> {
        let of_t = |t: Transformed<LogicalPlan>| Actual { data: Some(t.data), transformed: t.transformed, rec: t.tnr, found: None };
        Ok(match api {
            Api::Apply => {
                let rec = n.apply_with_subqueries(|c| Ok(drv.on_ref(Phase::Down, c)))?;
                Actual { data: None, transformed: false, rec, found: None }
            }
            Api::Visit => {
                let mut v = Vis(drv);
                let rec = n.visit_with_subqueries(&mut v)?;
                Actual { data: None, transformed: false, rec, found: None }
            }
            Api::TransformDown => of_t(n.transform_down_with_subqueries(|c| Ok(drv.on_owned(Phase::Down, c)))?),
            Api::TransformUp => of_t(n.transform_up_with_subqueries(|c| Ok(drv.on_owned(Phase::Up, c)))?),
            Api::Transform => of_t(n.transform_with_subqueries(|c| Ok(drv.on_owned(Phase::Up, c)))?),
            Api::TransformDownUp => {
                let cell = std::cell::RefCell::new(drv);
                of_t(n.transform_down_up_with_subqueries(|c| Ok(cell.borrow_mut().on_owned(Phase::Down, c)), |c| Ok(cell.borrow_mut().on_owned(Phase::Up, c)))?)
            }
            Api::Rewrite => {
                let mut r = Rew(drv);
                of_t(n.rewrite_with_subqueries(&mut r)?)
            }
            Api::Exists | Api::MapChildren | Api::ApplyChildren => {
                return Err(datafusion::common::DataFusionError::Internal("HARNESS: api has no subquery variant".into()));
            }
        })
    }
    fn consistency(n: &LogicalPlan) -> Result<(), String> {
        treenode_consistency::<L>(n)?;
        let mut a = vec![];
        n.apply_subqueries(|c| {
            a.push(render::<LW>(c));
            Ok(TreeNodeRecursion::Continue)
        })
        .map_err(|e| format!("apply_subqueries failed: {e}"))?;
        let mut m = vec![];
        let r = n
            .clone()
            .map_subqueries(|c| {
                m.push(render::<LW>(&c));
                Ok(Transformed::no(c))
            })
            .map_err(|e| format!("map_subqueries failed: {e}"))?;
        if a != m {
            return Err(format!("apply_subqueries lists {a:?} but map_subqueries maps {m:?} on node {}", render::<LW>(n)));
        }
        if r.transformed || r.tnr != TreeNodeRecursion::Continue || &r.data != n {
            return Err(format!("identity map_subqueries on {} reports transformed={} tnr={:?} / changed the node", render::<LW>(n), r.transformed, r.tnr));
        }
        Ok(())
    }
}

/// puts `Sq` nodes (fixed kind) into the subquery positions of subquery-bearing kinds
fn fix_subquery_positions(n: &mut RNode) {
    let nsub = l_nsub(n.kind, n.kids.len());
    for (i, k) in n.kids.iter_mut().enumerate() {
        if i < nsub {
            if k.kids.len() == 1 && l_nsub(k.kind, 1) == 0 {
                k.kind = "Sq";
            } else if k.kind != "Sq" || k.kids.len() != 1 {
                let old = std::mem::replace(k, RNode::new("Empty", 0, vec![]));
                *k = RNode::new("Sq", 0, vec![old]);
            }
            k.fixed = true;
        }
    }
    for k in &mut n.kids {
        fix_subquery_positions(k);
    }
}

// ---------------------------------------------------------------------------------------------
// physical expressions

type PExpr = Arc<dyn PhysicalExpr>;

fn p_meta(kind: &str) -> (bool, bool) {
    match kind {
        "Lit" | "Col" | "Fn" => (true, true),
        "Bin" | "Cast" | "TryCast" => (false, true),
        _ => (false, false),
    }
}

pub fn p_kinds(k: usize) -> Vec<&'static str> {
    match k {
        0 => vec!["Lit", "Lit", "Col", "Fn"],
        1 => vec!["Not", "IsNull", "IsNotNull", "Neg", "Cast", "TryCast", "Fn", "InList"],
        2 => vec!["Bin", "Bin", "Like", "ILike", "Case", "InList", "Fn"],
        _ => {
            let mut v = vec!["InList", "Fn"];
            if k % 2 == 0 {
                v.extend(["Case", "CaseBE"]);
            } else {
                v.extend(["CaseE", "CaseB"]);
            }
            v
        }
    }
}

fn p_build(s: &RNode) -> Result<PExpr, String> {
    let mut kids: Vec<PExpr> = s.kids.iter().map(p_build).collect::<Result<_, _>>()?;
    p_make(s.kind, s.id, s.label, &mut kids)
}

fn p_make(kind: &str, id: u32, label: u32, kids: &mut Vec<PExpr>) -> Result<PExpr, String> {
    let k = kids.len();
    let l = label as usize;
    let need = |ok: bool| if ok { Ok(()) } else { bad::<()>(kind, k) };
    let mut it = std::mem::take(kids).into_iter();
    let es = |e: datafusion::common::DataFusionError| e.to_string();
    Ok(match kind {
        "Lit" => {
            need(k == 0)?;
            pe::lit(mval(id, label))
        }
        "Col" => {
            need(k == 0)?;
            Arc::new(pe::Column::new(&mname(id, label), id as usize))
        }
        "Not" => {
            need(k == 1)?;
            Arc::new(pe::NotExpr::new(it.next().unwrap()))
        }
        "IsNull" => {
            need(k == 1)?;
            Arc::new(pe::IsNullExpr::new(it.next().unwrap()))
        }
        "IsNotNull" => {
            need(k == 1)?;
            Arc::new(pe::IsNotNullExpr::new(it.next().unwrap()))
        }
        "Neg" => {
            need(k == 1)?;
            Arc::new(pe::NegativeExpr::new(it.next().unwrap()))
        }
        "Cast" => {
            need(k == 1)?;
            Arc::new(pe::CastExpr::new(it.next().unwrap(), cast_types()[l % 4].clone(), None))
        }
        "TryCast" => {
            need(k == 1)?;
            Arc::new(pe::TryCastExpr::new(it.next().unwrap(), cast_types()[l % 4].clone()))
        }
        "Bin" => {
            need(k == 2)?;
            let (a, b) = (it.next().unwrap(), it.next().unwrap());
            Arc::new(pe::BinaryExpr::new(a, OPS[l % 4], b))
        }
        "Like" | "ILike" => {
            need(k == 2)?;
            let (a, b) = (it.next().unwrap(), it.next().unwrap());
            Arc::new(pe::LikeExpr::new(false, kind == "ILike", a, b))
        }
        "Case" | "CaseE" | "CaseB" | "CaseBE" => {
            let base = kind == "CaseB" || kind == "CaseBE";
            let els = kind == "CaseE" || kind == "CaseBE";
            let fixed = base as usize + els as usize;
            need(k >= fixed + 2 && (k - fixed) % 2 == 0)?;
            let b = if base { it.next() } else { None };
            let mut wt = vec![];
            for _ in 0..(k - fixed) / 2 {
                let w = it.next().unwrap();
                let t = it.next().unwrap();
                wt.push((w, t));
            }
            let e = if els { it.next() } else { None };
            Arc::new(pe::CaseExpr::try_new(b, wt, e).map_err(es)?)
        }
        "InList" => {
            need(k >= 1)?;
            let e = it.next().unwrap();
            let list: Vec<PExpr> = it.by_ref().collect();
            // `InListExpr::try_new` type-checks against a schema; build it over type-correct
            // placeholders and put the real children in through `with_new_children` (which does not)
            let ph: Vec<PExpr> = list.iter().map(|_| pe::lit(0i64)).collect();
            let base = pe::in_list(pe::lit(0i64), ph, &false, &Schema::empty()).map_err(es)?;
            let mut all = vec![e];
            all.extend(list);
            base.with_new_children(all).map_err(es)?
        }
        "Fn" => {
            let udf = marker_udf(id, label);
            Arc::new(datafusion::physical_expr::ScalarFunctionExpr::new(&mname(id, label), udf, it.by_ref().collect(), int_field(), Arc::new(Default::default())))
        }
        other => return Err(format!("unknown PhysicalExpr kind {other}")),
    })
}

fn p_tag(e: &PExpr) -> String {
    let t = |kind: &str, m: Option<(u32, u32)>| {
        let (i, l) = p_meta(kind);
        if !i && !l { kind.to_string() } else { fmt_tag(kind, m, i, l) }
    };
    let lab = |l: u32| Some((0u32, l));
    let a = e.as_ref() as &dyn std::any::Any;
    if let Some(x) = a.downcast_ref::<pe::Literal>() {
        return t(
            "Lit",
            match x.value() {
                ScalarValue::Int64(Some(v)) if *v >= 0 => Some(((*v / 10) as u32, (*v % 10) as u32)),
                _ => None,
            },
        );
    }
    if let Some(x) = a.downcast_ref::<pe::Column>() {
        return t("Col", parse_name(x.name()));
    }
    if a.is::<pe::NotExpr>() {
        return "Not".into();
    }
    if a.is::<pe::IsNullExpr>() {
        return "IsNull".into();
    }
    if a.is::<pe::IsNotNullExpr>() {
        return "IsNotNull".into();
    }
    if a.is::<pe::NegativeExpr>() {
        return "Neg".into();
    }
    if let Some(x) = a.downcast_ref::<pe::CastExpr>() {
        return t("Cast", lab(pos(&cast_types(), x.cast_type())));
    }
    if let Some(x) = a.downcast_ref::<pe::TryCastExpr>() {
        return t("TryCast", lab(pos(&cast_types(), x.cast_type())));
    }
    if let Some(x) = a.downcast_ref::<pe::BinaryExpr>() {
        return t("Bin", lab(pos(&OPS, x.op())));
    }
    if let Some(x) = a.downcast_ref::<pe::LikeExpr>() {
        return if x.case_insensitive() { "ILike" } else { "Like" }.into();
    }
    if let Some(x) = a.downcast_ref::<pe::CaseExpr>() {
        return match (x.expr().is_some(), x.else_expr().is_some()) {
            (false, false) => "Case",
            (false, true) => "CaseE",
            (true, false) => "CaseB",
            (true, true) => "CaseBE",
        }
        .into();
    }
    if a.is::<pe::InListExpr>() {
        return "InList".into();
    }
    if let Some(x) = a.downcast_ref::<datafusion::physical_expr::ScalarFunctionExpr>() {
        return t("Fn", parse_name(x.name()));
    }
    format!("<unexpected {e}>")
}

pub struct P;
impl Family for P {
    type Node = PExpr;
    const NAME: &'static str = "PhysicalExpr";
    const LEAF: &'static str = "Lit";
    const FRESH: &'static str = "Bin";
    const WRAP: &'static str = "Not";
    fn carries_id(kind: &str) -> bool {
        p_meta(kind).0
    }
    fn carries_label(kind: &str) -> bool {
        p_meta(kind).1
    }
    fn build(spec: &RNode) -> Result<PExpr, String> {
        p_build(spec)
    }
    fn tag(n: &PExpr) -> String {
        p_tag(n)
    }
    fn kids(n: &PExpr) -> DFResult<Vec<PExpr>> {
        collect_kids(n)
    }
    fn relabel(n: PExpr, label: u32) -> PExpr {
        let (kind, id) = tag_parts(&p_tag(&n));
        let Ok(mut kids) = collect_kids(&n) else { return n };
        match p_make(&kind, id, label, &mut kids) {
            Ok(p) => p,
            Err(_) => n,
        }
    }
    fn wrap(n: PExpr, _id: u32) -> Result<PExpr, String> {
        Ok(Arc::new(pe::NotExpr::new(n)))
    }
    fn same(a: &PExpr, b: &PExpr) -> bool {
        a == b
    }
    fn call(api: Api, n: PExpr, drv: &mut Driver<Self>) -> DFResult<Actual<PExpr>> {
        treenode_call::<P>(api, n, drv)
    }
    fn consistency(n: &PExpr) -> Result<(), String> {
        treenode_consistency::<P>(n)
    }
}

// ---------------------------------------------------------------------------------------------
// physical plans

type Plan = Arc<dyn ExecutionPlan>;

fn x_meta(kind: &str) -> (bool, bool) {
    match kind {
        "Coalesce" | "Cross" | "NLJ" | "Union" => (false, false),
        _ => (true, true),
    }
}

pub fn x_kinds(k: usize) -> Vec<&'static str> {
    match k {
        0 => vec!["Empty"],
        1 => vec!["GLimit", "LLimit", "Coalesce", "Repart", "Filter", "Proj"],
        _ => vec!["Cross", "NLJ"],
    }
}

fn x_build(s: &RNode) -> Result<Plan, String> {
    let mut kids: Vec<Plan> = s.kids.iter().map(x_build).collect::<Result<_, _>>()?;
    x_make(s.kind, s.id, s.label, &mut kids)
}

fn x_make(kind: &str, id: u32, label: u32, kids: &mut Vec<Plan>) -> Result<Plan, String> {
    use datafusion::physical_plan as pp;
    let k = kids.len();
    let need = |ok: bool| if ok { Ok(()) } else { bad::<()>(kind, k) };
    let mut it = std::mem::take(kids).into_iter();
    let es = |e: datafusion::common::DataFusionError| e.to_string();
    let mv = mval(id, label);
    Ok(match kind {
        "Empty" => {
            need(k == 0)?;
            Arc::new(pp::empty::EmptyExec::new(Arc::new(Schema::new(vec![Field::new("a", DataType::Int64, true)]))).with_partitions(mv as usize + 1))
        }
        "GLimit" => {
            need(k == 1)?;
            Arc::new(pp::limit::GlobalLimitExec::new(it.next().unwrap(), 0, Some(mv as usize)))
        }
        "LLimit" => {
            need(k == 1)?;
            Arc::new(pp::limit::LocalLimitExec::new(it.next().unwrap(), mv as usize))
        }
        "Coalesce" => {
            need(k == 1)?;
            Arc::new(pp::coalesce_partitions::CoalescePartitionsExec::new(it.next().unwrap()))
        }
        "Repart" => {
            need(k == 1)?;
            Arc::new(pp::repartition::RepartitionExec::try_new(it.next().unwrap(), pp::Partitioning::RoundRobinBatch(mv as usize + 1)).map_err(es)?)
        }
        "Filter" => {
            need(k == 1)?;
            let pred: PExpr = Arc::new(pe::BinaryExpr::new(pe::lit(mv), Operator::Eq, pe::lit(mv)));
            Arc::new(pp::filter::FilterExec::try_new(pred, it.next().unwrap()).map_err(es)?)
        }
        "Proj" => {
            need(k == 1)?;
            let e: Vec<(PExpr, String)> = vec![(pe::lit(mv), "a".to_string())];
            Arc::new(pp::projection::ProjectionExec::try_new(e, it.next().unwrap()).map_err(es)?)
        }
        "Cross" => {
            need(k == 2)?;
            let (a, b) = (it.next().unwrap(), it.next().unwrap());
            Arc::new(pp::joins::CrossJoinExec::new(a, b))
        }
        "NLJ" => {
            need(k == 2)?;
            let (a, b) = (it.next().unwrap(), it.next().unwrap());
            Arc::new(pp::joins::NestedLoopJoinExec::try_new(a, b, None, &JoinType::Inner, None).map_err(es)?)
        }
        "Union" => {
            need(k >= 1)?;
            pp::union::UnionExec::try_new(it.by_ref().collect()).map_err(es)?
        }
        other => return Err(format!("unknown ExecutionPlan kind {other}")),
    })
}

fn x_tag(p: &Plan) -> String {
    use datafusion::physical_plan as pp;
    let t = |kind: &str, m: Option<(u32, u32)>| {
        let (i, l) = x_meta(kind);
        if !i && !l { kind.to_string() } else { fmt_tag(kind, m, i, l) }
    };
    let num = |v: usize| Some(((v / 10) as u32, (v % 10) as u32));
    let a = p.as_ref() as &dyn std::any::Any;
    if a.is::<pp::empty::EmptyExec>() {
        use datafusion::physical_plan::ExecutionPlanProperties;
        let n = p.output_partitioning().partition_count();
        return t("Empty", if n >= 1 { num(n - 1) } else { None });
    }
    if let Some(x) = a.downcast_ref::<pp::limit::GlobalLimitExec>() {
        return t("GLimit", x.fetch().and_then(num));
    }
    if let Some(x) = a.downcast_ref::<pp::limit::LocalLimitExec>() {
        return t("LLimit", num(x.fetch()));
    }
    if a.is::<pp::coalesce_partitions::CoalescePartitionsExec>() {
        return "Coalesce".into();
    }
    if let Some(x) = a.downcast_ref::<pp::repartition::RepartitionExec>() {
        return t(
            "Repart",
            match x.partitioning() {
                pp::Partitioning::RoundRobinBatch(n) if *n >= 1 => num(*n - 1),
                _ => None,
            },
        );
    }
    if let Some(x) = a.downcast_ref::<pp::filter::FilterExec>() {
        let m = (x.predicate().as_ref() as &dyn std::any::Any).downcast_ref::<pe::BinaryExpr>().and_then(|b| (b.left().as_ref() as &dyn std::any::Any).downcast_ref::<pe::Literal>()).and_then(|l| match l.value() {
            ScalarValue::Int64(Some(v)) if *v >= 0 => num(*v as usize),
            _ => None,
        });
        return t("Filter", m);
    }
    if let Some(x) = a.downcast_ref::<pp::projection::ProjectionExec>() {
        let m = x.expr().first().and_then(|pe_| (pe_.expr.as_ref() as &dyn std::any::Any).downcast_ref::<pe::Literal>()).and_then(|l| match l.value() {
            ScalarValue::Int64(Some(v)) if *v >= 0 => num(*v as usize),
            _ => None,
        });
        return t("Proj", m);
    }
    if a.is::<pp::joins::CrossJoinExec>() {
        return "Cross".into();
    }
    if a.is::<pp::joins::NestedLoopJoinExec>() {
        return "NLJ".into();
    }
    if a.is::<pp::union::UnionExec>() {
        return "Union".into();
    }
    format!("<unexpected {}>", p.name())
}

pub struct X;
impl Family for X {
    type Node = Plan;
    const NAME: &'static str = "ExecutionPlan";
    const LEAF: &'static str = "Empty";
    const FRESH: &'static str = "Cross";
    const WRAP: &'static str = "GLimit";
    fn carries_id(kind: &str) -> bool {
        x_meta(kind).0
    }
    fn carries_label(kind: &str) -> bool {
        x_meta(kind).1
    }
    fn build(spec: &RNode) -> Result<Plan, String> {
        x_build(spec)
    }
    fn tag(n: &Plan) -> String {
        x_tag(n)
    }
    fn kids(n: &Plan) -> DFResult<Vec<Plan>> {
        collect_kids(n)
    }
    fn relabel(n: Plan, label: u32) -> Plan {
        let (kind, id) = tag_parts(&x_tag(&n));
        let Ok(mut kids) = collect_kids(&n) else { return n };
        match x_make(&kind, id, label, &mut kids) {
            Ok(p) => p,
            Err(_) => n,
        }
    }
    fn wrap(n: Plan, id: u32) -> Result<Plan, String> {
        x_make("GLimit", id, 0, &mut vec![n])
    }
    fn same(a: &Plan, b: &Plan) -> bool {
        use datafusion::physical_plan::displayable;
        displayable(a.as_ref()).indent(true).to_string() == displayable(b.as_ref()).indent(true).to_string()
    }
    fn call(api: Api, n: Plan, drv: &mut Driver<Self>) -> DFResult<Actual<Plan>> {
        treenode_call::<X>(api, n, drv)
    }
    fn consistency(n: &Plan) -> Result<(), String> {
        treenode_consistency::<X>(n)
    }
}

// ---------------------------------------------------------------------------------------------
// the property

#[derive(Clone, Copy, Debug, PartialEq, Eq, Serialize, Deserialize)]
pub enum Fam {
    Expr,
    Logical,
    LogicalSubq,
    PhysExpr,
    Exec,
}

#[derive(Clone, Debug, Serialize, Deserialize)]
pub struct Case {
    pub family: Fam,
    pub api: Api,
    pub tree: Shape,
    pub dec: Vec<Dec>,
}

pub const MAX_NODES: usize = 14;

pub fn spec_for(fam: Fam, tree: &Shape) -> RNode {
    let mut spec = match fam {
        Fam::Expr => shape_to_spec(tree, MAX_NODES, &|k, _| e_kinds(k)),
        Fam::Logical => shape_to_spec(tree, MAX_NODES, &|k, _| l_kinds(k, false)),
        Fam::LogicalSubq => shape_to_spec(tree, MAX_NODES, &|k, _| l_kinds(k, true)),
        Fam::PhysExpr => shape_to_spec(tree, MAX_NODES, &|k, _| p_kinds(k)),
        // UnionExec re-wraps inputs whose schema differs (documented coercion), so physical plans
        // are built from leaf / unary / binary operators only
        Fam::Exec => shape_to_spec(&at_most_two(tree), MAX_NODES, &|k, _| x_kinds(k)),
    };
    match fam {
        Fam::LogicalSubq => fix_subquery_positions(&mut spec),
        _ => {}
    }
    let mut next = 0;
    spec.number(&mut next);
    spec
}

fn at_most_two(s: &Shape) -> Shape {
    Shape { k: s.k, kids: s.kids.iter().take(2).map(at_most_two).collect() }
}

/// APIs without a subquery variant are mapped to recursive ones
pub fn effective_api(fam: Fam, api: Api) -> Api {
    if fam == Fam::LogicalSubq {
        match api {
            Api::Exists => Api::Apply,
            Api::MapChildren => Api::TransformDownUp,
            Api::ApplyChildren => Api::Visit,
            a => a,
        }
    } else {
        api
    }
}

pub fn run_family(fam: Fam, spec: &RNode, api: Api, dec: &[Dec], structure: bool) -> Verdict {
    match fam {
        Fam::Expr => check_case::<E>(spec, api, dec, structure),
        Fam::Logical => check_case::<L>(spec, api, dec, structure),
        Fam::LogicalSubq => check_case::<LW>(spec, api, dec, structure),
        Fam::PhysExpr => check_case::<P>(spec, api, dec, structure),
        Fam::Exec => check_case::<X>(spec, api, dec, structure),
    }
}

pub struct C42b;

impl Property for C42b {
    type Case = Case;
    fn id(&self) -> &'static str {
        "C42"
    }
    fn sub(&self) -> &'static str {
        "c42b"
    }
    fn strategy(&self, tier: Tier) -> BoxedStrategy<Case> {
        let shape = shape_strategy(tier.pick(4, 5), tier.pick(12, 14), 5);
        let fam = prop_oneof![4 => Just(Fam::Expr), 3 => Just(Fam::Logical), 4 => Just(Fam::LogicalSubq), 3 => Just(Fam::PhysExpr), 2 => Just(Fam::Exec)];
        (fam, api_strategy(), shape, dec_strategy(16)).prop_map(|(family, api, tree, dec)| Case { family, api, tree, dec }).boxed()
    }
    fn budget(&self, tier: Tier) -> Budget {
        Budget::new(tier.pick(40_000, 3_000_000), tier.pick(8, 16)).min_nontrivial(tier.pick(3_000, 100_000))
    }
    fn rule(&self) -> String {
        "random ordered tree (<= ~18 nodes) realised as a real Expr / LogicalPlan / LogicalPlan with subqueries (the *_with_subqueries APIs) / Arc<dyn PhysicalExpr> / Arc<dyn ExecutionPlan> \
         (variant per node chosen among those fitting the arity, unique marker literals), one TreeNode API, a Continue|Jump|Stop + none|report|relabel|leaf|fresh-subtree|wrap decision per node \
         and phase; non-trivial = some non-leaf non-root node has a Jump/Stop decision in a phase the API uses (one-level APIs: on a child that is not the last) and, for transforming APIs, \
         at least one replacement decision; distinct by case JSON. extra: all decision vectors on small fixed trees of every family"
            .into()
    }
    fn assumptions(&self) -> Vec<String> {
        vec![
            "a walk that ends while an f_up Jump is still bypassing ancestors reports Jump as its final status".into(),
            "callbacks always report a node they changed; callbacks on a node in subquery position return a Subquery node; physical replacements keep the schema width".into(),
            "the one-level child list (and its order) of each real node is the one its own apply_children (apply_subqueries + apply_children) reports; it must contain exactly the children the node was built with".into(),
        ]
    }
    fn known_signature(&self, case: &Case) -> Option<String> {
        std::panic::catch_unwind(std::panic::AssertUnwindSafe(|| crate::c42known::signature_b(case))).ok().flatten()
    }
    fn run(&self, case: &Case) -> CaseResult {
        let spec = spec_for(case.family, &case.tree);
        let api = effective_api(case.family, case.api);
        let nt = nontrivial(&spec, api, &case.dec);
        let mut labels = vec![format!("family={:?}", case.family), format!("nodes={}", bucket(spec.count()))];
        let mut kinds = std::collections::BTreeSet::new();
        spec.for_each(&mut |n, _| {
            kinds.insert(n.kind);
        });
        labels.extend(kinds.into_iter().map(|k| format!("kind={:?}:{k}", case.family)));
        to_result(run_family(case.family, &spec, api, &case.dec, true), nt, labels)
    }
    fn extra(&self, tier: Tier, _seed: u64) -> Result<serde_json::Value, (String, Case)> {
        exhaustive(tier)
    }
}

// ---------------------------------------------------------------------------------------------
// exhaustive sub-run on small real trees

const RECS: [Rec; 3] = [Rec::C, Rec::J, Rec::S];

fn exhaustive(tier: Tier) -> Result<serde_json::Value, (String, Case)> {
    let single_max = tier.pick(5, 6);
    let double_max = tier.pick(3, 4);
    let fams = [Fam::Expr, Fam::Logical, Fam::LogicalSubq, Fam::PhysExpr, Fam::Exec];
    let single = [Api::Apply, Api::TransformDown, Api::TransformUp];
    let double = [Api::Visit, Api::TransformDownUp, Api::Rewrite];
    let mut items: Vec<(Fam, Shape, Api)> = vec![];
    let mut trees = 0u64;
    for fam in fams {
        let mut salt = 0x9e37_79b9u32 ^ (fam as u32);
        for n in 1..=single_max {
            for mut s in crate::c42a::all_shapes(n) {
                salt_kinds(&mut s, &mut salt);
                trees += 1;
                for api in single {
                    items.push((fam, s.clone(), api));
                }
                if n <= double_max {
                    for api in double {
                        items.push((fam, s.clone(), api));
                    }
                }
            }
        }
    }
    let threads = tier.pick(8, 16);
    let chunk = items.len().div_ceil(threads).max(1);
    let results: Vec<Result<(u64, u64), (String, Case)>> = std::thread::scope(|sc| {
        let hs: Vec<_> = items
            .chunks(chunk)
            .map(|part| {
                sc.spawn(move || {
                    let mut runs = 0u64;
                    let mut known = 0u64;
                    for (fam, shape, api) in part {
                        enumerate(*fam, shape, *api, &mut runs, &mut known)?;
                    }
                    Ok((runs, known))
                })
            })
            .collect();
        hs.into_iter()
            .map(|h| h.join().unwrap_or_else(|_| Err(("exhaustive sub-run panicked".into(), Case { family: Fam::Expr, api: Api::Apply, tree: Shape { k: 0, kids: vec![] }, dec: vec![] }))))
            .collect()
    });
    let (mut runs, mut known) = (0, 0);
    for r in results {
        let (a, b) = r?;
        runs += a;
        known += b;
    }
    Ok(serde_json::json!({
        "exhaustive_small_trees": {
            "exhaustive": true,
            "what": format!("every family x all ordered tree shapes with <= {single_max} nodes (one variant assignment per shape) x all 3^n vectors for apply/transform_down/transform_up; \
                             shapes with <= {double_max} nodes x all 9^n vectors for visit/transform_down_up/rewrite (with_subqueries variants for that family); every call relabels"),
            "trees": trees,
            "runs": runs,
            "runs_matching_open_known_finding": known,
        }
    }))
}

fn salt_kinds(s: &mut Shape, salt: &mut u32) {
    *salt = salt.wrapping_mul(1_103_515_245).wrapping_add(12_345);
    s.k = (*salt >> 16) as u8;
    for k in &mut s.kids {
        salt_kinds(k, salt);
    }
}

fn enumerate(fam: Fam, shape: &Shape, api: Api, runs: &mut u64, known: &mut u64) -> Result<(), (String, Case)> {
    let spec = spec_for(fam, shape);
    let n = spec.count();
    if n > 7 {
        return Ok(()); // subquery wrapping made the tree too large to enumerate
    }
    let two = api.has_down() && api.has_up();
    let base: u64 = if two { 9 } else { 3 };
    let total = base.pow(n as u32);
    let mut dec = vec![Dec { down: CONT, up: CONT }; n];
    let chg = Chg::Relabel;
    for v in 0..total {
        let mut x = v;
        for d in dec.iter_mut() {
            let digit = (x % base) as usize;
            x /= base;
            let (a, b) = if two {
                (RECS[digit % 3], RECS[digit / 3])
            } else if api.has_down() {
                (RECS[digit], Rec::C)
            } else {
                (Rec::C, RECS[digit])
            };
            *d = Dec { down: Step { rec: a, chg }, up: Step { rec: b, chg } };
        }
        *runs += 1;
        match run_family(fam, &spec, api, &dec, v == 0) {
            Verdict::Pass(_) => {}
            Verdict::Violation(m) => {
                let case = Case { family: fam, api, tree: shape.clone(), dec: dec.clone() };
                if crate::c42known::signature_b(&case).map(|s| crate::c42known::is_open("C42", &s)).unwrap_or(false) {
                    *known += 1;
                    continue;
                }
                return Err((format!("exhaustive sub-run: {m}"), case));
            }
            Verdict::Unbuildable(m) => return Err((format!("exhaustive sub-run: unbuildable: {m}"), Case { family: fam, api, tree: shape.clone(), dec: dec.clone() })),
        }
    }
    Ok(())
}
