//! Shared machinery of C42 (used by `c42a` and `c42b`): abstract trees, an INDEPENDENT reference
//! interpreter of the recursion contract documented on `TreeNodeRecursion`, and the lock-step
//! driver that runs the real `TreeNode` APIs against the reference's predicted call list.
//!
//! The reference is written from the rustdoc, not from the combinators in `tree_node.rs`: it is an
//! explicit-stack Euler tour over a mutable abstract tree with ONE piece of control state
//! (`pending_jump`):
//! * `f_down` is invoked when a node is entered (pre-order), `f_up` when it is left (post-order);
//! * `Stop` from any callback ends the walk, the final status is `Stop`, nothing else changes;
//! * `Jump` from `f_down` ("skip recursing into children but continue with the next node" / in
//!   combined traversals "jumps to the next `f_up` phase by shortcutting its children"): the
//!   node's children are not entered; the node's own `f_up` (if the API has one) runs normally;
//! * `Jump` from `f_up` ("jumps to the next `f_down` phase by shortcutting its parent nodes until
//!   the first parent node having unvisited children path"; bottom-up only: "bypass calling
//!   bottom-up closures till the next leaf node"): `pending_jump` is set; while it is set, leaving
//!   a node does NOT invoke `f_up`; entering any node (the next unvisited child of the first
//!   ancestor that still has one) clears it. If the tour ends with it set, the final status is
//!   `Jump` (the walk "ended" jumping) — otherwise `Continue`.
//! * A transforming callback replaces the node in place; a top-down traversal continues into the
//!   children of the REPLACEMENT; `transformed` = OR of the flags reported by the invoked callbacks.
//! * One-level APIs (`map_children`/`apply_children`): the callback runs on each direct child in
//!   order ("siblings": `Continue|Jump` go on, `Stop` ends); status = status of the last invocation
//!   (`Continue` if there was none) as documented on `TreeNodeIterator`.

use datafusion::common::Result as DFResult;
use datafusion::common::tree_node::{Transformed, TreeNode, TreeNodeRecursion, TreeNodeRewriter, TreeNodeVisitor};
use serde::{Deserialize, Serialize};
use std::cell::RefCell;
use std::marker::PhantomData;

#[derive(Clone, Copy, Debug, PartialEq, Eq, Serialize, Deserialize)]
pub enum Rec {
    C,
    J,
    S,
}

impl Rec {
    pub fn tnr(self) -> TreeNodeRecursion {
        match self {
            Rec::C => TreeNodeRecursion::Continue,
            Rec::J => TreeNodeRecursion::Jump,
            Rec::S => TreeNodeRecursion::Stop,
        }
    }
    pub fn of(t: TreeNodeRecursion) -> Rec {
        match t {
            TreeNodeRecursion::Continue => Rec::C,
            TreeNodeRecursion::Jump => Rec::J,
            TreeNodeRecursion::Stop => Rec::S,
        }
    }
}

/// What a transforming callback does with the node it is handed.
#[derive(Clone, Copy, Debug, PartialEq, Eq, Serialize, Deserialize)]
pub enum Chg {
    /// same node, `transformed = false`
    None,
    /// same node, `transformed = true`
    Report,
    /// same node kind and children, different own attribute (label + 1), `transformed = true`
    Relabel,
    /// replaced by a fresh leaf
    Leaf,
    /// replaced by a fresh inner node with two fresh leaves (top-down continues into them)
    Fresh,
    /// (post-order only) wrapped into a fresh unary parent
    Wrap,
}

#[derive(Clone, Copy, Debug, PartialEq, Eq, Serialize, Deserialize)]
pub struct Step {
    pub rec: Rec,
    pub chg: Chg,
}

#[derive(Clone, Copy, Debug, PartialEq, Eq, Serialize, Deserialize)]
pub struct Dec {
    pub down: Step,
    pub up: Step,
}

pub const CONT: Step = Step { rec: Rec::C, chg: Chg::None };

#[derive(Clone, Copy, Debug, PartialEq, Eq)]
pub enum Phase {
    Down,
    Up,
}

#[derive(Clone, Copy, Debug, PartialEq, Eq, Serialize, Deserialize)]
pub enum Api {
    Apply,
    Exists,
    Visit,
    TransformDown,
    TransformUp,
    Transform,
    TransformDownUp,
    Rewrite,
    MapChildren,
    ApplyChildren,
}

pub const ALL_APIS: [Api; 10] =
    [Api::Apply, Api::Exists, Api::Visit, Api::TransformDown, Api::TransformUp, Api::Transform, Api::TransformDownUp, Api::Rewrite, Api::MapChildren, Api::ApplyChildren];

impl Api {
    pub fn has_down(self) -> bool {
        !matches!(self, Api::TransformUp | Api::Transform)
    }
    pub fn has_up(self) -> bool {
        matches!(self, Api::Visit | Api::TransformUp | Api::Transform | Api::TransformDownUp | Api::Rewrite)
    }
    pub fn mutating(self) -> bool {
        matches!(self, Api::TransformDown | Api::TransformUp | Api::Transform | Api::TransformDownUp | Api::Rewrite | Api::MapChildren)
    }
    pub fn one_level(self) -> bool {
        matches!(self, Api::MapChildren | Api::ApplyChildren)
    }
    pub fn name(self) -> &'static str {
        match self {
            Api::Apply => "apply",
            Api::Exists => "exists",
            Api::Visit => "visit",
            Api::TransformDown => "transform_down",
            Api::TransformUp => "transform_up",
            Api::Transform => "transform",
            Api::TransformDownUp => "transform_down_up",
            Api::Rewrite => "rewrite",
            Api::MapChildren => "map_children",
            Api::ApplyChildren => "apply_children",
        }
    }
}

/// First id given to nodes created by callbacks.
pub const FRESH_BASE: u32 = 1000;

/// Abstract tree node. `kids` is the natural (construction) order; `order` the traversal order
/// observed through `apply_children` when that differs (hash-map containers).
#[derive(Clone, Debug, PartialEq)]
pub struct RNode {
    pub kind: &'static str,
    pub id: u32,
    pub label: u32,
    /// the node must keep its kind (only None/Report/Relabel are applied to it)
    pub fixed: bool,
    pub kids: Vec<RNode>,
    pub order: Option<Vec<usize>>,
}

impl RNode {
    pub fn new(kind: &'static str, id: u32, kids: Vec<RNode>) -> RNode {
        RNode { kind, id, label: 0, fixed: false, kids, order: None }
    }
    pub fn count(&self) -> usize {
        1 + self.kids.iter().map(|k| k.count()).sum::<usize>()
    }
    pub fn traversal(&self) -> Vec<usize> {
        match &self.order {
            Some(o) => o.clone(),
            None => (0..self.kids.len()).collect(),
        }
    }
    /// assign pre-order ids 0..n
    pub fn number(&mut self, next: &mut u32) {
        self.id = *next;
        *next += 1;
        for k in &mut self.kids {
            k.number(next);
        }
    }
    pub fn get(&self, path: &[usize]) -> &RNode {
        let mut n = self;
        for &i in path {
            n = &n.kids[i];
        }
        n
    }
    pub fn get_mut(&mut self, path: &[usize]) -> &mut RNode {
        let mut n = self;
        for &i in path {
            n = &mut n.kids[i];
        }
        n
    }
    pub fn for_each(&self, f: &mut dyn FnMut(&RNode, usize)) {
        fn go(n: &RNode, d: usize, f: &mut dyn FnMut(&RNode, usize)) {
            f(n, d);
            for k in &n.kids {
                go(k, d + 1, f);
            }
        }
        go(self, 0, f)
    }
}

/// One family of real trees (a `TreeNode` type plus how the harness builds / reads / edits it).
pub trait Family: Sized {
    type Node: Clone;
    const NAME: &'static str;
    const LEAF: &'static str;
    const FRESH: &'static str;
    const WRAP: &'static str;
    fn carries_id(kind: &str) -> bool;
    fn carries_label(kind: &str) -> bool;
    /// real tree from the abstract one
    fn build(spec: &RNode) -> Result<Self::Node, String>;
    /// own (non-child) part of a real node: `kind[#id][.label]`
    fn tag(n: &Self::Node) -> String;
    /// one-level child list, in the order the API's `apply_children` reports it
    fn kids(n: &Self::Node) -> DFResult<Vec<Self::Node>>;
    /// one-level child list used for rendering (natural order); default = `kids`
    fn canon_kids(n: &Self::Node) -> DFResult<Vec<Self::Node>> {
        Self::kids(n)
    }
    /// same node with another label, children untouched
    fn relabel(n: Self::Node, label: u32) -> Self::Node;
    fn wrap(n: Self::Node, id: u32) -> Result<Self::Node, String>;
    fn same(a: &Self::Node, b: &Self::Node) -> bool;
    fn call(api: Api, n: Self::Node, drv: &mut Driver<Self>) -> DFResult<Actual<Self::Node>>;
    /// `apply_children` and `map_children` (identity closure) of one node agree
    fn consistency(n: &Self::Node) -> Result<(), String>;
    fn api_name(api: Api) -> String {
        api.name().to_string()
    }
    /// the node's container layout ends with an empty container (used only to recognise the
    /// known finding `trailing-empty-container`, never by the strict reference)
    fn trailing_empty(_kind: &str, _nkids: usize) -> bool {
        false
    }
    /// known finding `subquery-jump-absorbed` only: a Jump pending after child `child` (natural
    /// index) of a node is absorbed; returns the children that are skipped as a consequence
    fn absorbs_jump(_kind: &str, _nkids: usize, _child: usize) -> Option<Vec<usize>> {
        None
    }
}

pub fn leaf_spec<F: Family>(id: u32) -> RNode {
    RNode::new(F::LEAF, id, vec![])
}
pub fn fresh_spec<F: Family>(id: u32) -> RNode {
    RNode::new(F::FRESH, id, vec![leaf_spec::<F>(id + 1), leaf_spec::<F>(id + 2)])
}

pub fn ref_tag<F: Family>(n: &RNode) -> String {
    let mut s = n.kind.to_string();
    if F::carries_id(n.kind) {
        s.push_str(&format!("#{}", n.id));
    }
    if F::carries_label(n.kind) {
        s.push_str(&format!(".{}", n.label));
    }
    s
}

pub fn ref_render<F: Family>(n: &RNode) -> String {
    let mut s = ref_tag::<F>(n);
    if !n.kids.is_empty() {
        s.push('(');
        for (i, k) in n.kids.iter().enumerate() {
            if i > 0 {
                s.push(',');
            }
            s.push_str(&ref_render::<F>(k));
        }
        s.push(')');
    }
    s
}

pub fn render<F: Family>(n: &F::Node) -> String {
    let mut s = F::tag(n);
    match F::canon_kids(n) {
        Err(e) => s.push_str(&format!("(<error listing children: {e}>)")),
        Ok(kids) => {
            if !kids.is_empty() {
                s.push('(');
                for (i, k) in kids.iter().enumerate() {
                    if i > 0 {
                        s.push(',');
                    }
                    s.push_str(&render::<F>(k));
                }
                s.push(')');
            }
        }
    }
    s
}

/// Checks that the real tree lists, through `apply_children`, exactly the children it was built
/// with (completeness: every marker reachable) and records the traversal order where it is not the
/// natural one.
pub fn align<F: Family>(spec: &mut RNode, n: &F::Node) -> Result<(), String> {
    let st = ref_tag::<F>(spec);
    let at = F::tag(n);
    if st != at {
        return Err(format!("node built as {st} reads back as {at}"));
    }
    let kids = F::kids(n).map_err(|e| format!("apply_children of {at} failed: {e}"))?;
    let a: Vec<String> = kids.iter().map(|k| render::<F>(k)).collect();
    let s: Vec<String> = spec.kids.iter().map(|k| ref_render::<F>(k)).collect();
    let mut perm = vec![];
    let mut used = vec![false; s.len()];
    for r in &a {
        match (0..s.len()).find(|&i| !used[i] && &s[i] == r) {
            Some(i) => {
                used[i] = true;
                perm.push(i);
            }
            None => return Err(format!("apply_children of {at} reports child {r} which is not among the children the node was built with {s:?}")),
        }
    }
    if perm.len() != s.len() {
        let missing: Vec<&String> = (0..s.len()).filter(|&i| !used[i]).map(|i| &s[i]).collect();
        return Err(format!("apply_children of {at} does not reach children {missing:?} (reported {a:?})"));
    }
    for (pos, &i) in perm.iter().enumerate() {
        align::<F>(&mut spec.kids[i], &kids[pos])?;
    }
    if perm.iter().enumerate().any(|(p, &i)| p != i) {
        spec.order = Some(perm);
    }
    Ok(())
}

pub fn consistency_all<F: Family>(n: &F::Node) -> Result<(), String> {
    F::consistency(n)?;
    for k in F::kids(n).map_err(|e| e.to_string())? {
        consistency_all::<F>(&k)?;
    }
    Ok(())
}

/// Default `Family::consistency` for `TreeNode` types.
pub fn treenode_consistency<F: Family>(n: &F::Node) -> Result<(), String>
where
    F::Node: TreeNode,
{
    let mut a = vec![];
    let ra = n
        .apply_children(|c| {
            a.push(render::<F>(c));
            Ok(TreeNodeRecursion::Continue)
        })
        .map_err(|e| format!("apply_children failed: {e}"))?;
    if ra != TreeNodeRecursion::Continue {
        return Err(format!("apply_children with an always-Continue closure returned {ra:?}"));
    }
    let mut m = vec![];
    let r = n
        .clone()
        .map_children(|c| {
            m.push(render::<F>(&c));
            Ok(Transformed::no(c))
        })
        .map_err(|e| format!("map_children failed: {e}"))?;
    if a != m {
        return Err(format!("apply_children lists {a:?} but map_children maps {m:?} on node {}", render::<F>(n)));
    }
    if r.transformed || r.tnr != TreeNodeRecursion::Continue {
        return Err(format!("identity map_children on {} reports transformed={} tnr={:?}", render::<F>(n), r.transformed, r.tnr));
    }
    if render::<F>(&r.data) != render::<F>(n) || !F::same(&r.data, n) {
        return Err(format!("identity map_children changed {} into {}", render::<F>(n), render::<F>(&r.data)));
    }
    Ok(())
}

// ---------------------------------------------------------------------------------------------
// the reference interpreter

#[derive(Clone, Debug)]
pub struct ExpCall {
    pub phase: Phase,
    /// rendering of the node handed to the callback
    pub seen: String,
    pub id: u32,
    pub rec: Rec,
    /// effective change
    pub chg: Chg,
    /// first id for nodes created by this call
    pub fresh: u32,
    pub new_label: u32,
    pub leafish: bool,
    pub root: bool,
}

#[derive(Clone, Debug)]
pub struct RefOut {
    pub calls: Vec<ExpCall>,
    pub tree: RNode,
    pub transformed: bool,
    pub rec: Rec,
}

pub fn dec_for(dec: &[Dec], id: u32) -> Dec {
    if dec.is_empty() {
        return Dec { down: CONT, up: CONT };
    }
    if id < FRESH_BASE { dec[id as usize % dec.len()] } else { dec[(dec.len() - 1) - ((id - FRESH_BASE) as usize % dec.len())] }
}

struct Frame {
    path: Vec<usize>,
    entered: bool,
    order: Vec<usize>,
    next: usize,
}

struct Machine<'a, F: Family> {
    root: RNode,
    dec: &'a [Dec],
    mutating: bool,
    /// `exists` takes a predicate: true = Stop, false = Continue (no Jump)
    predicate: bool,
    calls: Vec<ExpCall>,
    transformed: bool,
    next_fresh: u32,
    _f: PhantomData<F>,
}

impl<F: Family> Machine<'_, F> {
    /// invoke the (modelled) callback on the node at `path`
    fn call(&mut self, path: &[usize], phase: Phase) -> Rec {
        let node = self.root.get(path);
        let d = dec_for(self.dec, node.id);
        let mut step = if phase == Phase::Down { d.down } else { d.up };
        if self.predicate && step.rec == Rec::J {
            step.rec = Rec::C;
        }
        let mut chg = if self.mutating { step.chg } else { Chg::None };
        if chg == Chg::Wrap && phase == Phase::Down {
            chg = Chg::Fresh; // wrapping top-down would re-enter the wrapped node for ever
        }
        if matches!(chg, Chg::Fresh | Chg::Wrap) && node.id >= FRESH_BASE {
            chg = Chg::Relabel; // bounded growth
        }
        if node.fixed && matches!(chg, Chg::Leaf | Chg::Fresh | Chg::Wrap) {
            chg = Chg::Relabel;
        }
        let fresh = self.next_fresh;
        let call = ExpCall {
            phase,
            seen: ref_render::<F>(node),
            id: node.id,
            rec: step.rec,
            chg,
            fresh,
            new_label: node.label + 1,
            leafish: node.kids.is_empty(),
            root: path.is_empty(),
        };
        self.calls.push(call);
        let node = self.root.get_mut(path);
        match chg {
            Chg::None => {}
            Chg::Report => self.transformed = true,
            Chg::Relabel => {
                node.label += 1;
                self.transformed = true;
            }
            Chg::Leaf => {
                *node = leaf_spec::<F>(fresh);
                self.next_fresh += 1;
                self.transformed = true;
            }
            Chg::Fresh => {
                *node = fresh_spec::<F>(fresh);
                self.next_fresh += 3;
                self.transformed = true;
            }
            Chg::Wrap => {
                let old = std::mem::replace(node, leaf_spec::<F>(0));
                *node = RNode::new(F::WRAP, fresh, vec![old]);
                self.next_fresh += 1;
                self.transformed = true;
            }
        }
        step.rec
    }
}

pub fn reference<F: Family>(tree: &RNode, api: Api, dec: &[Dec]) -> RefOut {
    reference_mode::<F>(tree, api, dec, 0)
}

pub const DEV_TRAILING: u8 = 1;
pub const DEV_ABSORB: u8 = 2;

/// `deviation != 0` models behaviour recorded as known findings: DEV_TRAILING =
/// `trailing-empty-container` (a Jump returned for the last child is forgotten when the node's
/// container layout ends with an empty container), DEV_ABSORB = `subquery-jump-absorbed`. It is
/// used ONLY to decide whether a case falls under an open finding, never as the oracle.
pub fn reference_mode<F: Family>(tree: &RNode, api: Api, dec: &[Dec], deviation: u8) -> RefOut {
    let mut m: Machine<F> = Machine { root: tree.clone(), dec, mutating: api.mutating(), predicate: api == Api::Exists, calls: vec![], transformed: false, next_fresh: FRESH_BASE, _f: PhantomData };
    if api.one_level() {
        let mut last = Rec::C;
        for i in m.root.traversal() {
            last = m.call(&[i], Phase::Down);
            if last == Rec::S {
                break;
            }
        }
        if deviation & DEV_TRAILING != 0 && last == Rec::J && F::trailing_empty(m.root.kind, m.root.kids.len()) {
            last = Rec::C;
        }
        return RefOut { calls: m.calls, tree: m.root, transformed: m.transformed, rec: last };
    }
    let (down, up) = (api.has_down(), api.has_up());
    let mut stack = vec![Frame { path: vec![], entered: false, order: vec![], next: 0 }];
    let mut pending_jump = false;
    let mut stopped = false;
    while let Some(fr) = stack.last_mut() {
        if !fr.entered {
            fr.entered = true;
            // reaching the pre-order position of a node ends a jump started by an `f_up`
            pending_jump = false;
            let mut skip = false;
            if down {
                let path = fr.path.clone();
                match m.call(&path, Phase::Down) {
                    Rec::S => {
                        stopped = true;
                        break;
                    }
                    Rec::J => skip = true,
                    Rec::C => {}
                }
            }
            let fr = stack.last_mut().unwrap();
            fr.order = if skip { vec![] } else { m.root.get(&fr.path).traversal() };
        }
        let fr = stack.last_mut().unwrap();
        if fr.next < fr.order.len() {
            let mut p = fr.path.clone();
            p.push(fr.order[fr.next]);
            fr.next += 1;
            stack.push(Frame { path: p, entered: false, order: vec![], next: 0 });
            continue;
        }
        let fr = stack.pop().unwrap();
        if deviation & DEV_TRAILING != 0 && pending_jump && !fr.order.is_empty() {
            let n = m.root.get(&fr.path);
            if F::trailing_empty(n.kind, n.kids.len()) {
                pending_jump = false;
            }
        }
        if up && !pending_jump {
            match m.call(&fr.path, Phase::Up) {
                Rec::S => {
                    stopped = true;
                    break;
                }
                Rec::J => pending_jump = true,
                Rec::C => {}
            }
        }
        if deviation & DEV_ABSORB != 0 && pending_jump {
            if let (Some(parent), Some(&child)) = (stack.last_mut(), fr.path.last()) {
                let pn = m.root.get(&parent.path);
                if let Some(skips) = F::absorbs_jump(pn.kind, pn.kids.len(), child) {
                    pending_jump = false;
                    let done = parent.next;
                    let mut keep: Vec<usize> = parent.order[..done].to_vec();
                    keep.extend(parent.order[done..].iter().copied().filter(|c| !skips.contains(c)));
                    parent.order = keep;
                }
            }
        }
    }
    let rec = if stopped {
        Rec::S
    } else if pending_jump {
        Rec::J
    } else {
        Rec::C
    };
    RefOut { calls: m.calls, tree: m.root, transformed: m.transformed, rec }
}

// ---------------------------------------------------------------------------------------------
// the lock-step driver: the callbacks handed to the real API

pub struct Driver<'a, F: Family> {
    exp: &'a [ExpCall],
    pub pos: usize,
    pub diverged: Option<String>,
    pub log: Vec<String>,
    _f: PhantomData<F>,
}

#[derive(Debug)]
pub struct Actual<N> {
    pub data: Option<N>,
    pub transformed: bool,
    pub rec: TreeNodeRecursion,
    pub found: Option<bool>,
}

impl<'a, F: Family> Driver<'a, F> {
    pub fn new(exp: &'a [ExpCall]) -> Self {
        Driver { exp, pos: 0, diverged: None, log: vec![], _f: PhantomData }
    }

    fn next(&mut self, phase: Phase, n: &F::Node) -> Option<ExpCall> {
        let seen = render::<F>(n);
        self.log.push(format!("{}({seen})", if phase == Phase::Down { "down" } else { "up" }));
        if self.diverged.is_some() {
            return None;
        }
        match self.exp.get(self.pos) {
            Some(e) if e.phase == phase && e.seen == seen => {
                self.pos += 1;
                Some(e.clone())
            }
            Some(e) => {
                self.diverged = Some(format!(
                    "call #{}: the contract requires {}({}) but the traversal invoked {}({seen})",
                    self.pos,
                    if e.phase == Phase::Down { "f_down" } else { "f_up" },
                    e.seen,
                    if phase == Phase::Down { "f_down" } else { "f_up" },
                ));
                None
            }
            None => {
                self.diverged = Some(format!(
                    "call #{}: the contract requires the walk to be over, but the traversal invoked {}({seen})",
                    self.pos,
                    if phase == Phase::Down { "f_down" } else { "f_up" }
                ));
                None
            }
        }
    }

    /// callback body of the inspecting APIs
    pub fn on_ref(&mut self, phase: Phase, n: &F::Node) -> TreeNodeRecursion {
        match self.next(phase, n) {
            Some(e) => e.rec.tnr(),
            None => TreeNodeRecursion::Stop,
        }
    }

    /// callback body of the transforming APIs
    pub fn on_owned(&mut self, phase: Phase, n: F::Node) -> Transformed<F::Node> {
        let Some(e) = self.next(phase, &n) else {
            return Transformed::new(n, false, TreeNodeRecursion::Stop);
        };
        let built = |r: Result<F::Node, String>, me: &mut Self| match r {
            Ok(x) => Some(x),
            Err(m) => {
                me.diverged = Some(format!("HARNESS: cannot build replacement: {m}"));
                None
            }
        };
        let (data, t) = match e.chg {
            Chg::None => (n, false),
            Chg::Report => (n, true),
            Chg::Relabel => (F::relabel(n, e.new_label), true),
            Chg::Leaf => match built(F::build(&leaf_spec::<F>(e.fresh)), self) {
                Some(x) => (x, true),
                None => return Transformed::new(n, false, TreeNodeRecursion::Stop),
            },
            Chg::Fresh => match built(F::build(&fresh_spec::<F>(e.fresh)), self) {
                Some(x) => (x, true),
                None => return Transformed::new(n, false, TreeNodeRecursion::Stop),
            },
            Chg::Wrap => match built(F::wrap(n.clone(), e.fresh), self) {
                Some(x) => (x, true),
                None => return Transformed::new(n, false, TreeNodeRecursion::Stop),
            },
        };
        Transformed::new(data, t, e.rec.tnr())
    }
}

pub struct Vis<'d, 'a, F: Family>(pub &'d mut Driver<'a, F>);
impl<'n, F: Family> TreeNodeVisitor<'n> for Vis<'_, '_, F>
where
    F::Node: TreeNode,
{
    type Node = F::Node;
    fn f_down(&mut self, n: &'n F::Node) -> DFResult<TreeNodeRecursion> {
        Ok(self.0.on_ref(Phase::Down, n))
    }
    fn f_up(&mut self, n: &'n F::Node) -> DFResult<TreeNodeRecursion> {
        Ok(self.0.on_ref(Phase::Up, n))
    }
}

pub struct Rew<'d, 'a, F: Family>(pub &'d mut Driver<'a, F>);
impl<F: Family> TreeNodeRewriter for Rew<'_, '_, F>
where
    F::Node: TreeNode,
{
    type Node = F::Node;
    fn f_down(&mut self, n: F::Node) -> DFResult<Transformed<F::Node>> {
        Ok(self.0.on_owned(Phase::Down, n))
    }
    fn f_up(&mut self, n: F::Node) -> DFResult<Transformed<F::Node>> {
        Ok(self.0.on_owned(Phase::Up, n))
    }
}

fn of_t<N>(t: Transformed<N>) -> Actual<N> {
    Actual { data: Some(t.data), transformed: t.transformed, rec: t.tnr, found: None }
}

/// Default `Family::call` for `TreeNode` types: the public default methods of the trait.
pub fn treenode_call<F: Family>(api: Api, n: F::Node, drv: &mut Driver<F>) -> DFResult<Actual<F::Node>>
where
    F::Node: TreeNode,
{
    Ok(match api {
        Api::Apply => {
            let rec = n.apply(|c| Ok(drv.on_ref(Phase::Down, c)))?;
            Actual { data: None, transformed: false, rec, found: None }
        }
        Api::ApplyChildren => {
            let rec = n.apply_children(|c| Ok(drv.on_ref(Phase::Down, c)))?;
            Actual { data: None, transformed: false, rec, found: None }
        }
        Api::Exists => {
            let found = n.exists(|c| Ok(drv.on_ref(Phase::Down, c) == TreeNodeRecursion::Stop))?;
            Actual { data: None, transformed: false, rec: if found { TreeNodeRecursion::Stop } else { TreeNodeRecursion::Continue }, found: Some(found) }
        }
        Api::Visit => {
            let mut v = Vis(drv);
            let rec = n.visit(&mut v)?;
            Actual { data: None, transformed: false, rec, found: None }
        }
        Api::TransformDown => of_t(n.transform_down(|c| Ok(drv.on_owned(Phase::Down, c)))?),
        Api::TransformUp => of_t(n.transform_up(|c| Ok(drv.on_owned(Phase::Up, c)))?),
        Api::Transform => of_t(n.transform(|c| Ok(drv.on_owned(Phase::Up, c)))?),
        Api::TransformDownUp => {
            let cell = RefCell::new(drv);
            of_t(n.transform_down_up(|c| Ok(cell.borrow_mut().on_owned(Phase::Down, c)), |c| Ok(cell.borrow_mut().on_owned(Phase::Up, c)))?)
        }
        Api::Rewrite => {
            let mut r = Rew(drv);
            of_t(n.rewrite(&mut r)?)
        }
        Api::MapChildren => of_t(n.map_children(|c| Ok(drv.on_owned(Phase::Down, c)))?),
    })
}

// ---------------------------------------------------------------------------------------------
// one complete check

#[derive(Default, Debug)]
pub struct Info {
    pub labels: Vec<String>,
    pub calls: usize,
}

pub enum Verdict {
    Pass(Info),
    Violation(String),
    /// the builder could not construct the tree (generator problem / unsupported combination)
    Unbuildable(String),
}

/// `spec` must already be numbered. Runs alignment, the apply/map consistency check, the reference
/// and the real API in lock step, and compares call sequence, status, flag and resulting tree.
pub fn check_case<F: Family>(spec: &RNode, api: Api, dec: &[Dec], check_structure: bool) -> Verdict {
    let mut spec = spec.clone();
    let node = match F::build(&spec) {
        Ok(n) => n,
        Err(e) => return Verdict::Unbuildable(e),
    };
    if let Err(m) = align::<F>(&mut spec, &node) {
        return Verdict::Violation(format!("[{}] completeness: {m}", F::NAME));
    }
    if check_structure {
        if let Err(m) = consistency_all::<F>(&node) {
            return Verdict::Violation(format!("[{}] apply_children/map_children consistency: {m}", F::NAME));
        }
    }
    let r = reference::<F>(&spec, api, dec);
    let mut drv: Driver<F> = Driver::new(&r.calls);
    let name = F::api_name(api);
    let ctx = |drv: &Driver<F>| {
        format!(
            "\n  tree: {}\n  api: {name}\n  expected calls: {:?}\n  actual calls:   {:?}",
            ref_render::<F>(&spec),
            r.calls.iter().map(|c| format!("{}({})->{:?}/{:?}", if c.phase == Phase::Down { "down" } else { "up" }, c.seen, c.rec, c.chg)).collect::<Vec<_>>(),
            drv.log
        )
    };
    let actual = match F::call(api, node, &mut drv) {
        Ok(a) => a,
        Err(e) => {
            if let Some(d) = &drv.diverged {
                if d.starts_with("HARNESS") {
                    return Verdict::Unbuildable(d.clone());
                }
            }
            return Verdict::Violation(format!("[{}] {name} returned an error: {e}{}", F::NAME, ctx(&drv)));
        }
    };
    if let Some(d) = &drv.diverged {
        if d.starts_with("HARNESS") {
            return Verdict::Unbuildable(d.clone());
        }
        return Verdict::Violation(format!("[{}] {name} call sequence: {d}{}", F::NAME, ctx(&drv)));
    }
    if drv.pos < r.calls.len() {
        let e = &r.calls[drv.pos];
        return Verdict::Violation(format!(
            "[{}] {name} call sequence: the walk ended after {} calls but the contract requires {}({}) next{}",
            F::NAME,
            drv.pos,
            if e.phase == Phase::Down { "f_down" } else { "f_up" },
            e.seen,
            ctx(&drv)
        ));
    }
    if api == Api::Exists {
        let want = r.rec == Rec::S;
        if actual.found != Some(want) {
            return Verdict::Violation(format!("[{}] exists returned {:?}, expected {want}{}", F::NAME, actual.found, ctx(&drv)));
        }
    } else if Rec::of(actual.rec) != r.rec {
        return Verdict::Violation(format!("[{}] {name} ended with {:?}, the contract gives {:?}{}", F::NAME, actual.rec, r.rec.tnr(), ctx(&drv)));
    }
    if api.mutating() {
        if actual.transformed != r.transformed {
            return Verdict::Violation(format!(
                "[{}] {name} reports transformed={} but the callbacks reported {}{}",
                F::NAME,
                actual.transformed,
                if r.transformed { "a change" } else { "no change" },
                ctx(&drv)
            ));
        }
        let Some(data) = &actual.data else {
            return Verdict::Unbuildable("HARNESS: transforming API without data".into());
        };
        let got = render::<F>(data);
        let want = ref_render::<F>(&r.tree);
        if got != want {
            return Verdict::Violation(format!("[{}] {name} resulting tree is {got}, exactly the replacements made give {want}{}", F::NAME, ctx(&drv)));
        }
        match F::build(&r.tree) {
            Ok(exp) => {
                if !F::same(&exp, data) {
                    return Verdict::Violation(format!(
                        "[{}] {name} resulting tree renders as expected ({got}) but differs from the tree built directly from the replacements (non-child attributes lost?){}",
                        F::NAME,
                        ctx(&drv)
                    ));
                }
            }
            Err(e) => return Verdict::Unbuildable(format!("HARNESS: expected tree unbuildable: {e}")),
        }
    }
    // labels
    let mut info = Info { labels: vec![], calls: r.calls.len() };
    info.labels.push(format!("api={name}"));
    info.labels.push(format!("end={:?}", r.rec));
    let mut pending_consumed = false;
    for (i, c) in r.calls.iter().enumerate() {
        if c.rec == Rec::J && c.phase == Phase::Up && i + 1 < r.calls.len() {
            pending_consumed = true;
        }
    }
    if pending_consumed {
        info.labels.push("up-jump-then-more-calls".into());
    }
    if r.calls.iter().any(|c| c.rec == Rec::J && c.phase == Phase::Down && !c.leafish) {
        info.labels.push("down-jump-prunes-subtree".into());
    }
    for k in [Chg::Report, Chg::Relabel, Chg::Leaf, Chg::Fresh, Chg::Wrap] {
        if r.calls.iter().any(|c| c.chg == k) {
            info.labels.push(format!("chg={k:?}"));
        }
    }
    if r.calls.iter().any(|c| c.id >= FRESH_BASE) {
        info.labels.push("callback-on-fresh-node".into());
    }
    if spec.order.is_some() || {
        let mut any = false;
        spec.for_each(&mut |n, _| any |= n.order.is_some());
        any
    } {
        info.labels.push("non-natural-child-order".into());
    }
    Verdict::Pass(info)
}

/// static non-trivial rule: a Jump/Stop decision (in a phase the API uses) on a non-leaf, non-root
/// node of the original tree and — for transforming APIs — at least one replacement decision.
pub fn nontrivial(spec: &RNode, api: Api, dec: &[Dec]) -> bool {
    let mut ctl = false;
    let mut chg = false;
    spec.for_each(&mut |n, depth| {
        let d = dec_for(dec, n.id);
        let steps: Vec<Step> = [(api.has_down(), d.down), (api.has_up(), d.up)].iter().filter(|(u, _)| *u).map(|(_, s)| *s).collect();
        for s in steps {
            let inner = !n.kids.is_empty() && (depth > 0 || api.one_level());
            if s.rec != Rec::C && (inner || (api.one_level() && depth == 1)) {
                ctl = true;
            }
            if !matches!(s.chg, Chg::None) {
                chg = true;
            }
        }
    });
    if api.one_level() {
        // one level: a Jump/Stop on a child that is not the last one
        let mut c2 = false;
        let n = spec.kids.len();
        for (i, k) in spec.kids.iter().enumerate() {
            if i + 1 < n && dec_for(dec, k.id).down.rec != Rec::C {
                c2 = true;
            }
        }
        ctl = c2;
    }
    ctl && (chg || !api.mutating())
}
