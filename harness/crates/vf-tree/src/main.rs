//! vf-tree: C42 (tree traversal / rewriting contract) and C43 (configuration round trip).
mod c42a;
mod c42b;
mod c42known;
mod c42ref;

fn main() {
    vf_kit::dispatch! {
        "c42a" => c42a::C42a,
        "c42b" => c42b::C42b,
    }
}
