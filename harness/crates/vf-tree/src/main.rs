//! vf-tree: C42 (tree traversal / rewriting contract) and C43 (configuration round trip).
mod c42a;
mod c42b;
mod c42known;
mod c42ref;
mod c43a;
mod c43b;

fn main() {
    vf_kit::dispatch! {
        "c42a" => c42a::C42a,
        "c42b" => c42b::C42b,
        "c43a" => c43a::C43a,
        "c43b" => c43b::C43b,
    }
}
