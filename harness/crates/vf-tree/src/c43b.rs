//! C43 (part b) — SQL `SET k = v` / `SHOW k` / `SHOW ALL` through a `SessionContext`, including the
//! runtime options (`datafusion.runtime.*`).
//!
//! Case: a few prior `SET`s (random base configuration), then one `SET key = 'value'` under test.
//! Oracle for session options: a shadow `ConfigOptions` (cloned from the fresh context, so it starts
//! from what the session really holds) receives the same `set` calls directly:
//!  * shadow accepts  => `SET` succeeds, `SHOW key` reports exactly the text `t` the shadow reports,
//!    `SHOW ALL` equals the shadow's `entries()` on every non-runtime key, and `SET key = 't'`
//!    leaves `SHOW ALL` unchanged;
//!  * shadow rejects  => `SET` fails and `SHOW ALL` is unchanged.
//! Runtime options have no text model; for them the claims are stated on what `SHOW` reports:
//! `SET` Ok => let `t` = `SHOW key`; `SET key = 't'` succeeds and `SHOW ALL` is unchanged;
//! `SET` Err => `SHOW ALL` unchanged. `datafusion.runtime.temp_directory` is excluded from the
//! idempotence claim (its reported text is the directory DataFusion creates below the given path,
//! which is new on every set). Claim 1 for runtime keys (every reported text can be set back) is
//! checked in the `extra` sub-run on a fresh context and after each accepted set.
//! The claims are about the reported text, never about the input spelling.
//!
//! Deviations from DESIGN.md: lives in `vf-tree` (not vf-core). `SessionStateBuilder::new_from_existing`
//! (used by every runtime SET) documents that it switches the start-up-only option
//! `datafusion.catalog.create_default_catalog_and_schema` off once the default catalog exists: that
//! key is not compared after a runtime SET. `information_schema` is never switched off (SHOW needs
//! it). A SHOW that fails on a (tiny) configured memory limit is inconclusive.
//!
//! FINDINGS (genuine, open in /verif/known_findings.json; cases under /verif/regressions/C43/c43b):
//! * `failed-set-materialises-default`: the c43a finding seen through SQL.
//! * `runtime-reported-text-rejected:unlimited` (and sizes below 1K, reported as a plain number):
//!   `SHOW` reports texts for runtime options that `SET` rejects. Proposed repair:
//!   /verif/fixes/C43-runtime-reported-texts-settable.diff.
//! * `disk-option-set-resets-other-disk-options`: a SET of temp_directory / max_temp_directory_size /
//!   max_spill_merge_fan_in resets the other two (`RuntimeEnvBuilder::from_runtime_env` keeps no
//!   `disk_manager_builder`, the `with_*` setters start from `unwrap_or_default()`); no patch proposed
//!   (needs a `DiskManagerBuilder` seeded from the existing `DiskManager`).
//!
//! Sensitivity probes (tools/mutrun, quick tier; patches under harness/crates/vf-tree/probes/):
//! * p2-between-forgets-high+set-lowercases.diff, hunk 2 — `SessionContext::set_variable` lowercases
//!   the value before `ConfigOptions::set`: c43b VIOLATION after 11 evaluations ("SET
//!   datafusion.format.null = 'NULL'; SHOW reports "null" but the configuration's own text is "NULL"").
//! * see c43a.rs for the `ConfigField` level probe (Display / FromStr mismatch).
use crate::c43a::{UMBRELLA, UMBRELLA_SUBS, Val, pool, val_strategy};
use datafusion::arrow::array::{Array, StringArray};
use datafusion::common::config::ConfigOptions;
use datafusion::prelude::{SessionConfig, SessionContext};
use proptest::prelude::*;
use serde::{Deserialize, Serialize};
use serde_json::json;
use std::collections::BTreeMap;
use vf_kit::engine::*;

type Entries = BTreeMap<String, Option<String>>;

#[derive(Clone, Debug, Serialize, Deserialize)]
pub struct Case {
    pub base: Vec<(u16, Val)>,
    pub key: u16,
    pub value: Val,
    /// additionally SET every runtime option to the text SHOW reports for it (claim 1)
    #[serde(default)]
    pub sweep: bool,
}

pub const RUNTIME_KEYS: [&str; 8] = [
    "datafusion.runtime.memory_limit",
    "datafusion.runtime.max_temp_directory_size",
    "datafusion.runtime.max_spill_merge_fan_in",
    "datafusion.runtime.temp_directory",
    "datafusion.runtime.metadata_cache_limit",
    "datafusion.runtime.list_files_cache_limit",
    "datafusion.runtime.list_files_cache_ttl",
    "datafusion.runtime.file_statistics_cache_limit",
];
const TEMP_DIR_KEY: &str = "datafusion.runtime.temp_directory";
/// `SessionStateBuilder::new_from_existing` (used by every runtime `SET`) documents that it turns
/// this start-up-only option off once the default catalog exists: not compared after a runtime SET
const STARTUP_KEY: &str = "datafusion.catalog.create_default_catalog_and_schema";

/// the three options held by the `DiskManager`
const DISK: [&str; 3] = ["datafusion.runtime.temp_directory", "datafusion.runtime.max_temp_directory_size", "datafusion.runtime.max_spill_merge_fan_in"];

/// `SHOW` needs it: never switched off by the harness
#[allow(dead_code)]
const INFO_KEY: &str = "datafusion.catalog.information_schema";

fn nrm(mut e: Entries, runtime_set_done: bool) -> Entries {
    if runtime_set_done {
        e.remove(STARTUP_KEY);
    }
    e
}

pub fn session_keys() -> Vec<String> {
    ConfigOptions::new().entries().into_iter().map(|e| e.key).collect()
}

/// all keys: session options first, runtime options last (runtime keys are over-weighted by the
/// generator through `Case.key >= 0xC000`)
pub fn all_keys() -> Vec<String> {
    let mut k = session_keys();
    k.extend(RUNTIME_KEYS.iter().map(|s| s.to_string()));
    k
}

fn pick_key(keys: &[String], sel: u16) -> String {
    let nrt = RUNTIME_KEYS.len();
    let ns = keys.len() - nrt;
    if sel >= 0xC000 {
        keys[ns + pick_index((sel - 0xC000) << 2, nrt)].clone()
    } else {
        keys[pick_index(((sel as u32 * 4) / 3).min(65535) as u16, ns)].clone()
    }
}

fn val_text(v: &Val) -> String {
    match v {
        Val::Pool(i) => {
            let p = pool();
            p[pick_index(*i, p.len())].to_string()
        }
        Val::Text(s) => s.clone(),
    }
}

/// values are passed as single-quoted SQL strings; backslashes and control characters are outside
/// the domain (their treatment is the tokenizer's business, not the configuration's)
fn sql_safe(v: &str) -> bool {
    !v.chars().any(|c| c == '\\' || c.is_control())
}

/// Option values that make the queries behind SHOW allocate or spawn without bound (batch sizes,
/// partition counts, buffer capacities ...) are kept out of executed queries: SHOW is an ordinary
/// query planned and run under the session's options. Their text round trip is covered by c43a.
fn risky(key: &str, value: &str) -> bool {
    if is_runtime(key) {
        return false;
    }
    let Ok(x) = value.trim().trim_start_matches('+').parse::<f64>() else { return false };
    // a tiny parser recursion limit makes every later statement (SET / SHOW included) unparsable
    if key.ends_with("recursion_limit") && x < 32.0 {
        return true;
    }
    let bound = if ["partition", "concurrency", "parallel", "thread"].iter().any(|w| key.contains(w)) { 64.0 } else { 1024.0 };
    !(x.abs() <= bound)
}

fn quote(v: &str) -> String {
    format!("'{}'", v.replace('\'', "''"))
}

struct Sess {
    ctx: SessionContext,
    rt: tokio::runtime::Runtime,
}

enum SqlErr {
    Failed(String),
    Timeout,
}

impl Sess {
    fn new() -> Result<Sess, String> {
        let rt = tokio::runtime::Builder::new_current_thread().enable_all().build().map_err(|e| e.to_string())?;
        let ctx = SessionContext::new_with_config(SessionConfig::new().with_information_schema(true));
        Ok(Sess { ctx, rt })
    }
    fn sql(&self, q: &str) -> Result<Vec<datafusion::arrow::record_batch::RecordBatch>, SqlErr> {
        let ctx = &self.ctx;
        self.rt.block_on(async {
            match tokio::time::timeout(std::time::Duration::from_secs(30), async { ctx.sql(q).await?.collect().await }).await {
                Err(_) => Err(SqlErr::Timeout),
                // the statement itself could not be parsed under the session's parser options:
                // nothing can be said about SET / SHOW then (callers report it as inconclusive)
                Ok(Err(e)) if e.to_string().contains("RecursionLimitExceeded") => Err(SqlErr::Timeout),
                Ok(Err(e)) => Err(SqlErr::Failed(e.to_string())),
                Ok(Ok(b)) => Ok(b),
            }
        })
    }
    fn set(&self, key: &str, value: &str) -> Result<(), SqlErr> {
        self.sql(&format!("SET {key} = {}", quote(value))).map(|_| ())
    }
    fn show(&self, what: &str) -> Result<Entries, SqlErr> {
        // SHOW is an ordinary query: with extreme option values its execution may fail or panic
        // (e.g. `hash_join_buffering_capacity = usize::MAX` -> tokio semaphore MAX_PERMITS). That is
        // about query execution, not about the configuration's text round trip: reported as
        // `SqlErr::Failed("SHOW panicked ...")`, which `sqltry!` maps to inconclusive.
        let batches = match std::panic::catch_unwind(std::panic::AssertUnwindSafe(|| self.sql(&format!("SHOW {what}")))) {
            Ok(r) => r?,
            Err(_) => return Err(SqlErr::Failed("SHOW panicked under the configured options".into())),
        };
        let mut m = Entries::new();
        for b in batches {
            let (Some(names), Some(values)) = (b.column(0).as_any().downcast_ref::<StringArray>(), b.column(1).as_any().downcast_ref::<StringArray>()) else {
                return Err(SqlErr::Failed("SHOW did not return (name, value) string columns".into()));
            };
            for i in 0..b.num_rows() {
                let v = if values.is_null(i) { None } else { Some(values.value(i).to_string()) };
                if m.insert(names.value(i).to_string(), v).is_some() {
                    return Err(SqlErr::Failed(format!("SHOW lists {} twice", names.value(i))));
                }
            }
        }
        Ok(m)
    }
}

fn shadow_entries(c: &ConfigOptions) -> Entries {
    c.entries().into_iter().map(|e| (e.key, e.value)).collect()
}

fn is_runtime(k: &str) -> bool {
    k.starts_with("datafusion.runtime.")
}

fn strip(e: &Entries, masked_for: &str, drop_temp_dir: bool) -> Entries {
    let mut e = e.clone();
    if masked_for == UMBRELLA {
        for s in UMBRELLA_SUBS {
            e.remove(s);
        }
    }
    if drop_temp_dir {
        e.remove(TEMP_DIR_KEY);
    }
    e
}

fn diff(a: &Entries, b: &Entries) -> String {
    let mut out = vec![];
    for (k, v) in a {
        match b.get(k) {
            None => out.push(format!("{k}: {v:?} -> <absent>")),
            Some(w) if w != v => out.push(format!("{k}: {v:?} -> {w:?}")),
            _ => {}
        }
    }
    for (k, w) in b {
        if !a.contains_key(k) {
            out.push(format!("{k}: <absent> -> {w:?}"));
        }
    }
    truncate(&out.join("; "), 1500)
}

#[derive(Clone)]
pub struct Finding {
    pub class: String,
    pub message: String,
}

#[derive(Clone)]
pub enum Eval {
    Ok { labels: Vec<String>, nontrivial: bool },
    Finding(Finding),
    Discard(String),
    Inconclusive(String),
}

macro_rules! sqltry {
    ($e:expr, $what:expr) => {
        match $e {
            Ok(x) => x,
            Err(SqlErr::Timeout) => return Eval::Inconclusive(format!("timeout in {}", $what)),
            // a (tiny) memory limit may be part of the case: SHOW sorts its output
            Err(SqlErr::Failed(m)) if m.contains("SHOW panicked") => return Eval::Inconclusive(format!("{}: the query panicked under the configured option values", $what)),
            Err(SqlErr::Failed(m)) if m.contains("Resources exhausted") || m.contains("Failed to allocate") => return Eval::Inconclusive(format!("{} hit the configured memory limit", $what)),
            Err(SqlErr::Failed(m)) => return Eval::Finding(Finding { class: format!("show-failed"), message: format!("{} failed: {m}", $what) }),
        }
    };
}

/// every text `SHOW ALL` reports for a runtime key can be SET back without changing `SHOW ALL`
fn runtime_sweep(s: &Sess) -> Eval {
    let mut before = nrm(sqltry!(s.show("ALL"), "SHOW ALL"), true);
    for k in RUNTIME_KEYS {
        if k == TEMP_DIR_KEY {
            continue;
        }
        let Some(Some(t)) = before.get(k) else { continue };
        match s.set(k, t) {
            Err(SqlErr::Timeout) => return Eval::Inconclusive("SET timed out or could not be parsed under the session's parser options".into()),
            Err(SqlErr::Failed(e)) => {
                return Eval::Finding(Finding { class: format!("runtime-reported-text-rejected:{}", shape_of(t)), message: format!("SHOW reports {k} = {t:?} but SET {k} = {} fails: {}", quote(t), truncate(&e, 300)) });
            }
            Ok(()) => {}
        }
        let after = nrm(sqltry!(s.show("ALL"), "SHOW ALL"), true);
        if strip(&after, "", true) != strip(&before, "", true) {
            let (b, a) = (strip(&before, "", true), strip(&after, "", true));
            let changed: Vec<&String> = b.keys().chain(a.keys()).filter(|x| b.get(*x) != a.get(*x)).collect();
            // same normalised class as in `evaluate`: the disk-manager options reset one another
            let class = if DISK.contains(&k) && changed.iter().all(|x| DISK.contains(&x.as_str())) { "disk-option-set-resets-other-disk-options".to_string() } else { format!("reported-text-not-idempotent:{k}") };
            return Eval::Finding(Finding { class, message: format!("SET {k} = {} (the reported text) changed SHOW ALL: {}", quote(t), diff(&b, &a)) });
        }
        before = after;
    }
    Eval::Ok { labels: vec![], nontrivial: false }
}

/// shape of a reported runtime text: digits collapsed ("512" -> "N", "1M" -> "NM", "unlimited")
fn shape_of(t: &str) -> String {
    let mut out = String::new();
    let mut in_num = false;
    for c in t.chars() {
        if c.is_ascii_digit() {
            if !in_num {
                out.push('N');
            }
            in_num = true;
        } else {
            in_num = false;
            out.push(c);
        }
    }
    out
}

pub fn evaluate(case: &Case, with_runtime_sweep: bool) -> Eval {
    let keys = all_keys();
    let key = pick_key(&keys, case.key);
    let value = val_text(&case.value);
    if !sql_safe(&value) {
        return Eval::Discard("value outside the SQL-literal domain (backslash / control character)".into());
    }
    if risky(&key, &value) {
        return Eval::Discard("huge numeric value for a session option: kept out of executed queries (text round trip covered by c43a)".into());
    }
    let s = match Sess::new() {
        Ok(s) => s,
        Err(e) => return Eval::Inconclusive(format!("no runtime: {e}")),
    };
    let mut shadow: ConfigOptions = s.ctx.state().config().options().as_ref().clone();
    let defaults = shadow_entries(&shadow);
    let mut applied = 0;
    let mut rt = false; // a runtime SET has been executed
    for (k, v) in &case.base {
        let k = pick_key(&keys, *k);
        let v = val_text(v);
        if !sql_safe(&v) || k == TEMP_DIR_KEY || risky(&k, &v) {
            continue;
        }
        if is_runtime(&k) {
            if s.set(&k, &v).is_ok() {
                applied += 1;
                rt = true;
            }
        } else {
            // keep session and shadow in step: apply only what the shadow accepts (a rejected set
            // is claim 3's business when it is the set under test)
            let mut probe = shadow.clone();
            if probe.set(&k, &v).is_ok() {
                if !probe.catalog.information_schema {
                    continue;
                }
                match s.set(&k, &v) {
                    Ok(()) => {
                        shadow = probe;
                        applied += 1;
                    }
                    Err(SqlErr::Timeout) => return Eval::Inconclusive("SET timed out or could not be parsed under the session's parser options".into()),
                    Err(SqlErr::Failed(e)) => {
                        return Eval::Finding(Finding { class: format!("sql-set-rejects-valid:{k}"), message: format!("ConfigOptions::set({k:?}, {v:?}) succeeds but SET {k} = {} fails: {}", quote(&v), truncate(&e, 300)) });
                    }
                }
            }
        }
    }
    if rt && key == STARTUP_KEY {
        return Eval::Discard("start-up-only option after a runtime SET".into());
    }
    if is_runtime(&key) {
        rt = true;
    }
    let before = nrm(sqltry!(s.show("ALL"), "SHOW ALL"), rt);
    let mut labels = vec![format!("base-sets={}", applied.min(3)), if is_runtime(&key) { "runtime-key".to_string() } else { "session-key".to_string() }];
    let mut nontrivial = false;
    // the session's report must agree with the shadow before the set under test
    let sh = nrm(shadow_entries(&shadow), rt);
    for (k, v) in &sh {
        if before.get(k) != Some(v) {
            return Eval::Finding(Finding { class: "show-disagrees-with-entries".into(), message: format!("before the set under test SHOW ALL reports {k} = {:?}, ConfigOptions::entries() {v:?}", before.get(k)) });
        }
    }
    if is_runtime(&key) {
        let dir;
        let value = if key == TEMP_DIR_KEY {
            // a private directory per case
            dir = match tempfile::tempdir() {
                Ok(d) => d,
                Err(e) => return Eval::Inconclusive(format!("tempdir: {e}")),
            };
            dir.path().join("t").display().to_string()
        } else {
            value
        };
        match s.set(&key, &value) {
            Err(SqlErr::Timeout) => return Eval::Inconclusive("SET timed out or could not be parsed under the session's parser options".into()),
            Err(SqlErr::Failed(_)) => {
                labels.push("rejected".into());
                let after = nrm(sqltry!(s.show("ALL"), "SHOW ALL"), rt);
                if after != before {
                    return Eval::Finding(Finding { class: "failed-set-changes-options".into(), message: format!("SET {key} = {} failed but changed SHOW ALL: {}", quote(&value), diff(&before, &after)) });
                }
            }
            Ok(()) => {
                labels.push("accepted".into());
                let after = nrm(sqltry!(s.show("ALL"), "SHOW ALL"), rt);
                let one = sqltry!(s.show(&key), "SHOW key");
                if one.get(&key) != after.get(&key) || one.len() != 1 {
                    return Eval::Finding(Finding { class: "show-key-disagrees-with-show-all".into(), message: format!("SHOW {key} gives {one:?}, SHOW ALL {:?}", after.get(&key)) });
                }
                // nothing but the key itself may change in the session options
                let others = |e: &Entries| -> Entries { e.iter().filter(|(k, _)| **k != key).map(|(k, v)| (k.clone(), v.clone())).collect() };
                if others(&after) != others(&before) {
                    // normalised class: the three disk-manager options reset one another
                    let (b, a) = (others(&before), others(&after));
                    let changed: Vec<&String> = b.keys().chain(a.keys()).filter(|k| b.get(*k) != a.get(*k)).collect();
                    let class = if DISK.contains(&key.as_str()) && changed.iter().all(|k| DISK.contains(&k.as_str())) { "disk-option-set-resets-other-disk-options" } else { "runtime-set-changes-other-options" };
                    return Eval::Finding(Finding { class: class.into(), message: format!("SET {key} changed other options: {}", diff(&b, &a)) });
                }
                if key != TEMP_DIR_KEY {
                    if let Some(Some(t)) = after.get(&key) {
                        if before.get(&key) != after.get(&key) {
                            nontrivial = true;
                            labels.push("non-default".into());
                        }
                        if t != &value {
                            labels.push("normalised-spelling".into());
                        }
                        match s.set(&key, t) {
                            Err(SqlErr::Timeout) => return Eval::Inconclusive("SET timed out or could not be parsed under the session's parser options".into()),
                            Err(SqlErr::Failed(e)) => {
                                return Eval::Finding(Finding {
                                    class: format!("runtime-reported-text-rejected:{}", shape_of(t)),
                                    message: format!("after SET {key} = {} SHOW reports {t:?}, which SET rejects: {}", quote(&value), truncate(&e, 300)),
                                });
                            }
                            Ok(()) => {}
                        }
                        let again = nrm(sqltry!(s.show("ALL"), "SHOW ALL"), rt);
                        if strip(&again, "", true) != strip(&after, "", true) {
                            return Eval::Finding(Finding {
                                class: format!("reported-text-not-idempotent:{key}"),
                                message: format!("after SET {key} = {} SHOW reports {t:?}; setting that text changes SHOW ALL: {}", quote(&value), diff(&strip(&after, "", true), &strip(&again, "", true))),
                            });
                        }
                    }
                } else {
                    labels.push("temp-directory".into());
                    match after.get(&key) {
                        Some(Some(t)) if t.starts_with(&value) => {}
                        other => {
                            return Eval::Finding(Finding { class: "temp-directory-not-under-path".into(), message: format!("SET {key} = {} then SHOW reports {other:?}", quote(&value)) });
                        }
                    }
                }
            }
        }
    } else {
        let mut probe = shadow.clone();
        match probe.set(&key, &value) {
            Err(_) => {
                labels.push("rejected".into());
                match s.set(&key, &value) {
                    Err(SqlErr::Timeout) => return Eval::Inconclusive("SET timed out or could not be parsed under the session's parser options".into()),
                    Ok(()) => {
                        return Eval::Finding(Finding { class: format!("sql-set-accepts-invalid:{key}"), message: format!("ConfigOptions::set({key:?}, {value:?}) fails but SET {key} = {} succeeds", quote(&value)) });
                    }
                    Err(SqlErr::Failed(_)) => {}
                }
                let after = nrm(sqltry!(s.show("ALL"), "SHOW ALL"), rt);
                if after != before {
                    let class = if before.get(&key) == Some(&None) && after.get(&key).map(|v| v.is_some()).unwrap_or(false) { "failed-set-materialises-default" } else { "failed-set-changes-options" };
                    return Eval::Finding(Finding { class: class.into(), message: format!("SET {key} = {} failed but changed SHOW ALL: {}", quote(&value), diff(&before, &after)) });
                }
            }
            Ok(()) => {
                if !probe.catalog.information_schema {
                    return Eval::Discard("SHOW is unavailable once information_schema is switched off".into());
                }
                labels.push("accepted".into());
                match s.set(&key, &value) {
                    Err(SqlErr::Timeout) => return Eval::Inconclusive("SET timed out or could not be parsed under the session's parser options".into()),
                    Err(SqlErr::Failed(e)) => {
                        return Eval::Finding(Finding { class: format!("sql-set-rejects-valid:{key}"), message: format!("ConfigOptions::set({key:?}, {value:?}) succeeds but SET {key} = {} fails: {}", quote(&value), truncate(&e, 300)) });
                    }
                    Ok(()) => {}
                }
                let want = nrm(shadow_entries(&probe), rt);
                let after = nrm(sqltry!(s.show("ALL"), "SHOW ALL"), rt);
                let one = sqltry!(s.show(&key), "SHOW key");
                let t = want.get(&key).cloned().flatten();
                if one.len() != 1 || one.get(&key).cloned().flatten() != t {
                    return Eval::Finding(Finding {
                        class: format!("show-disagrees-with-entries:{key}"),
                        message: format!("SET {key} = {}; SHOW {key} reports {one:?} but the configuration's own text is {t:?}", quote(&value)),
                    });
                }
                for (k, v) in &want {
                    if after.get(k) != Some(v) {
                        return Eval::Finding(Finding {
                            class: "show-disagrees-with-entries".into(),
                            message: format!("after SET {key} = {} SHOW ALL reports {k} = {:?}, ConfigOptions::entries() {v:?}", quote(&value), after.get(k)),
                        });
                    }
                }
                // runtime part of SHOW ALL untouched
                for k in RUNTIME_KEYS {
                    if after.get(k) != before.get(k) {
                        return Eval::Finding(Finding { class: "session-set-changes-runtime-option".into(), message: format!("SET {key} changed {k}: {:?} -> {:?}", before.get(k), after.get(k)) });
                    }
                }
                if let Some(t) = &t {
                    if Some(t) != defaults.get(&key).cloned().flatten().as_ref() {
                        labels.push("non-default".into());
                        if !matches!(t.as_str(), "true" | "false") {
                            nontrivial = true;
                        }
                    }
                    if t != &value {
                        labels.push("normalised-spelling".into());
                    }
                    if sql_safe(t) {
                        match s.set(&key, t) {
                            Err(SqlErr::Timeout) => return Eval::Inconclusive("SET timed out or could not be parsed under the session's parser options".into()),
                            Err(SqlErr::Failed(e)) => {
                                return Eval::Finding(Finding { class: format!("reported-text-rejected:{key}"), message: format!("after SET {key} = {} SHOW reports {t:?}, which SET rejects: {}", quote(&value), truncate(&e, 300)) });
                            }
                            Ok(()) => {}
                        }
                        let again = nrm(sqltry!(s.show("ALL"), "SHOW ALL"), rt);
                        if strip(&again, &key, false) != strip(&after, &key, false) {
                            return Eval::Finding(Finding {
                                class: format!("reported-text-not-idempotent:{key}"),
                                message: format!("after SET {key} = {} SHOW reports {t:?}; setting that text changes SHOW ALL: {}", quote(&value), diff(&strip(&after, &key, false), &strip(&again, &key, false))),
                            });
                        }
                    }
                }
            }
        }
    }
    if with_runtime_sweep || case.sweep {
        match runtime_sweep(&s) {
            Eval::Ok { .. } => labels.push("runtime-sweep".into()),
            other => return other,
        }
    }
    let ns: Vec<&str> = key.split('.').collect();
    labels.push(format!("ns={}", ns.iter().take(2).cloned().collect::<Vec<_>>().join(".")));
    Eval::Ok { labels, nontrivial }
}

pub struct C43b;

impl Property for C43b {
    type Case = Case;
    fn id(&self) -> &'static str {
        "C43"
    }
    fn sub(&self) -> &'static str {
        "c43b"
    }
    fn strategy(&self, tier: Tier) -> BoxedStrategy<Case> {
        let base = prop::collection::vec((any::<u16>(), val_strategy()), 0..tier.pick(3, 8));
        (base, any::<u16>(), val_strategy(), prop::bool::weighted(0.03)).prop_map(|(base, key, value, sweep)| Case { base, key, value, sweep }).boxed()
    }
    fn budget(&self, tier: Tier) -> Budget {
        Budget::new(tier.pick(2_500, 100_000), tier.pick(8, 16)).min_nontrivial(tier.pick(150, 5_000)).case_timeout(180).shrink(150, 60)
    }
    fn rule(&self) -> String {
        "fresh SessionContext (information_schema on) x 0-2 (thorough 0-7) prior SETs x one `SET key = 'value'` with key drawn from all session keys (3/4) or the 8 runtime keys (1/4) and the value from \
         the c43a pool or a generated string, cross-checked against a shadow ConfigOptions (session keys) / against the text SHOW reports (runtime keys); non-trivial = accepted, reported text differs \
         from the default, option is not a bool; distinct by case JSON. extra: every key x a value sample on a fresh context (exhaustive over keys) and the runtime sweep"
            .into()
    }
    fn assumptions(&self) -> Vec<String> {
        vec![
            "values are passed as single-quoted SQL literals without backslashes / control characters".into(),
            "datafusion.runtime.temp_directory reports the directory created below the configured path (new on every SET): excluded from the idempotence claim".into(),
            "the three sub-switches of datafusion.optimizer.enable_dynamic_filter_pushdown are masked for that key only".into(),
        ]
    }
    fn known_signature(&self, case: &Case) -> Option<String> {
        // STATIC (the engine calls this outside its watchdog and panic guard, so nothing is executed
        // here): the open finding `disk-option-set-resets-other-disk-options` can only show when the
        // case sets two of the three disk-manager options, or sets one and then runs the sweep
        // (which sets every runtime option to its reported text). Slightly conservative.
        let keys = all_keys();
        let disk = |sel: u16| DISK.contains(&pick_key(&keys, sel).as_str());
        let touches = case.base.iter().filter(|(k, _)| disk(*k)).count() + disk(case.key) as usize;
        if touches >= 2 || (case.sweep && touches >= 1) { Some("disk-option-set-resets-other-disk-options".into()) } else { None }
    }
    fn run(&self, case: &Case) -> CaseResult {
        match evaluate(case, false) {
            Eval::Ok { labels, nontrivial } => CaseResult::pass().nontrivial(nontrivial).labels(labels),
            Eval::Finding(f) => CaseResult::violation(format!("[{}] {}", f.class, f.message)).label(format!("class={}", f.class)),
            Eval::Discard(m) => CaseResult::discard(m),
            Eval::Inconclusive(m) => CaseResult::inconclusive(m),
        }
    }
    fn extra(&self, tier: Tier, _seed: u64) -> Result<serde_json::Value, (String, Case)> {
        // every key (session + runtime) x every `step`-th pool value, fresh context each, with the runtime sweep
        let keys = all_keys();
        let p = pool();
        let step = tier.pick(61, 5);
        let rt_step = tier.pick(3, 1);
        let nrt = RUNTIME_KEYS.len();
        let ns = keys.len() - nrt;
        let mut work: Vec<Case> = vec![];
        for ki in 0..keys.len() {
            let sel = if ki < ns {
                // inverse of pick_key for session keys
                let mut sel = 0u16;
                for c in 0..0xC000u32 {
                    if pick_key(&keys, c as u16) == keys[ki] {
                        sel = c as u16;
                        break;
                    }
                }
                sel
            } else {
                let mut sel = 0xC000u16;
                for c in 0xC000u32..=0xFFFF {
                    if pick_key(&keys, c as u16) == keys[ki] {
                        sel = c as u16;
                        break;
                    }
                }
                sel
            };
            if pick_key(&keys, sel) != keys[ki] {
                return Err((format!("HARNESS: no selector for key {}", keys[ki]), Case { base: vec![], key: 0, value: Val::Pool(0), sweep: false }));
            }
            let dense = ki >= ns; // runtime keys get (nearly) every pool value
            for vi in (0..p.len()).filter(|vi| if dense { (vi + ki) % rt_step == 0 } else { (vi + ki) % step == 0 }) {
                work.push(Case { base: vec![], key: sel, value: Val::Pool(crate::c43a::pool_selector(vi, p.len())), sweep: true });
            }
        }
        let threads = tier.pick(8, 16);
        let chunk = work.len().div_ceil(threads).max(1);
        let results: Vec<Result<(u64, BTreeMap<String, u64>), (String, Case)>> = std::thread::scope(|sc| {
            let hs: Vec<_> = work
                .chunks(chunk)
                .map(|part| {
                    sc.spawn(move || {
                        let mut n = 0u64;
                        let mut known = BTreeMap::<String, u64>::new();
                        for c in part {
                            n += 1;
                            match evaluate(c, true) {
                                Eval::Finding(f) => {
                                    if crate::c42known::is_open("C43", &f.class) {
                                        *known.entry(f.class).or_default() += 1;
                                    } else {
                                        return Err((format!("[{}] {}", f.class, f.message), c.clone()));
                                    }
                                }
                                _ => {}
                            }
                        }
                        Ok((n, known))
                    })
                })
                .collect();
            hs.into_iter().map(|h| h.join().unwrap_or_else(|_| Err(("extra sub-run panicked".into(), Case { base: vec![], key: 0, value: Val::Pool(0), sweep: false })))).collect()
        });
        let mut n = 0;
        let mut known = BTreeMap::<String, u64>::new();
        for r in results {
            let (a, k) = r?;
            n += a;
            for (c, v) in k {
                *known.entry(c).or_default() += v;
            }
        }
        Ok(json!({
            "all_keys_subrun": {
                "exhaustive": true,
                "what": format!("every session key x every {step}-th pool value and every runtime key x every {rt_step}-th pool value, each on a fresh SessionContext, followed by the runtime sweep (every reported runtime text SET back)"),
                "keys": keys.len(),
                "runtime_keys": nrt,
                "cases": n,
                "outcomes_matching_open_known_findings": known,
            }
        }))
    }
}
