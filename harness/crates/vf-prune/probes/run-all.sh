#!/bin/bash
# run inside mutrun with all-fixes-plus-env-guarded-probes.diff applied
cd /verif
echo "##### fixes: regression cases must pass"
for f in regressions/C22/c22/*.json; do ./check C22 --replay $f 2>&1 | grep -E "^replay|VIOLATION" | cut -c1-200; done
for f in regressions/C23/c23/*.json; do ./check C23 --replay $f 2>&1 | grep -E "^replay|VIOLATION" | cut -c1-200; done
echo "##### fixes: quick runs must exit 0"
for s in 0 1; do VERIF_SEED=$s ./check C22 quick 2>&1 | grep -E "quick:|VIOLATION|^FAIL|no longer" | cut -c1-400; echo "C22 seed $s exit=${PIPESTATUS[0]}"; done
for s in 0 1; do VERIF_SEED=$s ./check C23 quick 2>&1 | grep -E "quick:|VIOLATION|^FAIL|no longer" | cut -c1-400; echo "C23 seed $s exit=${PIPESTATUS[0]}"; done
echo "##### probes: each must give a VIOLATION"
VF_PROBE=c22p1 ./check C22 quick 2>&1 | grep -E "quick:|VIOLATION|^FAIL" | cut -c1-500; echo "c22p1 exit=${PIPESTATUS[0]}"
for p in c23p1 c23p2 c23p3; do VF_PROBE=$p ./check C23 quick 2>&1 | grep -E "quick:|VIOLATION|^FAIL" | cut -c1-500; echo "$p exit=${PIPESTATUS[0]}"; done
echo "##### done"
