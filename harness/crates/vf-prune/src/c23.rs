//! C23 — interval arithmetic and constraint propagation are sound (containment only, never tightness).
//!
//! Three kinds of cases (one enum, plain data):
//! * `Op`   — `apply_operator` / `Interval::{add,sub,mul,div,gt,..,equal,and,or,not,intersect,union,contains,
//!            contains_value,arithmetic_negate}` and `NullableInterval::apply_operator` on two intervals of one
//!            type out of {Int8..Int64, UInt8..UInt64, Float32/64, Date32/64, Timestamp(s|ns), Duration(s|ns),
//!            Decimal128(10,2)} with endpoints from {unbounded, MIN, MAX, 0, ±1, small, random, MIN+k, MAX-k,
//!            float specials (-0.0, tiny, huge)}. Concrete values: the **exhaustive grid** for Int8/UInt8,
//!            endpoints / neighbours / zero / ±1 / pseudo-random interior points (from seeds in the case) for
//!            wider types. Concrete results are computed here in i128 (integers, temporal, decimal) or in the
//!            native float type (f64; f32 for Float32), round-to-nearest.
//! * `Cast` — `Interval::cast_to(type, CastOptions{safe})`; the concrete cast is the engine's own scalar cast
//!            (`ScalarValue::cast_to`, safe: NULL = not representable = exempt).
//! * `Expr` — a boolean tree (comparisons of arithmetic trees over 1–3 columns of one numeric type, joined by
//!            AND; casts inserted by construction so the tree is well typed) with column ranges:
//!            `ExprIntervalGraph::{evaluate_bounds, update_ranges}` (given TRUE, sometimes FALSE) and
//!            `analysis::analyze` (only when `check_support` accepts the expression, as real callers do).
//!
//! Oracle (soundness only): for every sampled pair the result interval contains op(x, y) whenever that value
//! is representable in the result type (integer overflow, division by zero, NaN are exempt; comparisons of
//! +0.0 with -0.0 are exempt because the engine's total order and IEEE disagree on them); comparison /
//! boolean results contain the actual truth value; `intersect = None` ⇒ no common sampled point, otherwise
//! every common point is inside; `union` ⊇ both; `contains` TRUE ⇒ all samples inside, FALSE ⇒ none;
//! `evaluate_bounds` contains the value of the expression for every sampled assignment whose evaluation is
//! representable at every node; after `update_ranges`/`analyze`: Success ⇒ every sampled assignment that
//! satisfies the constraint (all nodes representable; for floats: every operation exact, i.e. its real result
//! is representable — absorption like 1.7e38f + 1.0f == 1.7e38f is exempt) still lies inside the new ranges, Infeasible ⇒ no
//! sampled assignment satisfies it. The first assignments of an `Expr` case are also evaluated by the
//! engine's own `PhysicalExpr::evaluate`; a disagreement with the model is `inconclusive`, not a violation.
//!
//! Deviations from DESIGN.md §C23: lives in crate vf-prune; OR / NOT are not generated at expression level
//! (`check_support` rejects them, `propagate_constraints` answers NotImplemented for TRUE OR); Decimal division
//! is not generated (result scale rules are the subject of C34/C47).
//!
//! Genuine defects found on the unchanged tree (minimal cases under /verif/regressions/C23/c23/, open entries in
//! /verif/known_findings.json, signatures in `known_sig`; candidate repairs /verif/fixes/C23-*.diff where small):
//! 1. `mul-both-contain-zero-overflow` — Int8 [-2,127] * [0,2] = [-4,0] (overflowed corner dropped).       fix: yes
//! 2. `int-div-upper-zero` — Int8 [5,10] / [-5,0] = [NULL,-2], missing -1 (zero_point trick for integers). fix: no
//! 3. `int-div-expr` — propagation inverts truncating division: `c0 / 2 = 3`, c0 in [0,10] -> [6,6].         fix: no
//! 4. `int-mul-expr` — propagation divides by an interval with 0 as an endpoint: `c0 + c0 <= -1 * c0`,
//!    c0 in [0,32767] -> Infeasible although c0 = 0 satisfies it.                                            fix: no
//! 5. `lossy-cast-propagation` — `CAST(c0 AS Int32) = 3`, c0 in [0.0,4.0] -> [3,3] (3.5 lost).              fix: no
//! 6. `ts-minus-duration-overflow-sign` — Timestamp [NULL,MAX] - Duration [-1,NULL] = [NULL,MIN].          fix: yes
//! 7. `given-false` — update_ranges(.., FALSE): `=`/uncertain parents -> Infeasible; > >= < <= swap children. fix: yes
//! 8. `nullable-distinct-maybenull-notnull` — ([0,0] U {NULL}) IS DISTINCT FROM [0,0] = certainly FALSE.     fix: yes
//! Observed but NOT a contradiction of the property statement (not a known finding; the shape is not generated):
//! `Interval::mul` of two Decimal128(10,2) intervals with an unbounded side takes `dt` = the operand type, so the
//! unbounded (NULL) endpoint is typed Decimal128(10,2) while the computed one is Decimal128(21,4); the debug
//! assertion in `Interval::data_type` panics (release builds return an interval with mixed endpoint types).
//! Status after the fix series in /repo: 1, 6, 7, 8 are `fixed` (plain regressions, pass; `given FALSE` cases, overflowing
//! multiplications, timestamp - duration and nullable IS DISTINCT FROM are back in play); 2-5 stay open. Open
//! signatures are answered before fixed ones (`c22::pick_signature`).
//! Not a defect (oracle corrected, see `fp_exact`): float absorption (1.7e38f + 1.0f == 1.7e38f) makes exact
//! inversion impossible; only assignments whose float evaluation is exact are claimed to survive propagation.
//!
//! Sensitivity probes: see PROBES at the end of this header (patches in crates/vf-prune/probes/).
//! PROBES (env-guarded mutations `VF_PROBE=<name>` inside probes/all-fixes-plus-env-guarded-probes.diff, which also
//! carries the eight candidate repairs; runner probes/run-all.sh; log probes/run-all-log.txt):
//! * c23p1 — `mul_helper_zero_exclusive` (both positive) takes lhs.lower * rhs.upper as the upper bound (wrong corner)
//! * c23p2 — `satisfy_greater` strict case advances the new lower bound by two (off by one)
//! * c23p3 — `Interval::gt` decides certainly-FALSE on `self.lower <= rhs.lower`
//! Verdicts (probes/run-all-log.txt): c23p1 -> VIOLATION after 286 cases (U8 [0,NULL] * [0,1] = [0,0] misses 1*1);
//! c23p2 -> VIOLATION after 184 cases (update_ranges dropped a satisfying assignment); c23p3 -> VIOLATION after 14
//! cases (evaluate_bounds = FALSE although the predicate is true). With the four candidate repairs applied the
//! corresponding regression cases pass and `./check C23 quick` exits 0 (seeds 0, 1).
use std::sync::Arc;

use arrow::array::ArrayRef;
use arrow::compute::CastOptions;
use arrow::datatypes::{DataType, Field, Schema, SchemaRef, TimeUnit};
use arrow::record_batch::RecordBatch;
use arrow::util::display::FormatOptions;
use datafusion_common::ScalarValue;
use datafusion_expr::Operator;
use datafusion_expr_common::interval_arithmetic::{Interval, NullableInterval, apply_operator};
use datafusion_physical_expr::analysis::{AnalysisContext, ExprBoundaries, analyze};
use datafusion_physical_expr::expressions::{BinaryExpr, CastExpr, Column, Literal, NegativeExpr};
use datafusion_physical_expr::intervals::cp_solver::{ExprIntervalGraph, PropagationResult};
use datafusion_physical_expr::intervals::utils::check_support;
use datafusion_physical_expr::PhysicalExpr;
use proptest::prelude::*;
use serde::{Deserialize, Serialize};
use serde_json::json;
use vf_kit::engine::*;

pub struct C23;

// ---------------------------------------------------------------------------------------------
// numeric types

#[derive(Clone, Copy, Debug, PartialEq, Eq, Serialize, Deserialize)]
pub enum NT {
    I8,
    I16,
    I32,
    I64,
    U8,
    U16,
    U32,
    U64,
    F32,
    F64,
    Date32,
    Date64,
    TsS,
    TsNs,
    DurS,
    DurNs,
    Dec102,
}

const ALL_NT: [NT; 17] = [
    NT::I8,
    NT::I16,
    NT::I32,
    NT::I64,
    NT::U8,
    NT::U16,
    NT::U32,
    NT::U64,
    NT::F32,
    NT::F64,
    NT::Date32,
    NT::Date64,
    NT::TsS,
    NT::TsNs,
    NT::DurS,
    NT::DurNs,
    NT::Dec102,
];
/// types usable as column types at expression level (`is_datatype_supported`)
const EXPR_NT: [NT; 10] = [NT::I8, NT::I16, NT::I32, NT::I64, NT::U8, NT::U16, NT::U32, NT::U64, NT::F32, NT::F64];

#[derive(Clone, Copy, Debug, PartialEq)]
pub enum Num {
    I(i128),
    F(f64),
}

impl NT {
    fn data_type(self) -> DataType {
        match self {
            NT::I8 => DataType::Int8,
            NT::I16 => DataType::Int16,
            NT::I32 => DataType::Int32,
            NT::I64 => DataType::Int64,
            NT::U8 => DataType::UInt8,
            NT::U16 => DataType::UInt16,
            NT::U32 => DataType::UInt32,
            NT::U64 => DataType::UInt64,
            NT::F32 => DataType::Float32,
            NT::F64 => DataType::Float64,
            NT::Date32 => DataType::Date32,
            NT::Date64 => DataType::Date64,
            NT::TsS => DataType::Timestamp(TimeUnit::Second, None),
            NT::TsNs => DataType::Timestamp(TimeUnit::Nanosecond, None),
            NT::DurS => DataType::Duration(TimeUnit::Second),
            NT::DurNs => DataType::Duration(TimeUnit::Nanosecond),
            NT::Dec102 => DataType::Decimal128(10, 2),
        }
    }
    fn is_float(self) -> bool {
        matches!(self, NT::F32 | NT::F64)
    }
    fn is_unsigned(self) -> bool {
        matches!(self, NT::U8 | NT::U16 | NT::U32 | NT::U64)
    }
    fn is_plain_int(self) -> bool {
        matches!(self, NT::I8 | NT::I16 | NT::I32 | NT::I64 | NT::U8 | NT::U16 | NT::U32 | NT::U64)
    }
    /// inclusive integer range of the physical representation (None for floats)
    fn range(self) -> Option<(i128, i128)> {
        Some(match self {
            NT::I8 => (i8::MIN as i128, i8::MAX as i128),
            NT::I16 => (i16::MIN as i128, i16::MAX as i128),
            NT::I32 | NT::Date32 => (i32::MIN as i128, i32::MAX as i128),
            NT::I64 | NT::Date64 | NT::TsS | NT::TsNs | NT::DurS | NT::DurNs => (i64::MIN as i128, i64::MAX as i128),
            NT::U8 => (0, u8::MAX as i128),
            NT::U16 => (0, u16::MAX as i128),
            NT::U32 => (0, u32::MAX as i128),
            NT::U64 => (0, u64::MAX as i128),
            NT::Dec102 => (-9_999_999_999, 9_999_999_999),
            NT::F32 | NT::F64 => return None,
        })
    }
    fn sv(self, v: Option<Num>) -> ScalarValue {
        let i = |v: Option<Num>| -> Option<i128> {
            match v {
                None => None,
                Some(Num::I(x)) => Some(x),
                Some(Num::F(x)) => panic!("float {x} for integer type"),
            }
        };
        let f = |v: Option<Num>| -> Option<f64> {
            match v {
                None => None,
                Some(Num::F(x)) => Some(x),
                Some(Num::I(x)) => panic!("int {x} for float type"),
            }
        };
        match self {
            NT::I8 => ScalarValue::Int8(i(v).map(|x| x as i8)),
            NT::I16 => ScalarValue::Int16(i(v).map(|x| x as i16)),
            NT::I32 => ScalarValue::Int32(i(v).map(|x| x as i32)),
            NT::I64 => ScalarValue::Int64(i(v).map(|x| x as i64)),
            NT::U8 => ScalarValue::UInt8(i(v).map(|x| x as u8)),
            NT::U16 => ScalarValue::UInt16(i(v).map(|x| x as u16)),
            NT::U32 => ScalarValue::UInt32(i(v).map(|x| x as u32)),
            NT::U64 => ScalarValue::UInt64(i(v).map(|x| x as u64)),
            NT::F32 => ScalarValue::Float32(f(v).map(|x| x as f32)),
            NT::F64 => ScalarValue::Float64(f(v)),
            NT::Date32 => ScalarValue::Date32(i(v).map(|x| x as i32)),
            NT::Date64 => ScalarValue::Date64(i(v).map(|x| x as i64)),
            NT::TsS => ScalarValue::TimestampSecond(i(v).map(|x| x as i64), None),
            NT::TsNs => ScalarValue::TimestampNanosecond(i(v).map(|x| x as i64), None),
            NT::DurS => ScalarValue::DurationSecond(i(v).map(|x| x as i64)),
            NT::DurNs => ScalarValue::DurationNanosecond(i(v).map(|x| x as i64)),
            NT::Dec102 => ScalarValue::Decimal128(i(v), 10, 2),
        }
    }
}

/// numeric content of a scalar: Ok(None) = NULL, Err = a type this module does not model
fn sv_num(s: &ScalarValue) -> Result<Option<Num>, String> {
    use ScalarValue::*;
    Ok(match s {
        Int8(v) => v.map(|x| Num::I(x as i128)),
        Int16(v) => v.map(|x| Num::I(x as i128)),
        Int32(v) | Date32(v) => v.map(|x| Num::I(x as i128)),
        Int64(v) | Date64(v) | DurationSecond(v) | DurationMillisecond(v) | DurationMicrosecond(v) | DurationNanosecond(v) => v.map(|x| Num::I(x as i128)),
        TimestampSecond(v, _) | TimestampMillisecond(v, _) | TimestampMicrosecond(v, _) | TimestampNanosecond(v, _) => v.map(|x| Num::I(x as i128)),
        UInt8(v) => v.map(|x| Num::I(x as i128)),
        UInt16(v) => v.map(|x| Num::I(x as i128)),
        UInt32(v) => v.map(|x| Num::I(x as i128)),
        UInt64(v) => v.map(|x| Num::I(x as i128)),
        Float32(v) => v.map(|x| Num::F(x as f64)),
        Float64(v) => v.map(Num::F),
        Decimal128(v, _, _) => v.map(Num::I),
        other => return Err(format!("unmodelled scalar {other:?}")),
    })
}

/// integer range of a result data type (None = float, Err = unmodelled)
fn dt_range(dt: &DataType) -> Result<Option<(i128, i128)>, String> {
    Ok(Some(match dt {
        DataType::Int8 => (i8::MIN as i128, i8::MAX as i128),
        DataType::Int16 => (i16::MIN as i128, i16::MAX as i128),
        DataType::Int32 | DataType::Date32 => (i32::MIN as i128, i32::MAX as i128),
        DataType::Int64 | DataType::Date64 | DataType::Timestamp(_, _) | DataType::Duration(_) => (i64::MIN as i128, i64::MAX as i128),
        DataType::UInt8 => (0, u8::MAX as i128),
        DataType::UInt16 => (0, u16::MAX as i128),
        DataType::UInt32 => (0, u32::MAX as i128),
        DataType::UInt64 => (0, u64::MAX as i128),
        DataType::Decimal128(p, _) => {
            let m = 10i128.pow(*p as u32) - 1;
            (-m, m)
        }
        DataType::Float32 | DataType::Float64 => return Ok(None),
        other => return Err(format!("unmodelled result type {other}")),
    }))
}

/// membership of a concrete value in [lo, hi] (None = unbounded). Floats: IEEE comparison (so -0.0 ∈ [0.0, 1.0]).
fn inside(lo: Option<Num>, hi: Option<Num>, v: Num) -> bool {
    let le = |a: Num, b: Num| match (a, b) {
        (Num::I(a), Num::I(b)) => a <= b,
        (Num::F(a), Num::F(b)) => a <= b,
        (Num::I(a), Num::F(b)) => (a as f64) <= b,
        (Num::F(a), Num::I(b)) => a <= (b as f64),
    };
    lo.is_none_or(|l| le(l, v)) && hi.is_none_or(|h| le(v, h))
}

fn bounds(iv: &Interval) -> Result<(Option<Num>, Option<Num>), String> {
    Ok((sv_num(iv.lower())?, sv_num(iv.upper())?))
}

// ---------------------------------------------------------------------------------------------
// interval specs (plain data)

#[derive(Clone, Debug, Serialize, Deserialize)]
pub struct EndSpec {
    /// 0 unbounded, 1 MIN, 2 MAX, 3 zero, 4 one, 5 minus one, 6 small, 7 random, 8 MIN+k, 9 MAX-k, 10 -0.0, 11 tiny, 12 huge
    pub kind: u8,
    pub raw: i64,
}

#[derive(Clone, Debug, Serialize, Deserialize)]
pub struct IvSpec {
    pub lo: EndSpec,
    pub hi: EndSpec,
    pub single: bool,
}

fn end_value(nt: NT, e: &EndSpec) -> Option<Num> {
    let small = (e.raw % 12) as i128; // -11..11
    if nt.is_float() {
        let (mx, tiny) = if nt == NT::F32 { (f32::MAX as f64, f32::MIN_POSITIVE as f64) } else { (f64::MAX, f64::MIN_POSITIVE) };
        let r = |x: f64| if nt == NT::F32 { (x as f32) as f64 } else { x };
        Some(Num::F(match e.kind {
            0 => return None,
            1 => -mx,
            2 => mx,
            3 => 0.0,
            4 => 1.0,
            5 => -1.0,
            6 => small as f64 * 0.5,
            7 => r((e.raw as f64) / 1024.0),
            8 => r(-mx / 2.0),
            9 => r(mx / 2.0),
            10 => -0.0,
            11 => {
                if e.raw < 0 {
                    -tiny
                } else {
                    tiny
                }
            }
            _ => r(((e.raw as f64) * 1e290_f64.min(mx / 1e19)).clamp(-mx, mx)),
        }))
    } else {
        let (lo, hi) = nt.range().expect("int range");
        let clamp = |x: i128| x.clamp(lo, hi);
        Some(Num::I(match e.kind {
            0 => return None,
            1 => lo,
            2 => hi,
            3 => clamp(0),
            4 => clamp(1),
            5 => clamp(-1),
            6 | 10 | 11 => clamp(small),
            7 | 12 => {
                // spread over the whole range monotonically
                let span = hi - lo;
                let t = (e.raw as i128) - (i64::MIN as i128); // 0..2^64
                lo + ((span as u128).wrapping_mul(t as u128 >> 32) >> 32) as i128
            }
            8 => clamp(lo + small.abs()),
            _ => clamp(hi - small.abs()),
        }))
    }
}

fn num_le(a: Num, b: Num) -> bool {
    match (a, b) {
        (Num::I(a), Num::I(b)) => a <= b,
        (Num::F(a), Num::F(b)) => a.total_cmp(&b).is_le(),
        _ => panic!("mixed"),
    }
}

/// resolved interval: (lo, hi) with None = unbounded, lo <= hi
fn resolve_iv(nt: NT, s: &IvSpec) -> (Option<Num>, Option<Num>) {
    let mut lo = end_value(nt, &s.lo);
    let mut hi = end_value(nt, &s.hi);
    if s.single {
        match (lo, hi) {
            (Some(l), _) => hi = Some(l),
            (None, Some(h)) => lo = Some(h),
            _ => {}
        }
    }
    if let (Some(l), Some(h)) = (lo, hi) {
        if !num_le(l, h) {
            (lo, hi) = (Some(h), Some(l));
        }
    }
    (lo, hi)
}

fn make_interval(nt: NT, iv: (Option<Num>, Option<Num>)) -> Result<Interval, String> {
    Interval::try_new(nt.sv(iv.0), nt.sv(iv.1)).map_err(|e| e.to_string())
}

/// concrete sample points of an interval
fn samples(nt: NT, iv: (Option<Num>, Option<Num>), seeds: &[u64], exhaustive_small: bool) -> Vec<Num> {
    let mut out: Vec<Num> = vec![];
    if nt.is_float() {
        let mx = if nt == NT::F32 { f32::MAX as f64 } else { f64::MAX };
        let r = |x: f64| if nt == NT::F32 { (x as f32) as f64 } else { x };
        let (l, h) = (
            match iv.0 {
                Some(Num::F(x)) => x,
                _ => -mx,
            },
            match iv.1 {
                Some(Num::F(x)) => x,
                _ => mx,
            },
        );
        let mut push = |x: f64| {
            let x = r(x);
            if x.is_finite() && l.total_cmp(&x).is_le() && x.total_cmp(&h).is_le() && !out.iter().any(|o| matches!(o, Num::F(y) if y.to_bits() == x.to_bits())) {
                out.push(Num::F(x));
            }
        };
        push(l);
        push(h);
        for c in [0.0, -0.0, 1.0, -1.0, 0.5, 2.0, -3.0] {
            push(c);
        }
        push(l / 2.0 + h / 2.0);
        if nt == NT::F32 {
            push(f32::from_bits((l as f32).to_bits().wrapping_add(1)) as f64);
            push(f32::from_bits((h as f32).to_bits().wrapping_sub(1)) as f64);
        } else {
            push(f64::from_bits(l.to_bits().wrapping_add(1)));
            push(f64::from_bits(h.to_bits().wrapping_sub(1)));
            push(f64::from_bits(l.to_bits().wrapping_sub(1)));
            push(f64::from_bits(h.to_bits().wrapping_add(1)));
        }
        for s in seeds {
            let t = (*s >> 11) as f64 / (1u64 << 53) as f64; // [0,1)
            push(l + (h / 2.0 - l / 2.0) * 2.0 * t);
            push(l + (h - l) * t);
            // a small-magnitude point
            push(((*s % 2001) as f64 - 1000.0) / 8.0);
        }
        // infinities belong to unbounded sides
        if iv.0.is_none() {
            out.push(Num::F(f64::NEG_INFINITY));
        }
        if iv.1.is_none() {
            out.push(Num::F(f64::INFINITY));
        }
    } else {
        let (tlo, thi) = nt.range().expect("int range");
        let l = match iv.0 {
            Some(Num::I(x)) => x,
            _ => tlo,
        };
        let h = match iv.1 {
            Some(Num::I(x)) => x,
            _ => thi,
        };
        if exhaustive_small && h - l <= 256 {
            return (l..=h).map(Num::I).collect();
        }
        let mut push = |x: i128| {
            if x >= l && x <= h && !out.contains(&Num::I(x)) {
                out.push(Num::I(x));
            }
        };
        for c in [l, h, l + 1, h - 1, 0, 1, -1, 2, -2, l + (h - l) / 2] {
            push(c);
        }
        for s in seeds {
            let span = (h - l) as u128;
            push(l + ((span.wrapping_mul((*s >> 32) as u128)) >> 32) as i128);
            push((*s % 41) as i128 - 20);
        }
    }
    out
}

// ---------------------------------------------------------------------------------------------
// operator-level cases

#[derive(Clone, Debug, Serialize, Deserialize)]
pub struct OpCase {
    pub nt: NT,
    /// odd: a timestamp's right operand is a duration (for + and -)
    pub rhs_kind: u8,
    pub op: u8,
    pub a: IvSpec,
    pub b: IvSpec,
    pub seeds: Vec<u64>,
    /// 0 = plain `Interval`; otherwise `NullableInterval` with variants (a: n % 3, b: n / 3 % 3): 0 NotNull, 1 MaybeNull, 2 Null
    pub nullable: u8,
}

#[derive(Clone, Copy, Debug, PartialEq)]
enum OpK {
    Bin(Operator),
    Intersect,
    Union,
    Contains,
    Negate,
    ContainsValue,
}

const OPS: [OpK; 17] = [
    OpK::Bin(Operator::Plus),
    OpK::Bin(Operator::Minus),
    OpK::Bin(Operator::Multiply),
    OpK::Bin(Operator::Divide),
    OpK::Bin(Operator::Eq),
    OpK::Bin(Operator::NotEq),
    OpK::Bin(Operator::Gt),
    OpK::Bin(Operator::GtEq),
    OpK::Bin(Operator::Lt),
    OpK::Bin(Operator::LtEq),
    OpK::Intersect,
    OpK::Union,
    OpK::Contains,
    OpK::Negate,
    OpK::ContainsValue,
    OpK::Bin(Operator::IsDistinctFrom),
    OpK::Bin(Operator::IsNotDistinctFrom),
];

fn is_arith(op: Operator) -> bool {
    matches!(op, Operator::Plus | Operator::Minus | Operator::Multiply | Operator::Divide)
}

/// (effective op, rhs type): arithmetic the type does not support falls back to a comparison
fn effective_op(c: &OpCase) -> (OpK, NT) {
    let k = OPS[pick_index((c.op as u16) << 8, OPS.len())];
    let nt = c.nt;
    let fallback = OpK::Bin([Operator::Eq, Operator::Gt, Operator::LtEq, Operator::GtEq][(c.op & 3) as usize]);
    match k {
        OpK::Bin(op) if is_arith(op) => match nt {
            NT::TsS | NT::TsNs => {
                let dur = if nt == NT::TsS { NT::DurS } else { NT::DurNs };
                match op {
                    Operator::Minus if c.rhs_kind % 2 == 0 => (k, nt),
                    Operator::Plus | Operator::Minus => (k, dur),
                    _ => (fallback, nt),
                }
            }
            NT::DurS | NT::DurNs => match op {
                Operator::Plus | Operator::Minus => (k, nt),
                _ => (fallback, nt),
            },
            NT::Date32 | NT::Date64 => (fallback, nt),
            NT::Dec102 => match op {
                Operator::Divide => (fallback, nt),
                // Decimal multiplication with an unbounded side trips a debug assertion in the engine
                // (endpoints typed Decimal128(10,2) and Decimal128(21,4), see the module header): not generated
                Operator::Multiply if c.a.lo.kind == 0 || c.a.hi.kind == 0 || c.b.lo.kind == 0 || c.b.hi.kind == 0 => (fallback, nt),
                _ => (k, nt),
            },
            _ => (k, nt),
        },
        OpK::Bin(Operator::IsDistinctFrom | Operator::IsNotDistinctFrom) if c.nullable == 0 => (fallback, nt),
        OpK::Negate if nt.is_unsigned() || matches!(nt, NT::Date32 | NT::Date64 | NT::DurS | NT::DurNs) => (OpK::Union, nt),
        _ => (k, nt),
    }
}

#[derive(Debug)]
enum Conc {
    /// not representable / undefined: exempt
    Exempt,
    Val(Num),
    Bool(bool),
}

fn is_pm_zero_pair(x: Num, y: Num) -> bool {
    matches!((x, y), (Num::F(a), Num::F(b)) if a == 0.0 && b == 0.0 && a.to_bits() != b.to_bits())
}

/// concrete binary operation; `res_range` = integer range of the result type (None for floats)
fn concrete(op: Operator, nt: NT, x: Num, y: Num, res_range: Option<(i128, i128)>) -> Conc {
    match (x, y) {
        (Num::I(a), Num::I(b)) => {
            let v = match op {
                Operator::Plus => a.checked_add(b),
                Operator::Minus => a.checked_sub(b),
                Operator::Multiply => a.checked_mul(b),
                Operator::Divide => {
                    if b == 0 {
                        None
                    } else {
                        Some(a / b)
                    }
                }
                Operator::Eq => return Conc::Bool(a == b),
                Operator::NotEq => return Conc::Bool(a != b),
                Operator::Gt => return Conc::Bool(a > b),
                Operator::GtEq => return Conc::Bool(a >= b),
                Operator::Lt => return Conc::Bool(a < b),
                Operator::LtEq => return Conc::Bool(a <= b),
                _ => None,
            };
            match (v, res_range) {
                (Some(v), Some((lo, hi))) if v >= lo && v <= hi => Conc::Val(Num::I(v)),
                _ => Conc::Exempt,
            }
        }
        (Num::F(a), Num::F(b)) => {
            let cmp = |f: fn(&f64, &f64) -> bool| if is_pm_zero_pair(x, y) || a.is_nan() || b.is_nan() { Conc::Exempt } else { Conc::Bool(f(&a, &b)) };
            let f32m = nt == NT::F32;
            let ar = |r64: f64, r32: f32| {
                let r = if f32m { r32 as f64 } else { r64 };
                // overflow to an infinity from finite operands is "not representable"
                if r.is_nan() || (r.is_infinite() && a.is_finite() && b.is_finite()) { Conc::Exempt } else { Conc::Val(Num::F(r)) }
            };
            match op {
                Operator::Plus => ar(a + b, a as f32 + b as f32),
                Operator::Minus => ar(a - b, a as f32 - b as f32),
                Operator::Multiply => ar(a * b, a as f32 * b as f32),
                Operator::Divide => {
                    if b == 0.0 {
                        Conc::Exempt
                    } else {
                        ar(a / b, a as f32 / b as f32)
                    }
                }
                Operator::Eq => cmp(|a, b| a == b),
                Operator::NotEq => cmp(|a, b| a != b),
                Operator::Gt => cmp(|a, b| a > b),
                Operator::GtEq => cmp(|a, b| a >= b),
                Operator::Lt => cmp(|a, b| a < b),
                Operator::LtEq => cmp(|a, b| a <= b),
                _ => Conc::Exempt,
            }
        }
        _ => Conc::Exempt,
    }
}

/// membership in the engine's ordering (total order for floats)
fn inside_total(iv: (Option<Num>, Option<Num>), v: Num) -> bool {
    iv.0.is_none_or(|l| num_le(l, v)) && iv.1.is_none_or(|h| num_le(v, h))
}

fn is_zero(v: Num) -> bool {
    matches!(v, Num::F(x) if x == 0.0)
}

fn bool_bounds(iv: &Interval) -> Result<(bool, bool), String> {
    match (iv.lower(), iv.upper()) {
        (ScalarValue::Boolean(Some(l)), ScalarValue::Boolean(Some(h))) => Ok((*l, *h)),
        _ => Err(format!("not a boolean interval: {iv}")),
    }
}

fn iv_label(iv: (Option<Num>, Option<Num>)) -> &'static str {
    match iv {
        (None, None) => "iv:unbounded",
        (None, _) | (_, None) => "iv:half-bounded",
        (Some(a), Some(b)) if a == b => "iv:singleton",
        _ => "iv:bounded",
    }
}

fn run_op(c: &OpCase) -> CaseResult {
    let (k, rhs_nt) = effective_op(c);
    let nt = c.nt;
    let a = resolve_iv(nt, &c.a);
    let b = resolve_iv(rhs_nt, &c.b);
    let mut labels = vec![format!("type:{nt:?}"), format!("op:{k:?}"), iv_label(a).to_string(), iv_label(b).to_string(), "kind:op".to_string()];
    let (ia, ib) = match (make_interval(nt, a), make_interval(rhs_nt, b)) {
        (Ok(x), Ok(y)) => (x, y),
        (Err(e), _) | (_, Err(e)) => return CaseResult::discard(format!("interval construction: {}", truncate(&e, 60))).labels(labels),
    };
    // the intervals as the engine normalised them (e.g. unsigned NULL lower -> 0)
    let (a, b) = match (bounds(&ia), bounds(&ib)) {
        (Ok(x), Ok(y)) => (x, y),
        (Err(e), _) | (_, Err(e)) => return CaseResult::discard(e).labels(labels),
    };
    let small = matches!(nt, NT::I8 | NT::U8);
    let sa = samples(nt, a, &c.seeds, small);
    let sb = samples(rhs_nt, b, &c.seeds.iter().map(|s| s.rotate_left(17) ^ 0x9e3779b97f4a7c15).collect::<Vec<_>>(), small);
    if small {
        labels.push("exhaustive-grid".into());
    }
    let ctx = |x: &dyn std::fmt::Debug| format!("{k:?} on {nt:?} A={ia} B={ib}: {x:?}");

    if c.nullable != 0 {
        if let OpK::Bin(op) = k {
            return run_nullable(c, op, nt, rhs_nt, &ia, &ib, &sa, &sb, labels);
        }
    }
    match k {
        OpK::Bin(op) => {
            let res = match apply_operator(&op, &ia, &ib) {
                Ok(r) => r,
                Err(e) => return CaseResult::discard(format!("apply_operator {op:?} {nt:?}/{rhs_nt:?}: {}", truncate(&e.to_string(), 50))).labels(labels),
            };
            let rdt = res.data_type();
            if rdt == DataType::Boolean {
                let (l, h) = match bool_bounds(&res) {
                    Ok(x) => x,
                    Err(e) => return CaseResult::violation(ctx(&e)).labels(labels),
                };
                let mut n = 0u64;
                for x in &sa {
                    for y in &sb {
                        if let Conc::Bool(t) = concrete(op, nt, *x, *y, None) {
                            n += 1;
                            if !(l <= t && t <= h) {
                                return CaseResult::violation(ctx(&format!("result {res} does not contain the truth value {t} of x={x:?} y={y:?}"))).labels(labels).nontrivial(true);
                            }
                        }
                    }
                }
                let nt_ = l == h;
                labels.push(if nt_ { "result:certain" } else { "result:uncertain" }.into());
                return CaseResult::pass().labels(labels).nontrivial(nt_ && n > 0);
            }
            let rr = match dt_range(&rdt) {
                Ok(r) => r,
                Err(e) => return CaseResult::discard(e).labels(labels),
            };
            let (rl, rh) = match bounds(&res) {
                Ok(x) => x,
                Err(e) => return CaseResult::discard(e).labels(labels),
            };
            let mut n = 0u64;
            for x in &sa {
                for y in &sb {
                    if let Conc::Val(v) = concrete(op, nt, *x, *y, rr) {
                        n += 1;
                        if !inside(rl, rh, v) {
                            return CaseResult::violation(ctx(&format!("result {res} does not contain {v:?} = x {op} y for x={x:?} y={y:?}"))).labels(labels).nontrivial(true);
                        }
                    }
                }
            }
            let bounded = rl.is_some() || rh.is_some();
            labels.push(if bounded { "result:bounded-side" } else { "result:unbounded" }.into());
            CaseResult::pass().labels(labels).nontrivial(bounded && n > 0)
        }
        OpK::Intersect => {
            let res = match ia.intersect(&ib) {
                Ok(r) => r,
                Err(e) => return CaseResult::discard(format!("intersect: {}", truncate(&e.to_string(), 50))).labels(labels),
            };
            let rb = match &res {
                Some(r) => match bounds(r) {
                    Ok(x) => Some(x),
                    Err(e) => return CaseResult::discard(e).labels(labels),
                },
                None => None,
            };
            for x in sa.iter().chain(sb.iter()) {
                if is_zero(*x) {
                    continue;
                }
                if inside_total(a, *x) && inside_total(b, *x) {
                    match rb {
                        None => return CaseResult::violation(ctx(&format!("intersect = None but {x:?} is in both"))).labels(labels).nontrivial(true),
                        Some(r) if !inside_total(r, *x) => {
                            return CaseResult::violation(ctx(&format!("intersect = {} misses common point {x:?}", res.as_ref().map(|r| r.to_string()).unwrap_or_default()))).labels(labels).nontrivial(true);
                        }
                        _ => {}
                    }
                }
            }
            labels.push(if rb.is_none() { "intersect:none" } else { "intersect:some" }.into());
            CaseResult::pass().labels(labels).nontrivial(true)
        }
        OpK::Union => {
            let res = match ia.union(&ib) {
                Ok(r) => r,
                Err(e) => return CaseResult::discard(format!("union: {}", truncate(&e.to_string(), 50))).labels(labels),
            };
            let r = match bounds(&res) {
                Ok(x) => x,
                Err(e) => return CaseResult::discard(e).labels(labels),
            };
            for x in sa.iter().chain(sb.iter()) {
                if !is_zero(*x) && !inside_total(r, *x) {
                    return CaseResult::violation(ctx(&format!("union = {res} misses {x:?}"))).labels(labels).nontrivial(true);
                }
            }
            CaseResult::pass().labels(labels).nontrivial(r.0.is_some() || r.1.is_some())
        }
        OpK::Contains => {
            let res = match ia.contains(&ib) {
                Ok(r) => r,
                Err(e) => return CaseResult::discard(format!("contains: {}", truncate(&e.to_string(), 50))).labels(labels),
            };
            let (l, h) = match bool_bounds(&res) {
                Ok(x) => x,
                Err(e) => return CaseResult::violation(ctx(&e)).labels(labels),
            };
            for y in &sb {
                if is_zero(*y) {
                    continue;
                }
                let m = inside_total(a, *y);
                if l && h && !m {
                    return CaseResult::violation(ctx(&format!("contains = TRUE but {y:?} of B is not in A"))).labels(labels).nontrivial(true);
                }
                if !l && !h && m {
                    return CaseResult::violation(ctx(&format!("contains = FALSE but {y:?} of B is in A"))).labels(labels).nontrivial(true);
                }
            }
            labels.push(format!("contains:{}", if l { "true" } else if h { "maybe" } else { "false" }));
            CaseResult::pass().labels(labels).nontrivial(l == h)
        }
        OpK::ContainsValue => {
            for x in sa.iter().chain(sb.iter()) {
                if is_zero(*x) {
                    continue;
                }
                let v = nt.sv(Some(*x));
                match ia.contains_value(&v) {
                    Ok(ans) => {
                        let m = inside_total(a, *x);
                        if ans != m {
                            return CaseResult::violation(ctx(&format!("contains_value({v}) = {ans} but membership is {m}"))).labels(labels).nontrivial(true);
                        }
                    }
                    Err(e) => return CaseResult::discard(format!("contains_value: {}", truncate(&e.to_string(), 50))).labels(labels),
                }
            }
            CaseResult::pass().labels(labels).nontrivial(true)
        }
        OpK::Negate => {
            let res = match ia.arithmetic_negate() {
                Ok(r) => r,
                Err(e) => {
                    labels.push("negate:error".into());
                    let _ = e;
                    return CaseResult::pass().labels(labels);
                }
            };
            let r = match bounds(&res) {
                Ok(x) => x,
                Err(e) => return CaseResult::discard(e).labels(labels),
            };
            for x in &sa {
                let v = match *x {
                    Num::F(f) => Num::F(-f),
                    Num::I(i) => {
                        let (lo, hi) = nt.range().unwrap_or((i128::MIN, i128::MAX));
                        if -i < lo || -i > hi {
                            continue;
                        }
                        Num::I(-i)
                    }
                };
                if !inside(r.0, r.1, v) {
                    return CaseResult::violation(ctx(&format!("arithmetic_negate = {res} misses -({x:?})"))).labels(labels).nontrivial(true);
                }
            }
            CaseResult::pass().labels(labels).nontrivial(r.0.is_some() || r.1.is_some())
        }
    }
}

#[allow(clippy::too_many_arguments)]
fn run_nullable(c: &OpCase, op: Operator, nt: NT, rhs_nt: NT, ia: &Interval, ib: &Interval, sa: &[Num], sb: &[Num], mut labels: Vec<String>) -> CaseResult {
    let mk = |iv: &Interval, variant: u8, t: NT| match variant % 3 {
        0 => NullableInterval::NotNull { values: iv.clone() },
        1 => NullableInterval::MaybeNull { values: iv.clone() },
        _ => NullableInterval::Null { datatype: t.data_type() },
    };
    let (va, vb) = ((c.nullable - 1) % 3, ((c.nullable - 1) / 3) % 3);
    let (na, nb) = (mk(ia, va, nt), mk(ib, vb, rhs_nt));
    labels.push("nullable-interval".into());
    labels.push(format!("nullable:{va}{vb}"));
    let res = match na.apply_operator(&op, &nb) {
        Ok(r) => r,
        Err(e) => return CaseResult::discard(format!("NullableInterval::apply_operator {op:?} {nt:?}: {}", truncate(&e.to_string(), 50))).labels(labels),
    };
    let rr = match dt_range(&res.data_type()) {
        Ok(r) => r,
        Err(_) => None,
    };
    let xs: Vec<Option<Num>> = match va {
        0 => sa.iter().take(24).map(|x| Some(*x)).collect(),
        1 => sa.iter().take(24).map(|x| Some(*x)).chain([None]).collect(),
        _ => vec![None],
    };
    let ys: Vec<Option<Num>> = match vb {
        0 => sb.iter().take(24).map(|x| Some(*x)).collect(),
        1 => sb.iter().take(24).map(|x| Some(*x)).chain([None]).collect(),
        _ => vec![None],
    };
    let rdt = res.data_type();
    let mut checked = 0u64;
    for x in &xs {
        for y in &ys {
            // expected concrete result: None = exempt, Some(ScalarValue) (ScalarValue::Null for SQL NULL)
            let exp: Option<ScalarValue> = match op {
                Operator::IsDistinctFrom | Operator::IsNotDistinctFrom => {
                    let d = match (x, y) {
                        (None, None) => Some(false),
                        (None, _) | (_, None) => Some(true),
                        (Some(x), Some(y)) => match concrete(Operator::NotEq, nt, *x, *y, None) {
                            Conc::Bool(b) => Some(b),
                            _ => None,
                        },
                    };
                    d.map(|d| ScalarValue::Boolean(Some(if op == Operator::IsDistinctFrom { d } else { !d })))
                }
                _ => match (x, y) {
                    (Some(x), Some(y)) => match concrete(op, nt, *x, *y, rr) {
                        Conc::Bool(b) => Some(ScalarValue::Boolean(Some(b))),
                        Conc::Val(v) => scalar_of(&rdt, v),
                        Conc::Exempt => None,
                    },
                    _ => Some(ScalarValue::Null),
                },
            };
            let Some(exp) = exp else { continue };
            checked += 1;
            match res.contains_value(&exp) {
                Ok(true) => {}
                Ok(false) => {
                    return CaseResult::violation(format!("NullableInterval {na} {op} {nb} = {res} does not contain {exp} (x={x:?}, y={y:?})")).labels(labels).nontrivial(true);
                }
                Err(e) => return CaseResult::discard(format!("NullableInterval::contains_value: {}", truncate(&e.to_string(), 50))).labels(labels),
            }
        }
    }
    CaseResult::pass().labels(labels).nontrivial(checked > 0)
}

/// scalar of a result data type holding `v` (None when the type is not modelled)
fn scalar_of(dt: &DataType, v: Num) -> Option<ScalarValue> {
    Some(match (dt, v) {
        (DataType::Int8, Num::I(x)) => ScalarValue::Int8(Some(x as i8)),
        (DataType::Int16, Num::I(x)) => ScalarValue::Int16(Some(x as i16)),
        (DataType::Int32, Num::I(x)) => ScalarValue::Int32(Some(x as i32)),
        (DataType::Int64, Num::I(x)) => ScalarValue::Int64(Some(x as i64)),
        (DataType::UInt8, Num::I(x)) => ScalarValue::UInt8(Some(x as u8)),
        (DataType::UInt16, Num::I(x)) => ScalarValue::UInt16(Some(x as u16)),
        (DataType::UInt32, Num::I(x)) => ScalarValue::UInt32(Some(x as u32)),
        (DataType::UInt64, Num::I(x)) => ScalarValue::UInt64(Some(x as u64)),
        (DataType::Float32, Num::F(x)) => ScalarValue::Float32(Some(x as f32)),
        (DataType::Float64, Num::F(x)) => ScalarValue::Float64(Some(x)),
        (DataType::Date32, Num::I(x)) => ScalarValue::Date32(Some(x as i32)),
        (DataType::Date64, Num::I(x)) => ScalarValue::Date64(Some(x as i64)),
        (DataType::Timestamp(TimeUnit::Second, None), Num::I(x)) => ScalarValue::TimestampSecond(Some(x as i64), None),
        (DataType::Timestamp(TimeUnit::Nanosecond, None), Num::I(x)) => ScalarValue::TimestampNanosecond(Some(x as i64), None),
        (DataType::Duration(TimeUnit::Second), Num::I(x)) => ScalarValue::DurationSecond(Some(x as i64)),
        (DataType::Duration(TimeUnit::Nanosecond), Num::I(x)) => ScalarValue::DurationNanosecond(Some(x as i64)),
        (DataType::Decimal128(p, s), Num::I(x)) => ScalarValue::Decimal128(Some(x), *p, *s),
        _ => return None,
    })
}

// ---------------------------------------------------------------------------------------------
// cast cases

#[derive(Clone, Debug, Serialize, Deserialize)]
pub struct CastCase {
    pub from: NT,
    pub to: u16,
    pub iv: IvSpec,
    pub safe: bool,
    pub seeds: Vec<u64>,
}

fn cast_targets(from: NT) -> Vec<NT> {
    match from {
        NT::TsS => vec![NT::TsNs, NT::I64, NT::Date32],
        NT::TsNs => vec![NT::TsS, NT::I64, NT::Date32],
        NT::DurS => vec![NT::DurNs, NT::I64],
        NT::DurNs => vec![NT::DurS, NT::I64],
        NT::Date32 => vec![NT::Date64, NT::I32, NT::I64, NT::TsS],
        NT::Date64 => vec![NT::Date32, NT::I64],
        NT::Dec102 => vec![NT::I32, NT::I64, NT::F64, NT::I8],
        _ => vec![NT::I8, NT::I16, NT::I32, NT::I64, NT::U8, NT::U16, NT::U32, NT::U64, NT::F32, NT::F64, NT::Dec102].into_iter().filter(|t| *t != from).collect(),
    }
}

fn cast_opts(safe: bool) -> CastOptions<'static> {
    CastOptions { safe, format_options: FormatOptions::default() }
}

fn run_cast(c: &CastCase) -> CaseResult {
    let targets = cast_targets(c.from);
    let to = targets[pick_index(c.to, targets.len())];
    let mut labels = vec!["kind:cast".to_string(), format!("cast:{:?}->{:?}", c.from, to), format!("safe={}", c.safe)];
    let iv = resolve_iv(c.from, &c.iv);
    labels.push(iv_label(iv).to_string());
    let ia = match make_interval(c.from, iv) {
        Ok(x) => x,
        Err(e) => return CaseResult::discard(format!("interval construction: {}", truncate(&e, 60))).labels(labels),
    };
    let iv = match bounds(&ia) {
        Ok(x) => x,
        Err(e) => return CaseResult::discard(e).labels(labels),
    };
    let res = match ia.cast_to(&to.data_type(), &cast_opts(c.safe)) {
        Ok(r) => r,
        Err(_) => {
            // a clean error (unsafe cast overflow of an endpoint, ordering assertion): nothing is claimed
            labels.push("cast_to:error".into());
            return CaseResult::pass().labels(labels);
        }
    };
    let rb = match bounds(&res) {
        Ok(x) => x,
        Err(e) => return CaseResult::discard(e).labels(labels),
    };
    let small = matches!(c.from, NT::I8 | NT::U8);
    let mut checked = 0;
    for x in samples(c.from, iv, &c.seeds, small) {
        if matches!(x, Num::F(f) if !f.is_finite()) {
            continue;
        }
        // concrete cast = the engine's scalar cast (safe: NULL when not representable)
        let sv = c.from.sv(Some(x));
        let Ok(cv) = sv.cast_to_with_options(&to.data_type(), &cast_opts(true)) else { continue };
        let Ok(Some(v)) = sv_num(&cv) else { continue };
        if matches!(v, Num::F(f) if !f.is_finite()) {
            continue;
        }
        checked += 1;
        if !inside(rb.0, rb.1, v) {
            return CaseResult::violation(format!("{ia}.cast_to({:?}, safe={}) = {res} does not contain cast({sv}) = {cv}", to.data_type(), c.safe)).labels(labels).nontrivial(true);
        }
    }
    let bounded = rb.0.is_some() || rb.1.is_some();
    CaseResult::pass().labels(labels).nontrivial(bounded && checked > 0)
}

// ---------------------------------------------------------------------------------------------
// expression-level cases

#[derive(Clone, Debug, Serialize, Deserialize)]
pub enum A {
    Col(u16),
    /// literal: small value / boundary value (EndSpec kinds)
    Lit(EndSpec),
    Bin { op: u8, l: Box<A>, r: Box<A> },
    Neg(Box<A>),
    Cast { to: u16, inner: Box<A> },
}

#[derive(Clone, Debug, Serialize, Deserialize)]
pub enum E {
    Cmp { op: u8, ty: u16, l: A, r: A },
    And(Box<E>, Box<E>),
}

#[derive(Clone, Debug, Serialize, Deserialize)]
pub struct ExprCase {
    pub nt: NT,
    pub ranges: Vec<IvSpec>,
    pub tree: E,
    /// constraint handed to update_ranges: false only when `given_false`
    pub given_false: bool,
    pub seeds: Vec<u64>,
}

/// resolved (typed) arithmetic tree
#[derive(Clone, Debug)]
enum RA {
    Col(usize, NT),
    Lit(NT, Num),
    Bin(Operator, Box<RA>, Box<RA>, NT),
    Neg(Box<RA>, NT),
    Cast(Box<RA>, NT, NT),
}

#[derive(Clone, Debug)]
enum RE {
    Cmp(Operator, RA, RA),
    And(Box<RE>, Box<RE>),
}

const EXPR_CMP: [Operator; 5] = [Operator::Gt, Operator::GtEq, Operator::Lt, Operator::LtEq, Operator::Eq];
const EXPR_ARITH: [Operator; 4] = [Operator::Plus, Operator::Minus, Operator::Multiply, Operator::Divide];

struct ExprResolver {
    col_ty: NT,
    ncols: usize,
    labels: Vec<String>,
}

impl ExprResolver {
    fn lab(&mut self, l: &str) {
        if !self.labels.iter().any(|x| x == l) {
            self.labels.push(l.to_string());
        }
    }
    fn arith(&mut self, a: &A, want: NT) -> RA {
        match a {
            A::Col(c) => {
                let i = pick_index(*c, self.ncols);
                if want == self.col_ty {
                    RA::Col(i, want)
                } else {
                    self.lab("expr:cast");
                    RA::Cast(Box::new(RA::Col(i, self.col_ty)), self.col_ty, want)
                }
            }
            A::Lit(e) => {
                let mut e = e.clone();
                if e.kind == 0 {
                    e.kind = 6;
                }
                RA::Lit(want, end_value(want, &e).unwrap_or(if want.is_float() { Num::F(1.0) } else { Num::I(1) }))
            }
            A::Bin { op, l, r } => {
                // integer `*` and `/` are behind known findings: keep them rare for integer trees
                let op = if want.is_float() { EXPR_ARITH[pick_index((*op as u16) << 8, EXPR_ARITH.len())] } else { { use Operator::*; [Plus, Plus, Plus, Plus, Plus, Plus, Plus, Minus, Minus, Minus, Minus, Minus, Minus, Minus, Multiply, Divide][pick_index((*op as u16) << 8, 16)] } };
                self.lab(match op {
                    Operator::Plus => "expr:+",
                    Operator::Minus => "expr:-",
                    Operator::Multiply => "expr:*",
                    _ => "expr:/",
                });
                RA::Bin(op, Box::new(self.arith(l, want)), Box::new(self.arith(r, want)), want)
            }
            A::Neg(x) => {
                if want.is_unsigned() {
                    self.arith(x, want)
                } else {
                    self.lab("expr:neg");
                    RA::Neg(Box::new(self.arith(x, want)), want)
                }
            }
            A::Cast { to, inner } => {
                let mid = EXPR_NT[pick_index(*to, EXPR_NT.len())];
                let x = self.arith(inner, mid);
                if mid == want {
                    x
                } else {
                    self.lab("expr:cast");
                    RA::Cast(Box::new(x), mid, want)
                }
            }
        }
    }
    fn boolean(&mut self, e: &E) -> RE {
        match e {
            E::Cmp { op, ty, l, r } => {
                let op = EXPR_CMP[pick_index((*op as u16) << 8, EXPR_CMP.len())];
                // mostly compare in the column type
                let t = if *ty < 57344 { self.col_ty } else { EXPR_NT[pick_index((*ty - 57344).wrapping_mul(8), EXPR_NT.len())] };
                self.lab(&format!("expr:{op:?}"));
                RE::Cmp(op, self.arith(l, t), self.arith(r, t))
            }
            E::And(a, b) => {
                self.lab("expr:AND");
                RE::And(Box::new(self.boolean(a)), Box::new(self.boolean(b)))
            }
        }
    }
}

fn ra_phys(a: &RA) -> Arc<dyn PhysicalExpr> {
    match a {
        RA::Col(i, _) => Arc::new(Column::new(&format!("c{i}"), *i)),
        RA::Lit(t, v) => Arc::new(Literal::new(t.sv(Some(*v)))),
        RA::Bin(op, l, r, _) => Arc::new(BinaryExpr::new(ra_phys(l), *op, ra_phys(r))),
        RA::Neg(x, _) => Arc::new(NegativeExpr::new(ra_phys(x))),
        RA::Cast(x, _, to) => Arc::new(CastExpr::new(ra_phys(x), to.data_type(), None)),
    }
}

fn re_phys(e: &RE) -> Arc<dyn PhysicalExpr> {
    match e {
        RE::Cmp(op, l, r) => Arc::new(BinaryExpr::new(ra_phys(l), *op, ra_phys(r))),
        RE::And(a, b) => Arc::new(BinaryExpr::new(re_phys(a), Operator::And, re_phys(b))),
    }
}

thread_local! {
    /// set by `eval_ra` when a floating-point operation of the current evaluation had to round
    static INEXACT: std::cell::Cell<bool> = const { std::cell::Cell::new(false) };
}

/// is the floating-point operation exact (its real-number result representable)?
fn fp_exact(op: Operator, x: f64, y: f64, f32m: bool) -> bool {
    if f32m {
        let (a, b) = (x as f32, y as f32);
        match op {
            Operator::Plus | Operator::Minus => {
                let b = if op == Operator::Minus { -b } else { b };
                let s = a + b;
                let bb = s - a;
                let e = (a - (s - bb)) + (b - bb);
                s.is_finite() && e == 0.0
            }
            Operator::Multiply => (x * y) == ((a * b) as f64),
            _ => {
                let q = a / b;
                q.is_finite() && (q as f64) * y == x
            }
        }
    } else {
        match op {
            Operator::Plus | Operator::Minus => {
                let y = if op == Operator::Minus { -y } else { y };
                let s = x + y;
                let bb = s - x;
                let e = (x - (s - bb)) + (y - bb);
                s.is_finite() && e == 0.0
            }
            Operator::Multiply => {
                let p = x * y;
                p.is_finite() && x.mul_add(y, -p) == 0.0 && (p != 0.0 || x == 0.0 || y == 0.0)
            }
            _ => {
                let q = x / y;
                q.is_finite() && q.mul_add(y, -x) == 0.0 && (q != 0.0 || x == 0.0)
            }
        }
    }
}

/// `eval_re` plus "every floating-point operation was exact"
fn eval_re_exact(e: &RE, asg: &[Num]) -> (Option<bool>, bool) {
    INEXACT.with(|c| c.set(false));
    let r = eval_re(e, asg);
    (r, !INEXACT.with(|c| c.get()))
}

/// model evaluation: None = some node is not representable / undefined (assignment exempt)
fn eval_ra(a: &RA, asg: &[Num]) -> Option<Num> {
    let fin = |t: NT, x: f64| {
        let x = if t == NT::F32 { (x as f32) as f64 } else { x };
        if x.is_finite() { Some(Num::F(x)) } else { None }
    };
    let fit = |t: NT, x: i128| {
        let (lo, hi) = t.range()?;
        if x >= lo && x <= hi { Some(Num::I(x)) } else { None }
    };
    match a {
        RA::Col(i, _) => Some(asg[*i]),
        RA::Lit(_, v) => Some(*v),
        RA::Neg(x, t) => match eval_ra(x, asg)? {
            Num::I(v) => fit(*t, -v),
            Num::F(v) => Some(Num::F(-v)),
        },
        RA::Bin(op, l, r, t) => {
            let (x, y) = (eval_ra(l, asg)?, eval_ra(r, asg)?);
            match (x, y) {
                (Num::I(x), Num::I(y)) => fit(
                    *t,
                    match op {
                        Operator::Plus => x.checked_add(y)?,
                        Operator::Minus => x.checked_sub(y)?,
                        Operator::Multiply => x.checked_mul(y)?,
                        _ => {
                            if y == 0 {
                                return None;
                            }
                            x / y
                        }
                    },
                ),
                (Num::F(x), Num::F(y)) => {
                    let f32m = *t == NT::F32;
                    let (xs, ys) = (x as f32, y as f32);
                    if y != 0.0 || *op != Operator::Divide {
                        if !fp_exact(*op, x, y, f32m) {
                            INEXACT.with(|c| c.set(true));
                        }
                    }
                    match op {
                        Operator::Plus => fin(*t, if f32m { (xs + ys) as f64 } else { x + y }),
                        Operator::Minus => fin(*t, if f32m { (xs - ys) as f64 } else { x - y }),
                        Operator::Multiply => fin(*t, if f32m { (xs * ys) as f64 } else { x * y }),
                        _ => {
                            if y == 0.0 {
                                None
                            } else {
                                fin(*t, if f32m { (xs / ys) as f64 } else { x / y })
                            }
                        }
                    }
                }
                _ => None,
            }
        }
        RA::Cast(x, from, to) => {
            let v = eval_ra(x, asg)?;
            match (v, from.is_float(), to.is_float()) {
                (Num::I(v), false, false) => fit(*to, v),
                (Num::I(v), false, true) => fin(*to, if *to == NT::F32 { (v as f32) as f64 } else { v as f64 }),
                (Num::F(v), true, true) => fin(*to, v),
                (Num::F(v), true, false) => {
                    let tr = v.trunc();
                    let (lo, hi) = to.range()?;
                    // exact comparison in f64 is delicate at the i64/u64 edges: stay strictly inside
                    if tr > lo as f64 && tr < hi as f64 { Some(Num::I(tr as i128)) } else { None }
                }
                _ => None,
            }
        }
    }
}

fn eval_re(e: &RE, asg: &[Num]) -> Option<bool> {
    match e {
        RE::Cmp(op, l, r) => {
            let (x, y) = (eval_ra(l, asg)?, eval_ra(r, asg)?);
            if is_pm_zero_pair(x, y) {
                return None;
            }
            let o = match (x, y) {
                (Num::I(a), Num::I(b)) => a.cmp(&b),
                (Num::F(a), Num::F(b)) => a.partial_cmp(&b)?,
                _ => return None,
            };
            Some(match op {
                Operator::Gt => o.is_gt(),
                Operator::GtEq => o.is_ge(),
                Operator::Lt => o.is_lt(),
                Operator::LtEq => o.is_le(),
                _ => o.is_eq(),
            })
        }
        // both sides must be defined: the engine evaluates both
        RE::And(a, b) => {
            let (x, y) = (eval_re(a, asg)?, eval_re(b, asg)?);
            Some(x && y)
        }
    }
}

fn first_cmp(e: &RE) -> (&RA, &RA) {
    match e {
        RE::Cmp(_, l, r) => (l, r),
        RE::And(a, _) => first_cmp(a),
    }
}

fn ra_type(a: &RA) -> NT {
    match a {
        RA::Col(_, t) | RA::Lit(t, _) | RA::Bin(_, _, _, t) | RA::Neg(_, t) | RA::Cast(_, _, t) => *t,
    }
}

/// all sampled assignments for the columns
fn assignments(nt: NT, ranges: &[(Option<Num>, Option<Num>)], seeds: &[u64]) -> Vec<Vec<Num>> {
    let small = matches!(nt, NT::I8 | NT::U8);
    let mut per: Vec<Vec<Num>> = vec![];
    for (i, r) in ranges.iter().enumerate() {
        let sd: Vec<u64> = seeds.iter().map(|s| s.rotate_left(13 * i as u32 + 1) ^ (i as u64).wrapping_mul(0x9e3779b97f4a7c15)).collect();
        let mut v = samples(nt, *r, &sd, small && ranges.len() <= 2);
        v.retain(|x| !matches!(x, Num::F(f) if !f.is_finite()));
        if v.is_empty() {
            return vec![];
        }
        per.push(v);
    }
    // cap the grid
    let cap = 4096usize;
    loop {
        let total: usize = per.iter().map(|v| v.len()).product();
        if total <= cap {
            break;
        }
        let (imax, _) = per.iter().enumerate().max_by_key(|(_, v)| v.len()).expect("non-empty");
        let v = &mut per[imax];
        // keep endpoints-first ordering: drop every other element from the tail half
        let keep: Vec<Num> = v.iter().enumerate().filter(|(i, _)| *i < 6 || i % 2 == 0).map(|(_, x)| *x).collect();
        if keep.len() == v.len() {
            v.truncate(v.len() / 2);
        } else {
            *v = keep;
        }
    }
    let mut out = vec![vec![]];
    for v in &per {
        let mut next = Vec::with_capacity(out.len() * v.len());
        for a in &out {
            for x in v {
                let mut b: Vec<Num> = a.clone();
                b.push(*x);
                next.push(b);
            }
        }
        out = next;
    }
    out
}

fn engine_eval(phys: &Arc<dyn PhysicalExpr>, schema: &SchemaRef, nt: NT, asg: &[Num]) -> Option<ScalarValue> {
    let arrays: Vec<ArrayRef> = asg.iter().map(|v| nt.sv(Some(*v)).to_array().ok()).collect::<Option<Vec<_>>>()?;
    let batch = RecordBatch::try_new(schema.clone(), arrays).ok()?;
    let v = phys.evaluate(&batch).ok()?;
    let arr = v.into_array(1).ok()?;
    ScalarValue::try_from_array(&arr, 0).ok()
}

fn run_expr(c: &ExprCase) -> CaseResult {
    let ncols = c.ranges.len();
    if ncols == 0 || ncols > 3 {
        return CaseResult::discard("outside domain: 1-3 columns");
    }
    let nt = c.nt;
    let mut rs = ExprResolver { col_ty: nt, ncols, labels: vec!["kind:expr".into(), format!("type:{nt:?}")] };
    let re = rs.boolean(&c.tree);
    let mut labels = rs.labels;
    let schema: SchemaRef = Arc::new(Schema::new((0..ncols).map(|i| Field::new(format!("c{i}"), nt.data_type(), true)).collect::<Vec<_>>()));
    let phys = re_phys(&re);
    if !check_support(&phys, &schema) {
        return CaseResult::discard("check_support = false").labels(labels);
    }
    let mut ranges = vec![];
    let mut ivs = vec![];
    for r in &c.ranges {
        let iv = resolve_iv(nt, r);
        let i = match make_interval(nt, iv) {
            Ok(x) => x,
            Err(e) => return CaseResult::discard(format!("interval construction: {}", truncate(&e, 60))).labels(labels),
        };
        match bounds(&i) {
            Ok(b) => ranges.push(b),
            Err(e) => return CaseResult::discard(e).labels(labels),
        }
        ivs.push(i);
    }
    let asgs = assignments(nt, &ranges, &c.seeds);
    let describe = || format!("expr = {phys}; ranges = [{}]", ivs.iter().map(|i| i.to_string()).collect::<Vec<_>>().join(", "));

    // model vs engine on the first assignments
    for asg in asgs.iter().take(6) {
        if let Some(m) = eval_re(&re, asg) {
            match engine_eval(&phys, &schema, nt, asg) {
                Some(ScalarValue::Boolean(Some(b))) if b == m => {}
                Some(ScalarValue::Boolean(Some(b))) => {
                    return CaseResult::inconclusive("model disagrees with PhysicalExpr::evaluate").labels(labels).label(format!("MODEL-DISAGREE model={m} engine={b} asg={asg:?} {}", describe()));
                }
                _ => {}
            }
        }
    }

    // 1. evaluate_bounds of the arithmetic operands of the first comparison and of the whole predicate
    let cols: Vec<Arc<dyn PhysicalExpr>> = (0..ncols).map(|i| Arc::new(Column::new(&format!("c{i}"), i)) as Arc<dyn PhysicalExpr>).collect();
    let (fl, fr) = first_cmp(&re);
    let mut nontrivial = false;
    for side in [fl, fr] {
        let p = ra_phys(side);
        let mut g = match ExprIntervalGraph::try_new(p.clone(), &schema) {
            Ok(g) => g,
            Err(e) => return CaseResult::discard(format!("graph: {}", truncate(&e.to_string(), 60))).labels(labels),
        };
        let idx = g.gather_node_indices(&cols);
        let assign: Vec<(usize, Interval)> = idx.iter().enumerate().filter(|(_, (_, n))| *n != usize::MAX).map(|(i, (_, n))| (*n, ivs[i].clone())).collect();
        g.assign_intervals(&assign);
        let b = match g.evaluate_bounds() {
            Ok(b) => b.clone(),
            Err(e) => {
                labels.push(format!("evaluate_bounds-error:{}", reason(&e.to_string())));
                continue;
            }
        };
        let bb = match bounds(&b) {
            Ok(x) => x,
            Err(e) => return CaseResult::discard(e).labels(labels),
        };
        if bb.0.is_some() || bb.1.is_some() {
            nontrivial = true;
        }
        for asg in &asgs {
            if let Some(v) = eval_ra(side, asg) {
                if !inside(bb.0, bb.1, v) {
                    return CaseResult::violation(format!("evaluate_bounds of {p} = {b} does not contain its value {v:?} at {asg:?}; ranges = [{}]", ivs.iter().map(|i| i.to_string()).collect::<Vec<_>>().join(", ")))
                        .labels(labels)
                        .label("fail:evaluate_bounds")
                        .nontrivial(true);
                }
            }
        }
        let _ = ra_type(side);
    }

    let given = if c.given_false { Interval::FALSE } else { Interval::TRUE };
    let want = !c.given_false;
    labels.push(format!("given:{want}"));
    let mut g = match ExprIntervalGraph::try_new(phys.clone(), &schema) {
        Ok(g) => g,
        Err(e) => return CaseResult::discard(format!("graph: {}", truncate(&e.to_string(), 60))).labels(labels),
    };
    let idx = g.gather_node_indices(&cols);
    let present: Vec<usize> = (0..ncols).filter(|i| idx[*i].1 != usize::MAX).collect();
    let mut leaf: Vec<(usize, Interval)> = present.iter().map(|i| (idx[*i].1, ivs[*i].clone())).collect();
    g.assign_intervals(&leaf);
    match g.evaluate_bounds() {
        Ok(b) => {
            let (l, h) = match bool_bounds(b) {
                Ok(x) => x,
                Err(e) => return CaseResult::violation(format!("{e}; {}", describe())).labels(labels),
            };
            for asg in &asgs {
                if let Some(t) = eval_re(&re, asg) {
                    if !(l <= t && t <= h) {
                        return CaseResult::violation(format!("evaluate_bounds = {b} but the predicate is {t} at {asg:?}; {}", describe())).labels(labels).label("fail:evaluate_bounds-bool").nontrivial(true);
                    }
                }
            }
            if l == h {
                labels.push("root-bounds:certain".into());
            }
        }
        Err(e) => labels.push(format!("evaluate_bounds-error:{}", reason(&e.to_string()))),
    }

    // 2. update_ranges
    // propagation inverts the operations: only assignments whose floating-point evaluation is exact (the real
    // result of every node is representable) are claimed to survive it
    let satisfying: Vec<&Vec<Num>> = asgs.iter().filter(|a| eval_re_exact(&re, a) == (Some(want), true)).collect();
    match g.update_ranges(&mut leaf, given.clone()) {
        Ok(PropagationResult::Success) => {
            labels.push("propagation:success".into());
            let mut shrank = false;
            for (k, ci) in present.iter().enumerate() {
                let nb = match bounds(&leaf[k].1) {
                    Ok(x) => x,
                    Err(e) => return CaseResult::discard(e).labels(labels),
                };
                if leaf[k].1 != ivs[*ci] {
                    shrank = true;
                }
                for asg in &satisfying {
                    if !inside(nb.0, nb.1, asg[*ci]) {
                        return CaseResult::violation(format!(
                            "update_ranges(given={given}) shrank c{ci} from {} to {} although the assignment {asg:?} satisfies the constraint; {}",
                            ivs[*ci],
                            leaf[k].1,
                            describe()
                        ))
                        .labels(labels)
                        .label("fail:update_ranges")
                        .nontrivial(true);
                    }
                }
            }
            if shrank {
                labels.push("propagation:shrank".into());
                nontrivial = true;
            }
        }
        Ok(PropagationResult::Infeasible) => {
            labels.push("propagation:infeasible".into());
            nontrivial = true;
            if let Some(asg) = satisfying.first() {
                return CaseResult::violation(format!("update_ranges(given={given}) = Infeasible although the assignment {asg:?} satisfies the constraint; {}", describe())).labels(labels).label("fail:infeasible").nontrivial(true);
            }
        }
        Ok(PropagationResult::CannotPropagate) => labels.push("propagation:cannot".into()),
        Err(e) => labels.push(format!("update_ranges-error:{}", reason(&e.to_string()))),
    }

    // 3. analyze (constraint = TRUE)
    let boundaries: Vec<ExprBoundaries> = (0..ncols)
        .map(|i| ExprBoundaries { column: Column::new(&format!("c{i}"), i), interval: Some(ivs[i].clone()), distinct_count: datafusion_common::stats::Precision::Absent })
        .collect();
    let sat_true: Vec<&Vec<Num>> = asgs.iter().filter(|a| eval_re_exact(&re, a) == (Some(true), true)).collect();
    match analyze(&phys, AnalysisContext::new(boundaries), &schema) {
        Ok(ctx) => {
            for (i, b) in ctx.boundaries.iter().enumerate() {
                match &b.interval {
                    None => {
                        if let Some(asg) = sat_true.first() {
                            return CaseResult::violation(format!("analyze: empty boundary for c{i} although {asg:?} satisfies the predicate; {}", describe())).labels(labels).label("fail:analyze").nontrivial(true);
                        }
                    }
                    Some(iv) => {
                        let nb = match bounds(iv) {
                            Ok(x) => x,
                            Err(e) => return CaseResult::discard(e).labels(labels),
                        };
                        for asg in &sat_true {
                            if !inside(nb.0, nb.1, asg[i]) {
                                return CaseResult::violation(format!("analyze: boundary of c{i} = {iv} excludes {asg:?} which satisfies the predicate; {}", describe())).labels(labels).label("fail:analyze").nontrivial(true);
                            }
                        }
                    }
                }
            }
            if let Some(s) = ctx.selectivity {
                if !(0.0..=1.0).contains(&s) {
                    return CaseResult::violation(format!("analyze: selectivity {s} outside [0,1]; {}", describe())).labels(labels);
                }
            }
            labels.push("analyze:ok".into());
        }
        Err(e) => labels.push(format!("analyze-error:{}", reason(&e.to_string()))),
    }
    if !sat_true.is_empty() {
        labels.push("some-assignment-satisfies".into());
    }
    CaseResult::pass().labels(labels).nontrivial(nontrivial)
}

fn reason(s: &str) -> String {
    s.chars().take(48).map(|c| if c.is_ascii_digit() { '#' } else { c }).collect()
}

// ---------------------------------------------------------------------------------------------
// the property

#[derive(Clone, Debug, Serialize, Deserialize)]
pub enum Case {
    Op(OpCase),
    Cast(CastCase),
    Expr(ExprCase),
}

fn end_s() -> impl Strategy<Value = EndSpec> {
    (prop_oneof![3 => Just(0u8), 2 => Just(1u8), 2 => Just(2u8), 2 => Just(3u8), 1 => Just(4u8), 1 => Just(5u8), 6 => Just(6u8), 5 => Just(7u8), 2 => Just(8u8), 2 => Just(9u8), 1 => Just(10u8), 1 => Just(11u8), 1 => Just(12u8)], any::<i64>())
        .prop_map(|(kind, raw)| EndSpec { kind, raw })
}

fn iv_s() -> impl Strategy<Value = IvSpec> {
    (end_s(), end_s(), prop::bool::weighted(0.15)).prop_map(|(lo, hi, single)| IvSpec { lo, hi, single })
}

fn nt_s(list: &'static [NT]) -> impl Strategy<Value = NT> {
    // Int8 / UInt8 (exhaustive grids) get extra weight
    prop_oneof![3 => prop::sample::select(list.to_vec()), 1 => Just(NT::I8), 1 => Just(NT::U8)]
}

fn arith_s() -> BoxedStrategy<A> {
    let leaf = prop_oneof![
        5 => any::<u16>().prop_map(A::Col),
        3 => (prop_oneof![6 => Just(6u8), 1 => Just(3u8), 1 => Just(4u8), 1 => Just(1u8), 1 => Just(2u8), 1 => Just(7u8), 1 => Just(9u8)], any::<i64>()).prop_map(|(kind, raw)| A::Lit(EndSpec { kind, raw })),
    ];
    leaf.prop_recursive(2, 6, 2, |inner| {
        prop_oneof![
            10 => (any::<u8>(), inner.clone(), inner.clone()).prop_map(|(op, l, r)| A::Bin { op, l: Box::new(l), r: Box::new(r) }),
            1 => inner.clone().prop_map(|x| A::Neg(Box::new(x))),
            1 => (any::<u16>(), inner).prop_map(|(to, x)| A::Cast { to, inner: Box::new(x) }),
        ]
    })
    .boxed()
}

fn bool_s() -> BoxedStrategy<E> {
    let cmp = (any::<u8>(), any::<u16>(), arith_s(), arith_s()).prop_map(|(op, ty, l, r)| E::Cmp { op, ty, l, r });
    cmp.prop_recursive(2, 4, 2, |inner| (inner.clone(), inner).prop_map(|(a, b)| E::And(Box::new(a), Box::new(b)))).boxed()
}

impl Property for C23 {
    type Case = Case;
    fn id(&self) -> &'static str {
        "C23"
    }
    fn sub(&self) -> &'static str {
        "c23"
    }
    fn strategy(&self, tier: Tier) -> BoxedStrategy<Case> {
        let nseeds = tier.pick(3usize, 6usize);
        let op = (nt_s(&ALL_NT), any::<u8>(), any::<u8>(), iv_s(), iv_s(), prop::collection::vec(any::<u64>(), nseeds), prop_oneof![3 => Just(0u8), 1 => 1u8..10])
            .prop_map(|(nt, rhs_kind, op, a, b, seeds, nullable)| Case::Op(OpCase { nt, rhs_kind, op, a, b, seeds, nullable }));
        let cast = (nt_s(&ALL_NT), any::<u16>(), iv_s(), any::<bool>(), prop::collection::vec(any::<u64>(), nseeds)).prop_map(|(from, to, iv, safe, seeds)| Case::Cast(CastCase { from, to, iv, safe, seeds }));
        let expr = (prop_oneof![2 => nt_s(&EXPR_NT), 1 => prop::sample::select(vec![NT::F32, NT::F64])], prop::collection::vec(iv_s(), 1..=3), bool_s(), prop::bool::weighted(0.04), prop::collection::vec(any::<u64>(), nseeds))
            .prop_map(|(nt, ranges, tree, given_false, seeds)| Case::Expr(ExprCase { nt, ranges, tree, given_false, seeds }));
        prop_oneof![4 => op, 1 => cast, 5 => expr].boxed()
    }
    fn budget(&self, tier: Tier) -> Budget {
        Budget::new(tier.pick(32_000, 1_500_000), tier.pick(8, 16)).min_nontrivial(tier.pick(2_000, 100_000)).discard_cap(0.3)
    }
    fn rule(&self) -> String {
        "operator cases (type x operator x two endpoint-pattern intervals, exhaustive value grid for Int8/UInt8, sampled values otherwise), cast cases, expression cases (typed tree x column ranges x sampled assignments); \
         non-trivial = the result interval is bounded on a side / the boolean result is certain / propagation shrank a range or proved infeasibility, and at least one concrete value was checked; distinct by case JSON"
            .into()
    }
    fn assumptions(&self) -> Vec<String> {
        vec![
            "concrete semantics: exact integer arithmetic in i128 with truncating division; IEEE round-to-nearest in the native float width; results outside the result type, division by zero, NaN and overflow to infinity are exempt".into(),
            "float membership uses IEEE comparison for operator results and the engine's total order for set operations; zeros of either sign are skipped where the two orders differ".into(),
            "the concrete value of a cast is the engine's own scalar cast (safe mode)".into(),
            "propagation (update_ranges / analyze) is only required to keep assignments whose floating-point evaluation is exact at every node (the real result is representable): absorption such as 1.7e38f + 1.0f == 1.7e38f cannot be inverted by interval arithmetic; forward bounds are checked against the rounded values as well".into(),
            "expression level: only expressions accepted by check_support are analysed (as FilterExec / SymmetricHashJoin do); an assignment with a non-representable intermediate value is exempt".into(),
        ]
    }
    fn known_signature(&self, case: &Case) -> Option<String> {
        known_sig(case)
    }
    fn run(&self, case: &Case) -> CaseResult {
        match case {
            Case::Op(c) => run_op(c),
            Case::Cast(c) => run_cast(c),
            Case::Expr(c) => run_expr(c),
        }
    }
    fn extra(&self, _tier: Tier, _seed: u64) -> Result<serde_json::Value, (String, Case)> {
        // exhaustive truth-table check of the boolean interval algebra (no generated case can represent it,
        // so a failure is reported with a placeholder case and a self-contained message)
        let placeholder = || Case::Op(OpCase { nt: NT::I8, rhs_kind: 0, op: 0, a: IvSpec { lo: EndSpec { kind: 3, raw: 0 }, hi: EndSpec { kind: 3, raw: 0 }, single: true }, b: IvSpec { lo: EndSpec { kind: 3, raw: 0 }, hi: EndSpec { kind: 3, raw: 0 }, single: true }, seeds: vec![], nullable: 0 });
        let mut checked = 0u64;
        let plain = [(Interval::FALSE, vec![false]), (Interval::TRUE, vec![true]), (Interval::TRUE_OR_FALSE, vec![false, true])];
        let has = |iv: &Interval, t: bool| -> bool { matches!(bool_bounds(iv), Ok((l, h)) if l <= t && t <= h) };
        for (a, av) in &plain {
            let n = a.not().map_err(|e| (format!("Interval::not: {e}"), placeholder()))?;
            for x in av {
                checked += 1;
                if !has(&n, !x) {
                    return Err((format!("NOT {a} = {n} misses {}", !x), placeholder()));
                }
            }
            for (b, bv) in &plain {
                let and = a.and(b).map_err(|e| (format!("Interval::and: {e}"), placeholder()))?;
                let or = a.or(b).map_err(|e| (format!("Interval::or: {e}"), placeholder()))?;
                for x in av {
                    for y in bv {
                        checked += 2;
                        if !has(&and, *x && *y) {
                            return Err((format!("{a} AND {b} = {and} misses {}", *x && *y), placeholder()));
                        }
                        if !has(&or, *x || *y) {
                            return Err((format!("{a} OR {b} = {or} misses {}", *x || *y), placeholder()));
                        }
                    }
                }
            }
        }
        // three-valued: every non-empty subset of {T, F, U}
        type Tv = Option<bool>;
        let sets: Vec<(NullableInterval, Vec<Tv>)> = vec![
            (NullableInterval::FALSE, vec![Some(false)]),
            (NullableInterval::TRUE, vec![Some(true)]),
            (NullableInterval::UNKNOWN, vec![None]),
            (NullableInterval::TRUE_OR_FALSE, vec![Some(true), Some(false)]),
            (NullableInterval::TRUE_OR_UNKNOWN, vec![Some(true), None]),
            (NullableInterval::FALSE_OR_UNKNOWN, vec![Some(false), None]),
            (NullableInterval::ANY_TRUTH_VALUE, vec![Some(true), Some(false), None]),
        ];
        let and3 = |x: Tv, y: Tv| match (x, y) {
            (Some(false), _) | (_, Some(false)) => Some(false),
            (Some(true), Some(true)) => Some(true),
            _ => None,
        };
        let or3 = |x: Tv, y: Tv| match (x, y) {
            (Some(true), _) | (_, Some(true)) => Some(true),
            (Some(false), Some(false)) => Some(false),
            _ => None,
        };
        let has3 = |iv: &NullableInterval, t: Tv| iv.contains_value(ScalarValue::Boolean(t)).unwrap_or(false);
        for (a, av) in &sets {
            let n = a.not().map_err(|e| (format!("NullableInterval::not: {e}"), placeholder()))?;
            let (it, if_, iu) = (
                a.is_true().map_err(|e| (format!("is_true: {e}"), placeholder()))?,
                a.is_false().map_err(|e| (format!("is_false: {e}"), placeholder()))?,
                a.is_unknown().map_err(|e| (format!("is_unknown: {e}"), placeholder()))?,
            );
            for x in av {
                checked += 4;
                if !has3(&n, x.map(|b| !b)) {
                    return Err((format!("NOT {a} = {n} misses {:?}", x.map(|b| !b)), placeholder()));
                }
                if !has3(&it, Some(*x == Some(true))) || !has3(&if_, Some(*x == Some(false))) || !has3(&iu, Some(x.is_none())) {
                    return Err((format!("is_true/is_false/is_unknown of {a} = {it} / {if_} / {iu} miss the value for {x:?}"), placeholder()));
                }
            }
            for (b, bv) in &sets {
                for op in [Operator::And, Operator::Or] {
                    let r = a.apply_operator(&op, b).map_err(|e| (format!("NullableInterval {op}: {e}"), placeholder()))?;
                    for x in av {
                        for y in bv {
                            checked += 1;
                            let t = if op == Operator::And { and3(*x, *y) } else { or3(*x, *y) };
                            if !has3(&r, t) {
                                return Err((format!("{a} {op} {b} = {r} misses {t:?} (x={x:?}, y={y:?})"), placeholder()));
                            }
                        }
                    }
                }
            }
        }
        Ok(json!({"boolean_interval_algebra_exhaustive_checks": checked}))
    }
}

/// Signatures of known findings (see /verif/known_findings.json):
/// * `mul-both-contain-zero-overflow`: `Interval::mul` of two zero-containing integer intervals where an endpoint
///   product overflows: the overflowed (unbounded = NULL) candidate is dropped by `max_of_bounds` / `min_of_bounds`,
///   which read NULL as the *opposite* infinity ([-2,127] * [0,2] = [-4,0] for Int8).
/// * `int-mul-expr`: any integer multiplication inside an expression: besides the above, constraint propagation
///   inverts `x * y = p` into `x in p / y`; integer `Interval::div` is only unbounded when 0 is strictly inside the
///   divisor, so with y in [0, k] and 0 in p every x is a solution (y = 0) but x is cut to [0, +inf)
///   (`c0 + c0 <= -1 * c0`, c0 in [0,32767] is reported Infeasible although c0 = 0 satisfies it).
/// * `int-div-upper-zero`: `Interval::div` on integer types when an operand's upper bound is 0 and its lower bound is
///   negative: the `zero_point` trick ([-1, 1] for integers) classifies it as a positive interval
///   (Int8 [5,10] / [-5,0] = [NULL,-2], missing 5 / -5 = -1).
/// * `int-div-expr`: any integer division inside an expression: besides the above, constraint propagation
///   inverts `x / y = p` into `x in y * p`, which is wrong for truncating division (`c0 / 2 = 3`, c0 in [0,10]
///   is shrunk to [6,6], losing 7).
/// * `lossy-cast-propagation`: `CastExpr::propagate_constraints` casts the parent interval back to the child type
///   as if the cast were injective: `CAST(c0 AS Int32) = 3` with c0 in [0.0, 4.0] shrinks c0 to [3, 3] (3.5 lost);
///   likewise Int32/Int64 -> Float32/Float64 beyond the mantissa and Float64 -> Float32.
/// * `ts-minus-duration-overflow-sign`: `Interval::sub` of a timestamp and a duration interval when an endpoint
///   difference overflows: `handle_overflow` decides the sign by `lhs >= rhs`, which is `false` for scalars of
///   different types, so a positive overflow becomes the type's MIN ([NULL,MAX] - [-1,NULL] = [NULL,MIN]).
/// * `given-false`: `update_ranges(.., FALSE)`: `propagate_comparison` answers `None` ("infeasible") for an uncertain
///   parent and for `Eq` under FALSE although its comments say that nothing can be propagated there, and the
///   FALSE branches of `>`/`>=`/`<`/`<=` return the two child intervals in swapped order
///   (`0 > c0` FALSE with c0 in [NULL,127] turns c0 into [0,0]).
fn known_sig(case: &Case) -> Option<String> {
    crate::c22::pick_signature("C23", all_sigs(case))
}

/// every signature the case matches
fn all_sigs(case: &Case) -> Vec<String> {
    let mut out: Vec<String> = vec![];
    match case {
        Case::Expr(c) => {
            if c.ranges.is_empty() || c.ranges.len() > 3 {
                return out;
            }
            let mut rs = ExprResolver { col_ty: c.nt, ncols: c.ranges.len(), labels: vec![] };
            let re = rs.boolean(&c.tree);
            if re_any(&re, &has_lossy_cast) {
                out.push("lossy-cast-propagation".into());
            }
            if re_any(&re, &has_int_div) {
                out.push("int-div-expr".into());
            }
            if re_any(&re, &has_int_mul) {
                out.push("int-mul-expr".into());
            }
            if c.given_false {
                out.push("given-false".into());
            }
            out
        }
        Case::Op(c) => {
            let (k, rhs_nt) = effective_op(c);
            if c.nullable != 0 && matches!(k, OpK::Bin(Operator::IsDistinctFrom | Operator::IsNotDistinctFrom)) {
                let (va, vb) = ((c.nullable - 1) % 3, ((c.nullable - 1) / 3) % 3);
                if (va, vb) == (1, 0) || (va, vb) == (0, 1) {
                    out.push("nullable-distinct-maybenull-notnull".into());
                }
            }
            if k == OpK::Bin(Operator::Minus) && rhs_nt != c.nt {
                let (a, b) = (resolve_iv(c.nt, &c.a), resolve_iv(rhs_nt, &c.b));
                let (lo, hi) = c.nt.range().unwrap_or((i128::MIN, i128::MAX));
                let over = |x: Option<Num>, y: Option<Num>| matches!((x, y), (Some(Num::I(x)), Some(Num::I(y))) if x - y < lo || x - y > hi);
                if over(a.1, b.0) || over(a.0, b.1) {
                    out.push("ts-minus-duration-overflow-sign".into());
                }
            }
            if k == OpK::Bin(Operator::Divide) && !c.nt.is_float() {
                let (a, b) = (resolve_iv(c.nt, &c.a), resolve_iv(rhs_nt, &c.b));
                let upper_zero = |iv: (Option<Num>, Option<Num>)| iv.1 == Some(Num::I(0)) && iv.0 != Some(Num::I(0)) && !c.nt.is_unsigned();
                if upper_zero(a) || upper_zero(b) {
                    out.push("int-div-upper-zero".into());
                }
            }
            if k == OpK::Bin(Operator::Multiply) && !c.nt.is_float() {
                let (a, b) = (resolve_iv(c.nt, &c.a), resolve_iv(rhs_nt, &c.b));
                // the engine turns an unbounded unsigned lower bound into 0
                let lo0 = |v: Option<Num>, t: NT| if v.is_none() && t.is_unsigned() { Some(Num::I(0)) } else { v };
                if let (Some(Num::I(al)), Some(Num::I(ah)), Some(Num::I(bl)), Some(Num::I(bh))) = (lo0(a.0, c.nt), a.1, lo0(b.0, rhs_nt), b.1) {
                    let (lo, hi) = mul_result_range(c.nt);
                    let zero_in_both = al <= 0 && 0 <= ah && bl <= 0 && 0 <= bh && !c.nt.is_unsigned();
                    if zero_in_both && [al * bh, bl * ah, ah * bh, al * bl].iter().any(|p| *p < lo || *p > hi) {
                        out.push("mul-both-contain-zero-overflow".into());
                    }
                }
            }
            out
        }
        _ => out,
    }
}

/// integer range of the type `t * t` evaluates to
fn mul_result_range(t: NT) -> (i128, i128) {
    match t {
        NT::Dec102 => {
            let m = 10i128.pow(21) - 1;
            (-m, m)
        }
        _ => t.range().unwrap_or((i128::MIN, i128::MAX)),
    }
}

fn has_int_mul(a: &RA) -> bool {
    match a {
        RA::Col(..) | RA::Lit(..) => false,
        RA::Neg(x, _) | RA::Cast(x, _, _) => has_int_mul(x),
        RA::Bin(op, l, r, t) => (*op == Operator::Multiply && !t.is_float()) || has_int_mul(l) || has_int_mul(r),
    }
}

fn cast_injective(from: NT, to: NT) -> bool {
    let bits = |t: NT| match t {
        NT::I8 | NT::U8 => 8,
        NT::I16 | NT::U16 => 16,
        NT::I32 | NT::U32 => 32,
        _ => 64,
    };
    match (from.is_float(), to.is_float()) {
        (false, false) => true,
        (false, true) => bits(from) <= if to == NT::F32 { 24 } else { 53 },
        (true, false) => false,
        (true, true) => !(from == NT::F64 && to == NT::F32),
    }
}

fn has_lossy_cast(a: &RA) -> bool {
    match a {
        RA::Col(..) | RA::Lit(..) => false,
        RA::Neg(x, _) => has_lossy_cast(x),
        RA::Cast(x, from, to) => !cast_injective(*from, *to) || has_lossy_cast(x),
        RA::Bin(_, l, r, _) => has_lossy_cast(l) || has_lossy_cast(r),
    }
}

fn has_int_div(a: &RA) -> bool {
    match a {
        RA::Col(..) | RA::Lit(..) => false,
        RA::Neg(x, _) | RA::Cast(x, _, _) => has_int_div(x),
        RA::Bin(op, l, r, t) => (*op == Operator::Divide && !t.is_float()) || has_int_div(l) || has_int_div(r),
    }
}

fn re_any(e: &RE, f: &dyn Fn(&RA) -> bool) -> bool {
    match e {
        RE::Cmp(_, l, r) => f(l) || f(r),
        RE::And(a, b) => re_any(a, f) || re_any(b, f),
    }
}
