//! vf-prune: statistics pruning (C22) and interval arithmetic / constraint propagation (C23).
mod c22;
mod c23;

fn main() {
    vf_kit::dispatch! {
        "c22" => c22::C22,
        "c23" => c23::C23,
    }
}
